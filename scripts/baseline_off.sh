#!/bin/bash
# Runs the repository's own suite with the verif guard OFF and compares the set of passing tests with BASELINE.json.
export GOFLAGS=-mod=mod GOPROXY=off GOSUMDB=off GOTOOLCHAIN=local
cd /repo || exit 2
out=$(mktemp)
go test -mod=mod -json -vet=off -count=1 -timeout 25m ./... > "$out" 2>&1
python3 - "$out" <<'PY'
import json,sys
passed=set(); failed=set()
for l in open(sys.argv[1]):
    try: e=json.loads(l)
    except Exception: continue
    t=e.get('Test')
    if not t: continue
    k=e['Package']+'::'+t
    if e.get('Action')=='pass': passed.add(k)
    elif e.get('Action')=='fail': failed.add(k)
base=set(json.load(open('/root/.vp/BASELINE.json'))['stable_pass'])
missing=sorted(base-passed)
print(f"baseline={len(base)} passed={len(passed)} failed={len(failed)} missing_from_pass={len(missing)}")
for m in missing[:40]: print("  NOT PASSING:",m)
sys.exit(1 if missing or failed else 0)
PY
rc=$?
rm -f "$out"
exit $rc
