#!/bin/bash
# usage: eval_all_seeded.sh [P]   – development aid: runs every seeded change under /verif/seeded against the check of its own
# property (quick tier, seed 1) in scratch worktrees (eval_mutant_wt.sh), P at a time; results in /tmp/mut/eval_all.out
P="${1:-3}"
cd /verif/seeded || exit 2
export VCHECK_BIN="${VCHECK_BIN:-/verif/bin/vcheck}"
: > /tmp/mut/eval_all.out
ls -d C*/ | tr -d / | xargs -P "$P" -I{} sh -c 'p=$(echo {} | cut -c1-3); /verif/scripts/eval_mutant_wt.sh {} /verif/seeded/{}/patch.diff $p 2>&1 | tail -1 | cut -c1-300 >> /tmp/mut/eval_all.out'
sort /tmp/mut/eval_all.out
