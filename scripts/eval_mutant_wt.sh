#!/bin/bash
# usage: eval_mutant_wt.sh <name> <patch.diff> <check ids...>
# Development aid: applies a seeded change in a scratch worktree of /repo (never in /repo itself), runs the given checks
# against that worktree (VERIF_REPO, quick tier unless TIER is set), removes the worktree. One line per check.
name="$1"; patch="$2"; shift 2
export GOFLAGS=-mod=mod GOPROXY=off GOSUMDB=off GOTOOLCHAIN=local
wt="/tmp/mute/$name"; rm -rf "$wt"; git -C /repo worktree prune; mkdir -p /tmp/mute /tmp/mut/eval
git -C /repo worktree add -q --detach "$wt" HEAD || exit 2
( cd "$wt" && git apply "$patch" ) || { echo "$name: patch does not apply"; git -C /repo worktree remove --force "$wt"; exit 2; }
( cd "$wt" && go build ./... ) || { echo "$name: does not build"; git -C /repo worktree remove --force "$wt"; exit 2; }
tier="${TIER:-quick}"
bin="${VCHECK_BIN:-/verif/bin/vcheck}"
for id in "$@"; do
  out="/tmp/mut/eval/$name-$id.log"
  ( cd /verif && VERIF_REPO="$wt" VERIF_OUT="/tmp/mute/out-$name" VERIF_SCRATCH=/tmp "$bin" "$id" "$tier" > "$out" 2>&1 )
  rc=$?
  n=$(grep -c '^VIOLATION' "$out")
  first=$(grep -m1 '^VIOLATION' "$out" | sed 's/replay=[^ ]* //' | cut -c1-220)
  echo "$name $id rc=$rc violations_printed=$n $first"
done
git -C /repo worktree remove --force "$wt"
rm -rf "/tmp/mute/out-$name"
