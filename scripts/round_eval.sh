#!/bin/bash
# usage: round_eval.sh <round> <property id> [more check ids...]  – development aid: takes a sub-agent's deliverables from
# /tmp/r<round>/<id>.out, confirms them (verify_mutant.sh) and runs the checks (eval_mutant_wt.sh); log in /tmp/mut/<id>-r<round>.log
r="$1"; id="$2"; shift 2
name="$id-r$r"
mkdir -p /tmp/mut; rm -rf "/tmp/mut/$name"; cp -r "/tmp/r$r/$id.out" "/tmp/mut/$name"
{
  /verif/scripts/verify_mutant.sh "$name"
  /verif/scripts/eval_mutant_wt.sh "$name" "/tmp/mut/$name/patch.diff" "$id" "$@"
} > "/tmp/mut/$name.log" 2>&1
tail -n +1 "/tmp/mut/$name.log" | grep -v '^WARNING' | cut -c1-400
