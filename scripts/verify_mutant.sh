#!/bin/bash
# usage: verify_mutant.sh <id>   – confirms a seeded change from /tmp/mut/<id> in a fresh scratch worktree:
# patch applies, module builds, suite passes with it, demo fails with it and passes without it.
id="$1"; src="${SRC:-/tmp/mut/$id}"; wt="/tmp/mutv/$id"
export GOFLAGS=-mod=mod GOPROXY=off GOSUMDB=off GOTOOLCHAIN=local
rm -rf "$wt"; git -C /repo worktree prune; mkdir -p /tmp/mutv
git -C /repo worktree add -q --detach "$wt" HEAD || exit 2
cd "$wt" || exit 2
git apply "$src/patch.diff" || { echo "$id: PATCH DOES NOT APPLY"; exit 1; }
echo "$id: files changed: $(git diff --stat | tail -1)"
go build ./... || { echo "$id: BUILD FAILS"; exit 1; }
if go test -vet=off -count=1 ./... > suite.log 2>&1; then echo "$id: suite passes with the change"; else echo "$id: SUITE FAILS with the change"; grep -E "^(FAIL|---)" suite.log | head; fi
mkdir -p demo && cp "$src"/demo/*.go demo/
extra="${DEMO_FLAGS:-}"
if timeout 600 go test -vet=off -count=1 $extra ./demo/ > demo_with.log 2>&1; then echo "$id: demo PASSES with the change (expected FAIL)"; else echo "$id: demo fails with the change (ok)"; fi
git apply -R "$src/patch.diff"
if timeout 900 go test -vet=off -count=1 $extra ./demo/ > demo_without.log 2>&1; then echo "$id: demo passes without the change (ok)"; else echo "$id: demo FAILS without the change"; tail -5 demo_without.log; fi
cd /; git -C /repo worktree remove --force "$wt"
