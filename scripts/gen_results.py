#!/usr/bin/env python3
# usage: gen_results.py <round-suffix, e.g. -r5>   – prints the markdown table of one round of seeded changes from the metas
# under /verif/seeded and the lines of seeded/last_full_evaluation.txt (written by scripts/eval_all_seeded.sh)
import json, glob, re, sys, os
suffix = sys.argv[1]
ev = {}
for ln in open('/verif/seeded/last_full_evaluation.txt'):
    f = ln.split()
    if len(f) < 3:
        continue
    name, check = f[0], f[1]
    rc = re.search(r'rc=(\d+)', ln)
    sig = re.search(r'sig=(\S+)', ln)
    ev[name] = (check, rc.group(1) if rc else '?', sig.group(1) if sig else '')
print('| seeded change | what it does | needs | check | result | first signature |')
print('|---|---|---|---|---|---|')
for d in sorted(glob.glob('/verif/seeded/C??' + suffix)):
    name = os.path.basename(d)
    m = json.load(open(d + '/meta.json'))
    check, rc, sig = ev.get(name, (m['property'], '?', ''))
    res = {'1': 'caught (exit 1)', '0': 'MISSED (exit 0)', '2': 'inconclusive (exit 2)'}.get(rc, 'not evaluated')
    cut = lambda s, n: (s[:n].replace('|', '\\|').replace('\n', ' '))
    print(f"| {name} | {cut(m['what'], 170)} | {cut(m.get('needs_to_manifest', ''), 110)} | {check} | {res} | `{sig}` |")
