#!/bin/bash
# usage: eval_mutant.sh <patch.diff> <check ids...>
# Applies a seeded change to /repo, runs the given checks (quick tier), restores /repo. Prints one line per check.
patch="$1"; shift
cd /repo || exit 2
if [ -n "$(git status --porcelain)" ]; then echo "repo not clean"; exit 2; fi
git apply "$patch" || { echo "patch does not apply"; exit 2; }
export GOFLAGS=-mod=mod GOPROXY=off GOSUMDB=off GOTOOLCHAIN=local
go build ./... || { echo "does not build"; git checkout -- .; exit 2; }
tier="${TIER:-quick}"
mkdir -p /tmp/mut/eval
for id in "$@"; do
  out="/tmp/mut/eval/$(basename $(dirname $patch))-$id.log"; mkdir -p /tmp/mut/eval
  VERIF_SCRATCH=/tmp /verif/vcheck "$id" "$tier" > "$out" 2>&1
  rc=$?
  n=$(grep -c '^VIOLATION' "$out")
  first=$(grep -m1 '^VIOLATION' "$out" | sed 's/replay=[^ ]* //' | cut -c1-220)
  echo "$id rc=$rc violations_printed=$n $first"
done
git checkout -- . && git status --porcelain | head -3
rm -rf /verif/replays
