#!/bin/bash
# usage: fixcommit.sh "<message>"  — builds, runs the unedited suite (guard off), commits /repo
export GOFLAGS=-mod=mod GOPROXY=off GOSUMDB=off GOTOOLCHAIN=local
cd /repo || exit 2
files=$( (git diff --name-only; git ls-files -o --exclude-standard) | grep '\.go$')
if [ -z "$files" ]; then echo "nothing changed"; exit 1; fi
gofmt -l $files 2>/dev/null
go build ./... || exit 1
/verif/scripts/baseline_off.sh || { echo "SUITE FAILED"; exit 1; }
git add -A && git commit -q -m "$1" && git log --oneline | head -1
