#!/usr/bin/env python3
"""Writes /verif/MANIFEST.json from the table below (single source of truth for what is claimed)."""
import json, subprocess

CHECKS = {
 "C01": ("exploration", "runtime monitoring: hostile workload in child worker processes; crash/fatal/hang/memory observers, structured-error oracle, scanner step-count hook, CPU-time scaling monitor (n vs 4n) for the phases after the scanner",
         "Every build runs in a worker process; panics are caught per case, process deaths (stack overflow, runtime throw, memory cap) are attributed to the case in flight, hangs to a watchdog with isolated re-run; the work after the scanner is observed as CPU time of the build on 52 families of documents that repeat one construct n and 4n times (violation: more than 8 CPU-seconds, or more than 4 CPU-seconds and more than 24 times the smaller document); the scanner's work is counted through the step hook (bound 3*len+64 per scan). Exploration level: held on the executions produced (hostile byte strings, all macro digraphs on <=3 macros, all include digraphs on <=3 files, root specials), not a proof of totality.", "§3 C01"),
 "C04": ("exploration", "runtime monitoring: reference JDoc-Exchange shape validator over every accepted build of a hostile/targeted workload; CPU-time scaling monitor for the serialisers",
         "Every accepted build is serialised with ToJson/ToJsonIndent; outputs are parsed (order-preserving), compared up to whitespace and validated against a shape validator written from the JDoc Exchange 2.0.0 layout; every project outside the mutant stream is built again and the two accessors are called concurrently on that one catalog (delays at the yield hooks), same oracle; a worker that dies or hangs is a violation.", "§3 C04"),
 "C05": ("exploration", "runtime monitoring: cross-reference closure checker over serialised catalogs",
         "Every accepted valid-UTF-8 catalog is parsed and all references are resolved in both directions (ids, tags<->interactions per protocol, usedUserTypes/Enums, path variables, codes, bodies, version).", "§3 C05"),
 "C06": ("exploration", "runtime monitoring: repeated builds in one process (re-randomised map iteration) and across fresh processes, byte comparison",
         "Each project is built 12/40 times in one process and in two more processes; catalog bytes, OpenAPI bytes and the full error tuple must be identical. Multi-fault documents (incl. random reference graphs of user types with 2-3 faulty types) give every map-iterating error path >=2 candidates.", "§3 C06"),
 "C07": ("exploration", "runtime monitoring: reference line/column/quote calculator on every rejected build; include-trace scenarios with known chains",
         "Location part on all rejected cases of the hostile workload; index == file length must carry the line/column of a cursor at the end of the file; every include trace must be a chain (each frame is an INCLUDE that resolves to the file of the frame before it, ending in the root); trace part on generated include chains (also same-named files in nested directories)/diamonds/double inclusions under LF/CRLF/CR where the offending occurrence is unambiguous.", "§3 C07"),
 "C11": ("exploration", "runtime monitoring against an executable reference automaton; exhaustive enumeration of all token sequences of length <=3",
         "All 378,504 sequences of <=3 tokens over 72 tokens plus seeded longer ones and the climb-and-close family (A, B, an explicit C, its closing parenthesis, D over all forms: 600 k / 1.6 M sequences) are built; verdict, error class, error line and the scan-phase tree (phase hook) are compared with the reference automaton. Exhaustive within the stated bound.", "§3 C11"),
 "C12": ("exploration", "runtime monitoring: lexeme well-formedness + coverage-completeness monitor on the public scanner; exactness against the renderer's token map",
         "Every lexeme stream of the hostile workload is checked for bounds, order, per-directive grammar, per-type content and for uncovered non-trivia bytes between lexemes; rendered documents are compared with the renderer's ground-truth token map.", "§3 C12"),
 "C13": ("exploration", "runtime monitoring: exhaustive breadth-first probing of the scanner over the 256-byte alphabet against an independent keyword list",
         "Every live keyword prefix x 256 bytes + EOF and every completed keyword x 256 bytes + EOF in twenty-two start contexts (file start, after directives, parentheses, comments of several kinds, annotations, bodies with trailing blanks or comments, quoted type parameters); every byte that can start nothing followed by every byte, by 21 multi-byte / line-end / directive tails and (bytes above 0x7F, three contexts) by all pairs of UTF-8 continuation bytes: the error must sit on the first deviating byte whatever follows (2.4M probes), plus all 530 words x 257 followers and ~4000 near misses at a line start inside a Description text in three contexts (493k probes); exhaustive for the stated space.", "§3 C13"),
 "C14": ("fault_enumeration", "runtime monitoring: file-access hook as deciding observer over an enumerated parameter space and enumerated include graphs; strace cross-check",
         "All strings over {a . / \\ ~} up to length 5/7 (bare and quoted) and hostile extras against a sandbox with decoys; all include digraphs on <=3 files and sampled 4-5 file graphs; seeded include trees over six nested directories (same parameter text resolving differently per directory) against a reference resolver; thorough tier cross-checks the hook against strace.", "§3 C14"),
 "C16": ("exploration", "runtime monitoring: history check of accessor call sequences against per-accessor canonical values",
         "All 780 (quick) / 19,530 (thorough) call sequences over the five accessors on fresh builds of selected projects, sampled length-6 sequences on the rest; every call must return its canonical bytes; a call that never returns is a violation.", "§3 C16"),
 "C17": ("exploration", "runtime monitoring: reference OpenAPI-3.0.3 subset validator over every accepted build; panic observer; CPU-time scaling monitor for the export",
         "Every accepted build is exported; a panic is a violation, an error value is counted, a document is validated against the catalog it came from.", "§3 C17"),
 "C18": ("exploration", "Go race detector (-race) over concurrent builds/serialisations with jitter at yield hooks, plus comparison with a sequential baseline",
         "Workers built with -race run 16 goroutines x 3 rounds building different projects and 8 goroutines serialising one catalog; race reports are counted from the log and every result is compared with the sequential baseline.", "§3 C18"),
 "C19": ("fault_enumeration", "runtime monitoring: enumeration of all banned-kind subsets of size <=2 over projects with known kind occurrences; differential comparison with the unrestricted build",
         "496 configurations x projects x 2 APIs; presence of a kind is read from the phase hook of the unrestricted build; present => not-allowed error on such a directive with a truthful include trace (chain rule), absent => identical result.", "§3 C19"),
}

NOT_YET = {}

def main():
    import os, sys
    extra = {}
    p = "/verif/scripts/manifest_extra.json"
    if os.path.exists(p):
        extra = json.load(open(p))
    checks = []
    table = dict(CHECKS)
    for k, v in extra.get("checks", {}).items():
        table[k] = tuple(v)
    for pid in sorted(table):
        level, tech, text, ref = table[pid]
        checks.append({
            "property_id": pid,
            "quick_cmd": f"./vcheck {pid} quick",
            "thorough_cmd": f"./vcheck {pid} thorough",
            "evidence_file": f"/verif/evidence/{pid}.json",
            "replay_cmd_template": f"./vcheck {pid} --replay {{path}}",
            "engine": "vcheck",
            "level_claimed": {"category": level, "text": text, "design_ref": ref},
            "level_note": "Trusted base: the Go toolchain and runtime, jsight-schema-core v0.2.0 for schema semantics, the harness's reference models (harness/internal/ref), and that the hooks (build tag verif) only observe. Held on the executions produced; nothing is claimed about inputs the workload did not reach.",
            "technique": tech,
        })
    all_ids = [json.loads(l)["id"] for l in open("/verif/properties.jsonl")]
    na = [{"property_id": i, "reason": extra.get("not_applicable", {}).get(i, "check not built yet (work in progress); nothing is claimed for this property")} for i in all_ids if i not in table]
    commits = subprocess.run(["git", "-C", "/repo", "log", "--format=%H %s", "8f6583a..HEAD"], capture_output=True, text=True).stdout.strip().split("\n")
    hook_commits = [c.split()[0] for c in commits if " verif:" in c]
    m = {
        "version": 1,
        "setup_cmd": "./setup.sh",
        "hooks": {
            "guard": "verif",
            "enable": "go build -tags verif (the driver builds harness/cmd/vworker with -tags verif against /repo via a replace directive; -race additionally for C18)",
            "baseline_off_cmd": "/verif/scripts/baseline_off.sh",
            "source_commits": hook_commits,
            "add_only": True,
        },
        "engines": [{"name": "vcheck", "path": "/verif/harness", "serves_properties": sorted(table), "kind_free_text": "Go driver (cmd/vcheck) + worker processes (cmd/vworker, built from /repo with -tags verif) + reference models and monitors (internal/ref, internal/checks)"}],
        "checks": checks,
        "not_applicable": na,
        "notes": "Exit codes of every check: 0 held, 1 violation (VIOLATION line with replay), 2 inconclusive (INCONCLUSIVE line). Known findings: /verif/known_findings.txt. Seeds: VERIF_SEED (default 1).",
    }
    json.dump(m, open("/verif/MANIFEST.json", "w"), indent=1)
    print("wrote MANIFEST.json with", len(checks), "checks,", len(na), "not_applicable")

main()
