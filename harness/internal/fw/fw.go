// Package fw is the check framework: worker build, pools, verdicts, known findings, replays, evidence.
package fw

import (
	"bufio"
	"crypto/sha256"
	"encoding/json"
	"fmt"
	"os"
	"os/exec"
	"path/filepath"
	"runtime"
	"sort"
	"strconv"
	"strings"
	"sync"
	"time"

	"verifharness/internal/proc"
	"verifharness/internal/proto"
)

const VerifDir = "/verif"

type finding struct {
	prop, sig, what string
}

type Ctx struct {
	ID    string
	Tier  string
	Seed  int64
	Level string
	Start time.Time

	Scratch string // per-invocation scratch directory, removed at exit

	mu         sync.Mutex
	evals      int64
	distinct   map[[8]byte]struct{}
	rule       string
	samples    []interface{}
	extra      map[string]interface{}
	assume     []string
	exhaustive bool

	findings   []finding
	knownHit   map[string]int
	violations map[string]int // sig -> count
	violOrder  []string
	replayN    int
	inconcl    []string

	workerBin map[bool]string
	pools     []*proc.Pool
}

func New(id, tier string) *Ctx {
	seed := int64(1)
	if s := os.Getenv("VERIF_SEED"); s != "" {
		if v, err := strconv.ParseInt(s, 10, 64); err == nil {
			seed = v
		}
	}
	c := &Ctx{ID: id, Tier: tier, Seed: seed, Level: "exploration", Start: time.Now(),
		distinct: map[[8]byte]struct{}{}, extra: map[string]interface{}{}, knownHit: map[string]int{},
		violations: map[string]int{}, workerBin: map[bool]string{}}
	base := os.Getenv("VERIF_SCRATCH")
	if base == "" {
		base = os.TempDir()
	}
	d, err := os.MkdirTemp(base, "verif-"+id+"-")
	if err != nil {
		fmt.Println("INCONCLUSIVE cannot create scratch dir:", err)
		os.Exit(2)
	}
	c.Scratch = d
	c.loadFindings()
	return c
}

func (c *Ctx) Quick() bool { return c.Tier != "thorough" }

// Pick returns q for the quick tier and t for the thorough tier.
func (c *Ctx) Pick(q, t int) int {
	if c.Quick() {
		return q
	}
	return t
}

func (c *Ctx) loadFindings() {
	f, err := os.Open(filepath.Join(VerifDir, "known_findings.txt"))
	if err != nil {
		return
	}
	defer f.Close()
	sc := bufio.NewScanner(f)
	for sc.Scan() {
		l := strings.TrimSpace(sc.Text())
		if !strings.HasPrefix(l, "finding:") {
			continue
		}
		fs := strings.Fields(strings.TrimPrefix(l, "finding:"))
		var fd finding
		var rest []string
		for _, w := range fs {
			switch {
			case strings.HasPrefix(w, "property=") && fd.prop == "":
				fd.prop = strings.TrimPrefix(w, "property=")
			case strings.HasPrefix(w, "sig=") && fd.sig == "":
				fd.sig = strings.TrimPrefix(w, "sig=")
			default:
				rest = append(rest, w)
			}
		}
		fd.what = strings.Join(rest, " ")
		if fd.prop == c.ID {
			c.findings = append(c.findings, fd)
		}
	}
}

// outDir: where evidence and replays go. /verif, unless a development run against another checkout (VERIF_REPO) redirects them
// with VERIF_OUT so that the committed evidence only ever comes from runs against /repo.
func outDir() string {
	if os.Getenv("VERIF_REPO") != "" {
		if d := os.Getenv("VERIF_OUT"); d != "" {
			return d
		}
	}
	return VerifDir
}

// BuildWorker builds cmd/vworker from /repo's working tree with -tags verif (and -race if asked).
func (c *Ctx) BuildWorker(race bool) string {
	c.mu.Lock()
	defer c.mu.Unlock()
	if p, ok := c.workerBin[race]; ok {
		return p
	}
	out := filepath.Join(c.Scratch, "vworker")
	args := []string{"build", "-tags", "verif", "-o", out}
	if race {
		out += "-race"
		args = []string{"build", "-tags", "verif", "-race", "-o", out}
	}
	if alt := os.Getenv("VERIF_REPO"); alt != "" {
		// development aid (never set by a registered command): build the worker against another checkout of the library, e.g. a
		// scratch worktree holding a seeded change, so that /repo stays untouched
		mod, err := os.ReadFile(filepath.Join(VerifDir, "harness", "go.mod"))
		if err == nil {
			mf := filepath.Join(c.Scratch, "alt.mod")
			_ = os.WriteFile(mf, []byte(strings.Replace(string(mod), "=> /repo", "=> "+alt, 1)), 0o644)
			if sum, err := os.ReadFile(filepath.Join(VerifDir, "harness", "go.sum")); err == nil {
				_ = os.WriteFile(filepath.Join(c.Scratch, "alt.sum"), sum, 0o644)
			}
			args = append(args, "-modfile="+mf)
			fmt.Printf("NOTE: worker built from %s instead of /repo (VERIF_REPO)\n", alt)
		}
	}
	args = append(args, "./cmd/vworker")
	cmd := exec.Command("go", args...)
	cmd.Dir = filepath.Join(VerifDir, "harness")
	cmd.Env = append(os.Environ(), "GOFLAGS=-mod=mod", "GOPROXY=off", "GOSUMDB=off", "GOTOOLCHAIN=local")
	if b, err := cmd.CombinedOutput(); err != nil {
		fmt.Printf("INCONCLUSIVE property=%s: building the worker from /repo failed: %v\n%s\n", c.ID, err, b)
		c.Cleanup()
		os.Exit(2)
	}
	c.workerBin[race] = out
	return out
}

func (c *Ctx) Pool(race bool, workers int) *proc.Pool {
	if workers <= 0 {
		workers = runtime.NumCPU()
		if workers > 16 {
			workers = 16
		}
	}
	opt := proc.Options{Bin: c.BuildWorker(race), Scratch: c.Scratch, Workers: workers, NoMemLimit: race}
	if race {
		opt.Env = []string{"GORACE=halt_on_error=0 log_path=" + filepath.Join(c.Scratch, "race.log")}
		opt.Watchdog = 600 * time.Second
		opt.Isolated = 900 * time.Second
	}
	p := proc.New(opt)
	c.mu.Lock()
	c.pools = append(c.pools, p)
	c.mu.Unlock()
	return p
}

// RunJobs is a convenience: generate jobs in a goroutine, handle results concurrently.
func (c *Ctx) RunJobs(p *proc.Pool, gen func(emit func(*proto.Job)), handle func(*proto.Job, *proto.Result)) {
	ch := make(chan *proto.Job, 256)
	go func() {
		defer close(ch)
		gen(func(j *proto.Job) { ch <- j })
	}()
	if err := p.Run(ch, handle); err != nil {
		c.Inconclusive("worker pool: " + err.Error())
	}
}

// Count registers one evaluated case; key identifies the case for distinctness, nontrivial per the check's rule.
func (c *Ctx) Count(key string, nontrivial bool) {
	h := sha256.Sum256([]byte(key))
	var k [8]byte
	copy(k[:], h[:8])
	c.mu.Lock()
	c.evals++
	if nontrivial {
		c.distinct[k] = struct{}{}
	}
	c.mu.Unlock()
}

func (c *Ctx) CountN(n int) {
	c.mu.Lock()
	c.evals += int64(n)
	c.mu.Unlock()
}

func (c *Ctx) Rule(s string)        { c.rule = s }
func (c *Ctx) Assume(s ...string)   { c.assume = append(c.assume, s...) }
func (c *Ctx) SetExhaustive(b bool) { c.exhaustive = b }

func (c *Ctx) Sample(s interface{}) {
	c.mu.Lock()
	if len(c.samples) < 5 {
		c.samples = append(c.samples, s)
	}
	c.mu.Unlock()
}

func (c *Ctx) NeedSample() bool {
	c.mu.Lock()
	defer c.mu.Unlock()
	return len(c.samples) < 5
}

func (c *Ctx) Extra(k string, v interface{}) {
	c.mu.Lock()
	c.extra[k] = v
	c.mu.Unlock()
}

// Inc increments a named counter in a histogram kept in extras.
func (c *Ctx) Inc(hist, key string, n int) {
	c.mu.Lock()
	m, _ := c.extra[hist].(map[string]int)
	if m == nil {
		m = map[string]int{}
		c.extra[hist] = m
	}
	m[key] += n
	c.mu.Unlock()
}

func (c *Ctx) Hist(hist string) map[string]int {
	c.mu.Lock()
	defer c.mu.Unlock()
	m, _ := c.extra[hist].(map[string]int)
	return m
}

func (c *Ctx) Inconclusive(why string) {
	c.mu.Lock()
	if len(c.inconcl) < 20 {
		c.inconcl = append(c.inconcl, why)
	}
	c.mu.Unlock()
}

type Replay struct {
	Property string        `json:"property"`
	Sig      string        `json:"sig"`
	What     string        `json:"what"`
	Seed     int64         `json:"seed"`
	Tier     string        `json:"tier"`
	Jobs     []*proto.Job  `json:"jobs,omitempty"`
	Observed interface{}   `json:"observed,omitempty"`
	Expected interface{}   `json:"expected,omitempty"`
	Results  []interface{} `json:"results,omitempty"`
}

// Violate reports a violation with a signature. Known findings are printed once and do not fail the run.
func (c *Ctx) Violate(sig, what string, rp *Replay) {
	c.mu.Lock()
	defer c.mu.Unlock()
	for _, f := range c.findings {
		if f.sig == sig {
			if c.knownHit[sig] == 0 {
				fmt.Printf("KNOWN-FINDING: property=%s %s (sig=%s)\n", c.ID, f.what, sig)
			}
			c.knownHit[sig]++
			return
		}
	}
	c.violations[sig]++
	if c.violations[sig] > 3 || len(c.violations) > 25 {
		return // enough replays for this signature
	}
	if c.violations[sig] == 1 {
		c.violOrder = append(c.violOrder, sig)
	}
	c.replayN++
	dir := filepath.Join(outDir(), "replays", c.ID)
	_ = os.MkdirAll(dir, 0o755)
	path := filepath.Join(dir, fmt.Sprintf("%s-seed%d-%03d.json", c.Tier, c.Seed, c.replayN))
	if rp == nil {
		rp = &Replay{}
	}
	rp.Property, rp.Sig, rp.What, rp.Seed, rp.Tier = c.ID, sig, what, c.Seed, c.Tier
	b, _ := json.MarshalIndent(rp, "", " ")
	_ = os.WriteFile(path, b, 0o644)
	fmt.Printf("VIOLATION property=%s replay=%s sig=%s %s\n", c.ID, path, sig, oneLine(what, 300))
}

func oneLine(s string, n int) string {
	s = strings.ReplaceAll(s, "\n", "\\n")
	if len(s) > n {
		s = s[:n] + "…"
	}
	return s
}

func (c *Ctx) Violations() int {
	c.mu.Lock()
	defer c.mu.Unlock()
	n := 0
	for _, v := range c.violations {
		n += v
	}
	return n
}

func (c *Ctx) Cleanup() {
	if c.Scratch != "" {
		_ = os.RemoveAll(c.Scratch)
	}
}

// Finish writes the evidence file and exits with the verdict.
func (c *Ctx) Finish() {
	c.mu.Lock()
	nviol := 0
	for _, v := range c.violations {
		nviol += v
	}
	cov := map[string]interface{}{
		"evaluations":         c.evals,
		"distinct_nontrivial": len(c.distinct),
		"rule":                c.rule,
		"samples":             c.samples,
	}
	if c.exhaustive {
		cov["exhaustive"] = true
	}
	for k, v := range c.extra {
		cov[k] = v
	}
	if len(c.knownHit) > 0 {
		cov["known_findings_hit"] = c.knownHit
	}
	if len(c.violations) > 0 {
		cov["violation_signatures"] = c.violations
	}
	var ps proc.Stats
	for _, p := range c.pools {
		ps.Jobs += p.Stats.Jobs
		ps.WorkerDeaths += p.Stats.WorkerDeaths
		ps.WatchdogFired += p.Stats.WatchdogFired
		ps.Inconclusive += p.Stats.Inconclusive
		ps.RerunAlone += p.Stats.RerunAlone
		ps.Skipped += p.Stats.Skipped
		ps.MemCapFired += p.Stats.MemCapFired
		if p.Stats.MaxRSS > ps.MaxRSS {
			ps.MaxRSS = p.Stats.MaxRSS
		}
		ps.Firings = append(ps.Firings, p.Stats.Firings...)
	}
	if ps.Skipped > 0 {
		c.inconcl = append(c.inconcl, fmt.Sprintf("the watchdog fired too often: %d job(s) were skipped", ps.Skipped))
	}
	cov["worker_jobs"] = ps.Jobs
	cov["worker_deaths"] = ps.WorkerDeaths
	cov["watchdog_fired"] = ps.WatchdogFired
	cov["largest_worker_resident_set_mib"] = ps.MaxRSS >> 20
	cov["jobs_that_outgrew_their_share_of_the_memory"] = ps.MemCapFired
	if ps.Inconclusive > 0 {
		c.inconcl = append(c.inconcl, fmt.Sprintf("%d case(s) were given up in the pool and got no verdict from the run in a fresh process either (%s)", ps.Inconclusive, strings.Join(ps.Firings, "; ")))
	}
	if ps.RerunAlone > 0 {
		cov["jobs_given_up_in_the_pool_and_judged_by_a_run_in_a_fresh_process"] = map[string]interface{}{"count": ps.RerunAlone, "first": ps.Firings}
	}
	if len(c.inconcl) > 0 {
		cov["inconclusive"] = c.inconcl
	}
	if len(c.samples) == 0 {
		cov["samples"] = []interface{}{"(no case was produced)"}
	}
	if c.assume == nil {
		c.assume = []string{"the Go runtime and jsight-schema-core v0.2.0 behave as built; hooks only observe"}
	}
	ev := map[string]interface{}{
		"property_id": c.ID,
		"tier":        c.Tier,
		"seed":        c.Seed,
		"level":       c.Level,
		"coverage":    cov,
		"assumptions": c.assume,
		"wall_s":      time.Since(c.Start).Seconds(),
		"violations":  nviol,
	}
	inconcl := append([]string(nil), c.inconcl...)
	evals, distinct := c.evals, len(c.distinct)
	c.mu.Unlock()

	_ = os.MkdirAll(filepath.Join(outDir(), "evidence"), 0o755)
	b, _ := json.MarshalIndent(ev, "", " ")
	_ = os.WriteFile(filepath.Join(outDir(), "evidence", c.ID+".json"), append(b, '\n'), 0o644)
	c.Cleanup()

	keys := make([]string, 0, len(c.extra))
	for k := range c.extra {
		keys = append(keys, k)
	}
	sort.Strings(keys)
	fmt.Printf("property=%s tier=%s seed=%d evaluations=%d distinct_nontrivial=%d violations=%d wall=%.1fs\n",
		c.ID, c.Tier, c.Seed, evals, distinct, nviol, time.Since(c.Start).Seconds())
	for _, k := range keys {
		v, _ := json.Marshal(c.extra[k])
		fmt.Printf("  observed %s = %s\n", k, oneLine(string(v), 400))
	}
	switch {
	case nviol > 0:
		os.Exit(1)
	case len(inconcl) > 0 && !onlyWatchdogNotes(inconcl):
		for _, s := range inconcl {
			fmt.Printf("INCONCLUSIVE property=%s %s\n", c.ID, s)
		}
		os.Exit(2)
	default:
		for _, s := range inconcl {
			fmt.Printf("note: %s\n", s)
		}
		fmt.Printf("HELD property=%s on everything explored\n", c.ID)
		os.Exit(0)
	}
}

// a case that was merely slow under load (finished when re-run alone) does not make the whole run inconclusive
func onlyWatchdogNotes(ss []string) bool {
	for _, s := range ss {
		if !strings.Contains(s, "exceeded the watchdog but finished") {
			return false
		}
	}
	return true
}
