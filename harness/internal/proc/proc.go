// Package proc runs worker processes: one job in flight per worker, so a dead worker is attributed to that job.
package proc

import (
	"bufio"
	"encoding/json"
	"fmt"
	"io"
	"os"
	"os/exec"
	"path/filepath"
	"regexp"
	"strings"
	"sync"
	"sync/atomic"
	"syscall"
	"time"

	"verifharness/internal/proto"
)

type Options struct {
	Bin        string        // worker binary
	Scratch    string        // scratch base directory (per invocation)
	Workers    int           // number of worker processes
	Env        []string      // extra environment
	NoMemLimit bool          // race-detector binaries cannot run under RLIMIT_AS
	Watchdog   time.Duration // per-job wall-clock watchdog (generous; firing is never a verdict by itself)
	Isolated   time.Duration // budget of the isolated re-run after the watchdog fired
	MaxFirings int           // after this many watchdog firings the remaining jobs are skipped (the run is then inconclusive)
}

type Stats struct {
	Jobs          int64
	WorkerDeaths  int64
	WatchdogFired int64
	Inconclusive  int64 // watchdog fired but the isolated re-run finished
	Restarts      int64
	Skipped       int64 // jobs not run because the watchdog budget was used up
}

type Pool struct {
	opt   Options
	Stats Stats
	seq   int64
}

func New(opt Options) *Pool {
	if opt.Workers <= 0 {
		opt.Workers = 16
	}
	if opt.Watchdog == 0 {
		opt.Watchdog = 40 * time.Second
	}
	if opt.Isolated == 0 {
		opt.Isolated = 120 * time.Second
	}
	if opt.MaxFirings == 0 {
		opt.MaxFirings = 6
	}
	return &Pool{opt: opt}
}

type worker struct {
	cmd    *exec.Cmd
	in     io.WriteCloser
	out    *bufio.Reader
	errLog string
	dir    string
}

func (p *Pool) start() (*worker, error) {
	n := atomic.AddInt64(&p.seq, 1)
	dir := filepath.Join(p.opt.Scratch, fmt.Sprintf("w%d", n))
	if err := os.MkdirAll(dir, 0o755); err != nil {
		return nil, err
	}
	var cmd *exec.Cmd
	if p.opt.NoMemLimit {
		cmd = exec.Command(p.opt.Bin, "-dir", dir)
	} else {
		cmd = exec.Command("/bin/sh", "-c", `ulimit -v 8388608; exec "$0" "$@"`, p.opt.Bin, "-dir", dir)
	}
	cmd.Env = append(os.Environ(), "GOTRACEBACK=all")
	cmd.Env = append(cmd.Env, p.opt.Env...)
	w := &worker{cmd: cmd, dir: dir, errLog: filepath.Join(dir, "stderr.log")}
	ef, err := os.Create(w.errLog)
	if err != nil {
		return nil, err
	}
	cmd.Stderr = ef
	in, err := cmd.StdinPipe()
	if err != nil {
		return nil, err
	}
	out, err := cmd.StdoutPipe()
	if err != nil {
		return nil, err
	}
	if err := cmd.Start(); err != nil {
		return nil, err
	}
	ef.Close()
	w.in, w.out = in, bufio.NewReaderSize(out, 1<<20)
	atomic.AddInt64(&p.Stats.Restarts, 1)
	return w, nil
}

func (w *worker) kill() {
	if w == nil || w.cmd == nil {
		return
	}
	_ = w.in.Close()
	_ = w.cmd.Process.Kill()
	_ = w.cmd.Wait()
	_ = os.RemoveAll(w.dir)
}

type reply struct {
	res *proto.Result
	err error
}

// exec1 sends one job and waits for the result or the timeout.
func (w *worker) exec1(job *proto.Job, timeout time.Duration) (*proto.Result, error, bool) {
	data, err := json.Marshal(job)
	if err != nil {
		return nil, err, false
	}
	data = append(data, '\n')
	ch := make(chan reply, 1)
	go func() {
		if _, err := w.in.Write(data); err != nil {
			ch <- reply{nil, err}
			return
		}
		line, err := w.out.ReadBytes('\n')
		if err != nil {
			ch <- reply{nil, err}
			return
		}
		var r proto.Result
		if err := json.Unmarshal(line, &r); err != nil {
			ch <- reply{nil, fmt.Errorf("bad result line: %v", err)}
			return
		}
		ch <- reply{&r, nil}
	}()
	t := time.NewTimer(timeout)
	defer t.Stop()
	t0 := time.Now()
	select {
	case r := <-ch:
		if d := time.Since(t0); slowLog && d > 5*time.Second {
			fmt.Fprintf(os.Stderr, "SLOW job %s took %.1fs (%d bytes of job)\n", job.ID, d.Seconds(), len(data))
		}
		return r.res, r.err, false
	case <-t.C:
		return nil, nil, true
	}
}

// slowLog (development aid, VERIF_SLOW=1): report jobs that take longer than 5 s on stderr.
var slowLog = os.Getenv("VERIF_SLOW") == "1"

var reFrame = regexp.MustCompile(`(?m)^(github\.com/jsightapi/[^\s(]+)\(`)

func classifyDeath(stderr string, waitErr error) *proto.FatalInfo {
	fi := &proto.FatalInfo{Kind: "exit"}
	switch {
	case strings.Contains(stderr, "stack overflow") || strings.Contains(stderr, "goroutine stack exceeds"):
		fi.Kind = "stack-overflow"
	case strings.Contains(stderr, "WARNING: DATA RACE") && strings.Contains(stderr, "fatal error"):
		fi.Kind = "runtime-throw"
	case strings.Contains(stderr, "fatal error: concurrent map"):
		fi.Kind = "concurrent-map"
	case strings.Contains(stderr, "out of memory") || strings.Contains(stderr, "cannot allocate memory"):
		fi.Kind = "out-of-memory"
	case strings.Contains(stderr, "fatal error:"):
		fi.Kind = "runtime-throw"
	case strings.Contains(stderr, "panic:"):
		fi.Kind = "unrecovered-panic"
	case waitErr != nil && strings.Contains(waitErr.Error(), "killed"):
		fi.Kind = "killed"
	}
	if m := reFrame.FindStringSubmatch(stderr); m != nil {
		f := strings.TrimPrefix(m[1], "github.com/jsightapi/")
		fi.Func = strings.TrimPrefix(f, "jsight-api-core/")
	}
	if len(stderr) > 3000 {
		stderr = stderr[:3000] + "\n…"
	}
	fi.Stderr = stderr
	return fi
}

func (w *worker) reap(sig syscall.Signal) (string, error) {
	if sig != 0 {
		_ = w.cmd.Process.Signal(sig)
		done := make(chan struct{})
		go func() { _ = w.cmd.Wait(); close(done) }()
		select {
		case <-done:
		case <-time.After(10 * time.Second):
			_ = w.cmd.Process.Kill()
			<-done
		}
	} else {
		_ = w.in.Close()
		done := make(chan error, 1)
		go func() { done <- w.cmd.Wait() }()
		select {
		case err := <-done:
			b, _ := os.ReadFile(w.errLog)
			_ = os.RemoveAll(w.dir)
			return string(b), err
		case <-time.After(20 * time.Second):
			_ = w.cmd.Process.Kill()
			<-done
		}
	}
	b, _ := os.ReadFile(w.errLog)
	_ = os.RemoveAll(w.dir)
	return string(b), nil
}

// Run feeds jobs from the channel to the workers and calls handle (concurrently, from up to Workers goroutines).
func (p *Pool) Run(jobs <-chan *proto.Job, handle func(*proto.Job, *proto.Result)) error {
	var wg sync.WaitGroup
	errCh := make(chan error, p.opt.Workers)
	for i := 0; i < p.opt.Workers; i++ {
		wg.Add(1)
		go func() {
			defer wg.Done()
			var w *worker
			defer func() { w.kill() }()
			for job := range jobs {
				if atomic.LoadInt64(&p.Stats.WatchdogFired) >= int64(p.opt.MaxFirings) {
					atomic.AddInt64(&p.Stats.Skipped, 1)
					continue
				}
				if job.Fresh && w != nil {
					w.kill()
					w = nil
				}
				if w == nil {
					var err error
					if w, err = p.start(); err != nil {
						errCh <- err
						for range jobs { // drain
						}
						return
					}
				}
				atomic.AddInt64(&p.Stats.Jobs, 1)
				res, err, timedOut := w.exec1(job, p.opt.Watchdog)
				switch {
				case timedOut:
					atomic.AddInt64(&p.Stats.WatchdogFired, 1)
					dump, _ := w.reap(syscall.SIGQUIT)
					w = nil
					blockedIn := blockedLibraryFrame(dump)
					// isolated re-run with a generous budget
					iw, serr := p.start()
					if serr != nil {
						errCh <- serr
						return
					}
					r2, err2, to2 := iw.exec1(job, p.opt.Isolated)
					if to2 {
						d2, _ := iw.reap(syscall.SIGQUIT)
						res = &proto.Result{ID: job.ID, Fatal: &proto.FatalInfo{Kind: "hang", Stderr: truncS(d2, 3000)}}
						if m := reFrame.FindStringSubmatch(d2); m != nil {
							res.Fatal.Func = strings.TrimPrefix(strings.TrimPrefix(m[1], "github.com/jsightapi/"), "jsight-api-core/")
						}
					} else if err2 != nil {
						st, werr := iw.reap(0)
						atomic.AddInt64(&p.Stats.WorkerDeaths, 1)
						res = &proto.Result{ID: job.ID, Fatal: classifyDeath(st, werr)}
					} else if blockedIn != "" {
						// Alone the job returns at once, inside the long-lived worker it sat blocked (not running) in the
						// library for the whole watchdog period: the hang depends on what the process did before.
						iw.kill()
						res = &proto.Result{ID: job.ID, Fatal: &proto.FatalInfo{Kind: "blocked-after-earlier-calls", Func: blockedIn, Stderr: truncS(dump, 3000)}}
					} else {
						atomic.AddInt64(&p.Stats.Inconclusive, 1)
						res = r2
						w = iw
					}
				case err != nil:
					st, werr := w.reap(0)
					w = nil
					atomic.AddInt64(&p.Stats.WorkerDeaths, 1)
					res = &proto.Result{ID: job.ID, Fatal: classifyDeath(st, werr)}
				}
				handle(job, res)
			}
		}()
	}
	wg.Wait()
	select {
	case err := <-errCh:
		return err
	default:
		return nil
	}
}

func truncS(s string, n int) string {
	if len(s) > n {
		return s[:n] + "…"
	}
	return s
}

var reGoroutine = regexp.MustCompile(`(?m)^goroutine \d+ \[([^\]]+)\]:\n((?:.+\n)+)`)

// blockedLibraryFrame looks at a SIGQUIT dump: if the goroutine that runs the job (it has a vworker main.* frame) is
// blocked - not running or runnable - with a frame of the library on its stack, the innermost library frame is returned.
func blockedLibraryFrame(dump string) string {
	for _, m := range reGoroutine.FindAllStringSubmatch(dump, -1) {
		state, stack := m[1], m[2]
		if !strings.Contains(stack, "main.runJob") && !strings.Contains(stack, "main.(*built).call") {
			continue
		}
		if strings.HasPrefix(state, "running") || strings.HasPrefix(state, "runnable") || strings.HasPrefix(state, "syscall") {
			return ""
		}
		if f := reFrame.FindStringSubmatch(stack); f != nil {
			fn := strings.TrimPrefix(f[1], "github.com/jsightapi/")
			return strings.TrimPrefix(fn, "jsight-api-core/") + " [" + strings.Split(state, ",")[0] + "]"
		}
	}
	return ""
}
