// Package proc runs worker processes: one job in flight per worker, so a dead worker is attributed to that job.
package proc

import (
	"bufio"
	"bytes"
	"encoding/json"
	"fmt"
	"io"
	"os"
	"os/exec"
	"path/filepath"
	"regexp"
	"strconv"
	"strings"
	"sync"
	"sync/atomic"
	"syscall"
	"time"

	"verifharness/internal/proto"
)

type Options struct {
	Bin        string        // worker binary
	Scratch    string        // scratch base directory (per invocation)
	Workers    int           // number of worker processes
	Env        []string      // extra environment
	NoMemLimit bool          // race-detector binaries cannot run under RLIMIT_AS
	Watchdog   time.Duration // per-job budget of CPU time of the worker process (not wall-clock time: a loaded machine must not change a verdict)
	Isolated   time.Duration // CPU budget of the isolated re-run after the watchdog fired
	IdleWall   time.Duration // a job whose process makes no CPU progress and has no runnable thread for this long is blocked
	HardCap    time.Duration // wall-clock cap per job; reaching it is inconclusive, never a verdict
	MaxFirings int           // after this many watchdog firings the remaining jobs are skipped (the run is then inconclusive)
}

type Stats struct {
	Jobs          int64
	WorkerDeaths  int64
	WatchdogFired int64
	Inconclusive  int64 // given up in the pool, no verdict from the isolated re-run either (or a state-dependent runaway)
	RerunAlone    int64 // given up in the pool, judged by the isolated re-run that finished
	Restarts      int64
	Skipped       int64 // jobs not run because the watchdog budget was used up
	MaxRSS        int64 // largest resident set of a worker seen while a job was in flight (bytes)
	MemCapFired   int64 // jobs given up in the pool because the worker grew beyond its share of the machine's memory

	mu      sync.Mutex
	Firings []string // job id and reason of every watchdog firing (for the inconclusive message)
}

func (s *Stats) noteFiring(what string) {
	s.mu.Lock()
	if len(s.Firings) < 12 {
		s.Firings = append(s.Firings, what)
	}
	s.mu.Unlock()
}

type Pool struct {
	opt   Options
	Stats Stats
	seq   int64
}

// Memory. Every worker runs under RLIMIT_AS of 8 GiB (a backstop; not for race-detector binaries). Sixteen workers that all
// grow to that size need more than the machine has, and the kernel's OOM killer then picks processes by its own rules - the
// driver among them. So the pool watches the resident set of every worker (10 times a second) and gives a job up when its
// worker has grown beyond its share: 60 % of the machine's memory divided by the number of workers. The job is then run alone,
// one such job at a time, with room up to aloneRSS; only if it does not fit there either is it reported (out-of-memory).
var (
	memTotal = func() int64 {
		b, _ := os.ReadFile("/proc/meminfo")
		for _, l := range strings.Split(string(b), "\n") {
			if strings.HasPrefix(l, "MemTotal:") {
				f := strings.Fields(l)
				if len(f) >= 2 {
					if kb, err := strconv.ParseInt(f[1], 10, 64); err == nil {
						return kb << 10
					}
				}
			}
		}
		return 64 << 30
	}()
	aloneRSS = func() int64 {
		v := memTotal / 5
		if v > 8<<30 {
			v = 8 << 30
		}
		return v
	}()
	aloneMu  sync.Mutex
	pageSize = int64(os.Getpagesize())
)

func (p *Pool) shareRSS() int64 {
	v := memTotal * 6 / 10 / int64(p.opt.Workers)
	if v > 8<<30 {
		v = 8 << 30
	}
	if v < 1<<30 {
		v = 1 << 30
	}
	return v
}

func procRSS(pid int) int64 {
	b, err := os.ReadFile(fmt.Sprintf("/proc/%d/statm", pid))
	if err != nil {
		return 0
	}
	f := strings.Fields(string(b))
	if len(f) < 2 {
		return 0
	}
	n, _ := strconv.ParseInt(f[1], 10, 64)
	return n * pageSize
}

func init() {
	// best effort: the driver should be the last process the OOM killer looks at (lowering needs a capability)
	_ = os.WriteFile("/proc/self/oom_score_adj", []byte("-500"), 0o644)
}

func New(opt Options) *Pool {
	if opt.Workers <= 0 {
		opt.Workers = 16
	}
	if opt.Watchdog == 0 {
		opt.Watchdog = 40 * time.Second
	}
	if opt.Isolated == 0 {
		opt.Isolated = 120 * time.Second
	}
	if opt.MaxFirings == 0 {
		opt.MaxFirings = 6
	}
	if opt.IdleWall == 0 {
		opt.IdleWall = 20 * time.Second
	}
	if opt.HardCap == 0 {
		opt.HardCap = 30 * time.Minute
	}
	return &Pool{opt: opt}
}

type worker struct {
	lastJobCPU time.Duration // CPU time the last finished job took
	cmd        *exec.Cmd
	in         io.WriteCloser
	out        *bufio.Reader
	errLog     string
	dir        string
}

func (p *Pool) start() (*worker, error) {
	n := atomic.AddInt64(&p.seq, 1)
	dir := filepath.Join(p.opt.Scratch, fmt.Sprintf("w%d", n))
	if err := os.MkdirAll(dir, 0o755); err != nil {
		return nil, err
	}
	var cmd *exec.Cmd
	if p.opt.NoMemLimit {
		cmd = exec.Command(p.opt.Bin, "-dir", dir)
	} else {
		cmd = exec.Command("/bin/sh", "-c", `ulimit -v 8388608; exec "$0" "$@"`, p.opt.Bin, "-dir", dir)
	}
	cmd.Env = append(os.Environ(), "GOTRACEBACK=all")
	cmd.Env = append(cmd.Env, p.opt.Env...)
	w := &worker{cmd: cmd, dir: dir, errLog: filepath.Join(dir, "stderr.log")}
	ef, err := os.Create(w.errLog)
	if err != nil {
		return nil, err
	}
	cmd.Stderr = ef
	in, err := cmd.StdinPipe()
	if err != nil {
		return nil, err
	}
	out, err := cmd.StdoutPipe()
	if err != nil {
		return nil, err
	}
	if err := cmd.Start(); err != nil {
		return nil, err
	}
	ef.Close()
	_ = os.WriteFile(fmt.Sprintf("/proc/%d/oom_score_adj", cmd.Process.Pid), []byte("800"), 0o644)
	w.in, w.out = in, bufio.NewReaderSize(out, 1<<20)
	atomic.AddInt64(&p.Stats.Restarts, 1)
	return w, nil
}

func (w *worker) kill() {
	if w == nil || w.cmd == nil {
		return
	}
	_ = w.in.Close()
	_ = w.cmd.Process.Kill()
	_ = w.cmd.Wait()
	_ = os.RemoveAll(w.dir)
}

type reply struct {
	res *proto.Result
	err error
}

// procCPU returns the CPU time (user + system, all threads) the process has used so far, and whether any of its threads is
// runnable or in uninterruptible sleep right now. deep: include the descendants of the process (costly: scans /proc).
func procCPU(pid int, deep bool) (cpu time.Duration, busy bool, ok bool) {
	one := func(pid int) (time.Duration, bool, bool) {
		b, err := os.ReadFile(fmt.Sprintf("/proc/%d/stat", pid))
		if err != nil {
			return 0, false, false
		}
		i := bytes.LastIndexByte(b, ')')
		if i < 0 {
			return 0, false, false
		}
		f := strings.Fields(string(b[i+1:]))
		if len(f) < 13 {
			return 0, false, false
		}
		ut, e1 := strconv.ParseInt(f[11], 10, 64)
		st, e2 := strconv.ParseInt(f[12], 10, 64)
		if e1 != nil || e2 != nil {
			return 0, false, false
		}
		c := time.Duration(ut+st) * (time.Second / 100) // USER_HZ is 100 on Linux
		bz := false
		tasks, _ := filepath.Glob(fmt.Sprintf("/proc/%d/task/*/stat", pid))
		for _, t := range tasks {
			tb, err := os.ReadFile(t)
			if err != nil {
				continue
			}
			if k := bytes.LastIndexByte(tb, ')'); k >= 0 && k+2 < len(tb) {
				if ch := tb[k+2]; ch == 'R' || ch == 'D' {
					bz = true
				}
			}
		}
		return c, bz, true
	}
	cpu, busy, ok = one(pid)
	if !ok {
		return
	}
	if !deep {
		return cpu, busy, true
	}
	// descendants (a worker started through a wrapper such as strace): found by their parent pid
	parent := map[int]int{}
	stats, _ := filepath.Glob("/proc/[0-9]*/stat")
	for _, f := range stats {
		sb, err := os.ReadFile(f)
		if err != nil {
			continue
		}
		k := bytes.LastIndexByte(sb, ')')
		if k < 0 {
			continue
		}
		fs := strings.Fields(string(sb[k+1:]))
		if len(fs) < 2 {
			continue
		}
		id, e1 := strconv.Atoi(strings.TrimSuffix(strings.TrimPrefix(f, "/proc/"), "/stat"))
		pp, e2 := strconv.Atoi(fs[1])
		if e1 == nil && e2 == nil {
			parent[id] = pp
		}
	}
	for id := range parent {
		for a, hops := parent[id], 0; a > 1 && hops < 16; a, hops = parent[a], hops+1 {
			if a == pid {
				if cc, bz, ok := one(id); ok {
					cpu += cc
					busy = busy || bz
				}
				break
			}
		}
	}
	return cpu, busy, true
}

// exec1 sends one job and waits for the result. The job is given up (third result true) when the worker process
//   - has used more CPU time than budget since the job began (a loop, or work far beyond what any case needs), or
//   - has made no CPU progress and had no runnable thread for p.opt.IdleWall of wall-clock time (blocked: deadlock, sleep), or
//   - reaches the wall-clock cap (why = "wall-cap"; inconclusive by itself).
//
// CPU time and thread states do not depend on how busy the machine is; wall-clock time alone never decides.
func (w *worker) exec1(job *proto.Job, budget, idleWall, hardCap time.Duration, rssCap int64, maxRSS *int64) (res *proto.Result, err error, timedOut bool, why string) {
	data, err := json.Marshal(job)
	if err != nil {
		return nil, err, false, ""
	}
	data = append(data, '\n')
	ch := make(chan reply, 1)
	go func() {
		if _, err := w.in.Write(data); err != nil {
			ch <- reply{nil, err}
			return
		}
		line, err := w.out.ReadBytes('\n')
		if err != nil {
			ch <- reply{nil, err}
			return
		}
		var r proto.Result
		if err := json.Unmarshal(line, &r); err != nil {
			ch <- reply{nil, fmt.Errorf("bad result line: %v", err)}
			return
		}
		ch <- reply{&r, nil}
	}()
	pid := w.cmd.Process.Pid
	t0 := time.Now()
	cpu0, _, _ := procCPU(pid, false)
	lastCPU, lastProgress := cpu0, t0
	tick := time.NewTicker(500 * time.Millisecond)
	defer tick.Stop()
	memTick := time.NewTicker(100 * time.Millisecond)
	defer memTick.Stop()
	for {
		select {
		case <-memTick.C:
			rss := procRSS(pid)
			for {
				old := atomic.LoadInt64(maxRSS)
				if rss <= old || atomic.CompareAndSwapInt64(maxRSS, old, rss) {
					break
				}
			}
			if rssCap > 0 && rss > rssCap {
				return nil, nil, true, "memory-share"
			}
		case r := <-ch:
			if d := time.Since(t0); slowLog > 0 && d > slowLog {
				c1, _, _ := procCPU(pid, false)
				fmt.Fprintf(os.Stderr, "SLOW job %s took %.1fs wall, %.1fs cpu (%d bytes of job)\n", job.ID, d.Seconds(), (c1 - cpu0).Seconds(), len(data))
			}
			if c1, _, ok := procCPU(pid, false); ok {
				w.lastJobCPU = c1 - cpu0
			}
			return r.res, r.err, false, ""
		case now := <-tick.C:
			cpu, busy, ok := procCPU(pid, false)
			if !ok {
				continue // the process is gone: the reader goroutine reports the broken pipe
			}
			if cpu-lastCPU >= 50*time.Millisecond || busy {
				lastCPU, lastProgress = cpu, now
			} else if now.Sub(lastProgress) >= idleWall/2 {
				// looks idle: before giving up, look at the children too (worker behind a wrapper)
				if _, b2, ok2 := procCPU(pid, true); ok2 && b2 {
					lastProgress = now
				}
			}
			switch {
			case cpu-cpu0 >= budget:
				return nil, nil, true, "cpu-budget"
			case now.Sub(lastProgress) >= idleWall:
				return nil, nil, true, "blocked"
			case now.Sub(t0) >= hardCap:
				return nil, nil, true, "wall-cap"
			}
		}
	}
}

// slowLog (development aid, VERIF_SLOW=<seconds>): report jobs that take longer than that on stderr.
var slowLog = func() time.Duration {
	if v, err := strconv.ParseFloat(os.Getenv("VERIF_SLOW"), 64); err == nil && v > 0 {
		return time.Duration(v * float64(time.Second))
	}
	return 0
}()

var reFrame = regexp.MustCompile(`(?m)^(github\.com/jsightapi/[^\s(]+)\(`)

func classifyDeath(stderr string, waitErr error) *proto.FatalInfo {
	fi := &proto.FatalInfo{Kind: "exit"}
	switch {
	case strings.Contains(stderr, "stack overflow") || strings.Contains(stderr, "goroutine stack exceeds"):
		fi.Kind = "stack-overflow"
	case strings.Contains(stderr, "WARNING: DATA RACE") && strings.Contains(stderr, "fatal error"):
		fi.Kind = "runtime-throw"
	case strings.Contains(stderr, "fatal error: concurrent map"):
		fi.Kind = "concurrent-map"
	case strings.Contains(stderr, "out of memory") || strings.Contains(stderr, "cannot allocate memory"):
		fi.Kind = "out-of-memory"
	case strings.Contains(stderr, "fatal error:"):
		fi.Kind = "runtime-throw"
	case strings.Contains(stderr, "panic:"):
		fi.Kind = "unrecovered-panic"
	case waitErr != nil && strings.Contains(waitErr.Error(), "killed"):
		fi.Kind = "killed"
	}
	if m := reFrame.FindStringSubmatch(stderr); m != nil {
		f := strings.TrimPrefix(m[1], "github.com/jsightapi/")
		fi.Func = strings.TrimPrefix(f, "jsight-api-core/")
	}
	if fi.Kind == "stack-overflow" {
		// the function that recurses, not the leaf it happened to be in: the most frequent library frame of the dump
		count, best := map[string]int{}, ""
		for _, m := range reFrame.FindAllStringSubmatch(stderr, -1) {
			count[m[1]]++
			if best == "" || count[m[1]] > count[best] {
				best = m[1]
			}
		}
		if best != "" {
			fi.Func = strings.TrimPrefix(strings.TrimPrefix(best, "github.com/jsightapi/"), "jsight-api-core/")
		}
	}
	switch {
	case strings.Contains(stderr, "main.(*built).call"):
		fi.Stage = "call"
	case strings.Contains(stderr, "main.build("):
		fi.Stage = "build"
	}
	if len(stderr) > 3000 {
		stderr = stderr[:3000] + "\n…"
	}
	fi.Stderr = stderr
	return fi
}

func (w *worker) reap(sig syscall.Signal) (string, error) {
	if sig != 0 {
		_ = w.cmd.Process.Signal(sig)
		done := make(chan struct{})
		go func() { _ = w.cmd.Wait(); close(done) }()
		select {
		case <-done:
		case <-time.After(10 * time.Second):
			_ = w.cmd.Process.Kill()
			<-done
		}
	} else {
		_ = w.in.Close()
		done := make(chan error, 1)
		go func() { done <- w.cmd.Wait() }()
		select {
		case err := <-done:
			b, _ := os.ReadFile(w.errLog)
			_ = os.RemoveAll(w.dir)
			return string(b), err
		case <-time.After(20 * time.Second):
			_ = w.cmd.Process.Kill()
			<-done
		}
	}
	b, _ := os.ReadFile(w.errLog)
	_ = os.RemoveAll(w.dir)
	return string(b), nil
}

// Run feeds jobs from the channel to the workers and calls handle (concurrently, from up to Workers goroutines).
func (p *Pool) Run(jobs <-chan *proto.Job, handle func(*proto.Job, *proto.Result)) error {
	var wg sync.WaitGroup
	errCh := make(chan error, p.opt.Workers)
	for i := 0; i < p.opt.Workers; i++ {
		wg.Add(1)
		go func() {
			defer wg.Done()
			var w *worker
			defer func() { w.kill() }()
			for job := range jobs {
				if atomic.LoadInt64(&p.Stats.WatchdogFired) >= int64(p.opt.MaxFirings) {
					atomic.AddInt64(&p.Stats.Skipped, 1)
					continue
				}
				if job.Fresh && w != nil {
					w.kill()
					w = nil
				}
				if w == nil {
					var err error
					if w, err = p.start(); err != nil {
						errCh <- err
						for range jobs { // drain
						}
						return
					}
				}
				atomic.AddInt64(&p.Stats.Jobs, 1)
				res, err, timedOut, why := w.exec1(job, p.opt.Watchdog, p.opt.IdleWall, p.opt.HardCap, p.shareRSS(), &p.Stats.MaxRSS)
				switch {
				case timedOut && why == "memory-share":
					// the worker outgrew its share of the memory: the job is run alone, one such job at a time
					atomic.AddInt64(&p.Stats.MemCapFired, 1)
					_, _ = w.reap(syscall.SIGKILL)
					w = nil
					aloneMu.Lock()
					iw, serr := p.start()
					if serr != nil {
						aloneMu.Unlock()
						errCh <- serr
						return
					}
					r2, err2, to2, why2 := iw.exec1(job, p.opt.Isolated, p.opt.IdleWall, p.opt.HardCap, aloneRSS, &p.Stats.MaxRSS)
					switch {
					case to2 && why2 == "memory-share":
						_, _ = iw.reap(syscall.SIGKILL)
						atomic.AddInt64(&p.Stats.WorkerDeaths, 1)
						res = &proto.Result{ID: job.ID, Fatal: &proto.FatalInfo{Kind: "out-of-memory", Stderr: fmt.Sprintf("the worker grew beyond %d MiB while this job was in flight (alone in a fresh process)", aloneRSS>>20)}}
					case to2 && why2 == "wall-cap":
						iw.kill()
						atomic.AddInt64(&p.Stats.WatchdogFired, 1)
						atomic.AddInt64(&p.Stats.Inconclusive, 1)
						p.Stats.noteFiring(job.ID + ": memory-share, alone: wall-cap")
						res = &proto.Result{ID: job.ID, WorkerErr: "the job reached the wall-clock cap without exhausting its CPU budget (machine too busy?)"}
					case to2:
						atomic.AddInt64(&p.Stats.WatchdogFired, 1)
						d2, _ := iw.reap(syscall.SIGQUIT)
						res = &proto.Result{ID: job.ID, Fatal: &proto.FatalInfo{Kind: "hang", Stderr: "given up: " + why2 + "\n" + truncS(d2, 3000)}}
						if m := reFrame.FindStringSubmatch(d2); m != nil {
							res.Fatal.Func = strings.TrimPrefix(strings.TrimPrefix(m[1], "github.com/jsightapi/"), "jsight-api-core/")
						}
					case err2 != nil:
						st, werr := iw.reap(0)
						atomic.AddInt64(&p.Stats.WorkerDeaths, 1)
						res = &proto.Result{ID: job.ID, Fatal: classifyDeath(st, werr)}
					default:
						if atomic.AddInt64(&p.Stats.RerunAlone, 1) > 200 {
							atomic.AddInt64(&p.Stats.WatchdogFired, 1)
						}
						p.Stats.noteFiring(fmt.Sprintf("%s: beyond its share of the memory (%d MiB), finished alone in %.1f CPU-s", job.ID, p.shareRSS()>>20, iw.lastJobCPU.Seconds()))
						res = r2
						iw.kill()
					}
					aloneMu.Unlock()
				case timedOut:
					dump, _ := w.reap(syscall.SIGQUIT)
					w = nil
					blockedIn := ""
					if why == "blocked" {
						blockedIn = blockedLibraryFrame(dump)
					}
					// isolated re-run in a fresh process with a larger CPU budget
					iw, serr := p.start()
					if serr != nil {
						errCh <- serr
						return
					}
					r2, err2, to2, why2 := iw.exec1(job, p.opt.Isolated, p.opt.IdleWall, p.opt.HardCap, 0, &p.Stats.MaxRSS)
					switch {
					case to2 && why2 == "wall-cap":
						// neither out of CPU budget nor blocked, just not finished within the cap: no verdict
						iw.kill()
						atomic.AddInt64(&p.Stats.WatchdogFired, 1)
						atomic.AddInt64(&p.Stats.Inconclusive, 1)
						p.Stats.noteFiring(job.ID + ": " + why + ", alone: wall-cap")
						res = &proto.Result{ID: job.ID, WorkerErr: "the job reached the wall-clock cap without exhausting its CPU budget (machine too busy?)"}
					case to2:
						atomic.AddInt64(&p.Stats.WatchdogFired, 1)
						d2, _ := iw.reap(syscall.SIGQUIT)
						res = &proto.Result{ID: job.ID, Fatal: &proto.FatalInfo{Kind: "hang", Stderr: "given up: " + why2 + "\n" + truncS(d2, 3000)}}
						if m := reFrame.FindStringSubmatch(d2); m != nil {
							res.Fatal.Func = strings.TrimPrefix(strings.TrimPrefix(m[1], "github.com/jsightapi/"), "jsight-api-core/")
						}
					case err2 != nil:
						atomic.AddInt64(&p.Stats.WatchdogFired, 1)
						st, werr := iw.reap(0)
						atomic.AddInt64(&p.Stats.WorkerDeaths, 1)
						res = &proto.Result{ID: job.ID, Fatal: classifyDeath(st, werr)}
					case blockedIn != "":
						atomic.AddInt64(&p.Stats.WatchdogFired, 1)
						// Alone the job returns at once, inside the long-lived worker it sat blocked (no CPU progress, no runnable
						// thread) in the library: the hang depends on what the process did before.
						iw.kill()
						res = &proto.Result{ID: job.ID, Fatal: &proto.FatalInfo{Kind: "blocked-after-earlier-calls", Func: blockedIn, Stderr: truncS(dump, 3000)}}
					case why == "cpu-budget" && iw.lastJobCPU < p.opt.Watchdog/8:
						// The long-lived worker burnt its whole CPU budget on a job that costs next to nothing in a fresh process:
						// the work depends on what the process did before. The job is judged by the run that finished, the case is
						// recorded as open.
						atomic.AddInt64(&p.Stats.WatchdogFired, 1)
						atomic.AddInt64(&p.Stats.Inconclusive, 1)
						p.Stats.noteFiring(fmt.Sprintf("%s: cpu-budget in the long-lived worker, %.1f CPU-s alone", job.ID, iw.lastJobCPU.Seconds()))
						res = r2
						w = iw
					default:
						// A heavy job (finished alone within the larger budget), or a worker that waited for something outside the
						// library (no goroutine was blocked inside it): the job is judged by the run that finished.
						if atomic.AddInt64(&p.Stats.RerunAlone, 1) > 200 {
							atomic.AddInt64(&p.Stats.WatchdogFired, 1)
						}
						p.Stats.noteFiring(fmt.Sprintf("%s: %s, finished alone in %.1f CPU-s", job.ID, why, iw.lastJobCPU.Seconds()))
						res = r2
						w = iw
					}
				case err != nil:
					st, werr := w.reap(0)
					w = nil
					atomic.AddInt64(&p.Stats.WorkerDeaths, 1)
					res = &proto.Result{ID: job.ID, Fatal: classifyDeath(st, werr)}
				}
				handle(job, res)
			}
		}()
	}
	wg.Wait()
	select {
	case err := <-errCh:
		return err
	default:
		return nil
	}
}

func truncS(s string, n int) string {
	if len(s) > n {
		return s[:n] + "…"
	}
	return s
}

var reGoroutine = regexp.MustCompile(`(?m)^goroutine \d+ \[([^\]]+)\]:\n((?:.+\n)+)`)

// blockedLibraryFrame looks at a SIGQUIT dump: if the goroutine that runs the job (it has a vworker main.* frame) is
// blocked - not running or runnable - with a frame of the library on its stack, the innermost library frame is returned.
func blockedLibraryFrame(dump string) string {
	for _, m := range reGoroutine.FindAllStringSubmatch(dump, -1) {
		state, stack := m[1], m[2]
		if !strings.Contains(stack, "main.runJob") && !strings.Contains(stack, "main.(*built).call") {
			continue
		}
		if strings.HasPrefix(state, "running") || strings.HasPrefix(state, "runnable") || strings.HasPrefix(state, "syscall") {
			return ""
		}
		if f := reFrame.FindStringSubmatch(stack); f != nil {
			fn := strings.TrimPrefix(f[1], "github.com/jsightapi/")
			return strings.TrimPrefix(fn, "jsight-api-core/") + " [" + strings.Split(state, ",")[0] + "]"
		}
	}
	// any other goroutine that waits inside the library (the goroutines of a concurrent batch): the process made no progress
	// for the whole idle period, so a goroutine that sits on a lock or a channel in library code is stuck there
	for _, m := range reGoroutine.FindAllStringSubmatch(dump, -1) {
		state, stack := m[1], m[2]
		waits := false
		for _, w := range []string{"semacquire", "sync.Mutex.Lock", "sync.RWMutex", "chan receive", "chan send", "select", "sync.Cond.Wait", "sync.WaitGroup.Wait"} {
			if strings.HasPrefix(state, w) {
				waits = true
			}
		}
		if !waits {
			continue
		}
		if f := reFrame.FindStringSubmatch(stack); f != nil {
			fn := strings.TrimPrefix(f[1], "github.com/jsightapi/")
			return strings.TrimPrefix(fn, "jsight-api-core/") + " [" + strings.Split(state, ",")[0] + "]"
		}
	}
	return ""
}
