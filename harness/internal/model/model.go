package model

import (
	"fmt"
	"math/rand"
	"strings"
)

type Info struct {
	Title, Version string
	Description    []string // lines
}

type Server struct {
	Name, Annotation, BaseURL string
}

type Tag struct {
	Name, Annotation string
	Description      []string
}

type EnumVal struct {
	Lit  string // string value
	Note string
}

type Enum struct {
	Name, Annotation string
	Values           []EnumVal
}

type Type struct {
	Name, Annotation string
	Notation         string // jsight regex any empty
	Schema           *S
	Regex            string
}

// Body of a request or response.
type Body struct {
	Kind   string // schema type typearray regex any empty
	Schema *S
	Type   string
	Regex  string
}

type Response struct {
	Code, Annotation string
	Headers          *S
	Body             Body
	BodyAsDirective  bool // written as a child "Body" directive rather than on the response line
}

type Request struct {
	Headers         *S
	Body            Body
	BodyAsDirective bool
}

type Query struct {
	Example, Format string
	Schema          *S
}

type Method struct {
	Verb, Annotation, OperationID string
	Description                   []string
	Tags                          []string
	Query                         *Query
	Request                       *Request
	Responses                     []Response
}

type RPCMethod struct {
	Name, Annotation string
	Description      []string
	Tags             []string
	Params, Result   *S
}

// PathGroup: the interactions of one path.
type PathGroup struct {
	Path     string
	PathDefs []Prop // path parameters defined by this group's Path directive (subset of the path's parameters)
	Methods  []Method
	RPC      []RPCMethod // JSON-RPC methods (then Methods is empty)
	URLTags  []string    // Tags directive on the URL level (applies to methods without their own Tags)
}

// Item is one top-level entity, in document order.
type Item struct {
	Kind   string // info server tag enum type group
	Server *Server
	Tag    *Tag
	Enum   *Enum
	Type   *Type
	Group  *PathGroup
}

type Model struct {
	Info  *Info
	Items []Item
}

func (m *Model) Env() *TypeEnv {
	env := &TypeEnv{Types: map[string]*Type{}, Enums: map[string]*Enum{}}
	for _, it := range m.Items {
		switch it.Kind {
		case "type":
			env.Types[it.Type.Name] = it.Type
		case "enum":
			env.Enums[it.Enum.Name] = it.Enum
		}
	}
	return env
}

// Interactions counts the interactions of the model.
func (m *Model) Interactions() int {
	n := 0
	for _, it := range m.Items {
		if it.Kind == "group" {
			n += len(it.Group.Methods) + len(it.Group.RPC)
		}
	}
	return n
}

func (m *Model) TypesCount() int {
	n := 0
	for _, it := range m.Items {
		if it.Kind == "type" {
			n++
		}
	}
	return n
}

// ---- generator ----

type Size struct {
	Types, Enums, Groups, Methods, Responses int
}

var QuickSize = Size{Types: 4, Enums: 2, Groups: 3, Methods: 2, Responses: 3}
var FullSize = Size{Types: 6, Enums: 3, Groups: 5, Methods: 3, Responses: 4}

func descLines(r *rand.Rand) []string {
	n := 1 + r.Intn(3)
	var out []string
	for i := 0; i < n; i++ {
		l := wordList[r.Intn(len(wordList))] + " text " + wordList[r.Intn(len(wordList))]
		if i > 0 && r.Intn(3) == 0 {
			l = "  " + l // relative indentation survives
		}
		out = append(out, l)
	}
	return out
}

func annotation(r *rand.Rand) string {
	if r.Intn(2) == 0 {
		return ""
	}
	if r.Intn(4) == 0 {
		// text that looks like syntax, and text outside ASCII; a no-break space inside a word is a character like any other
		return []string{"quoted \"word\" here", "(parens) {braces} [brackets]", "back\\slash and /slash/ and a*b", "ünï cödé 日本語 😀",
			"no\u00a0break inside", "100% sure & more; colon: comma, dot.", "@ref-like @t0 and JSIGHT GET 200", "a 'single' `tick` ~ ^ | < > = + ! ?", "* starred *", "ends with a star *", "/ slash first and last /", "two stars at the end **", "three ***", "star*", "** banner **", "*"}[r.Intn(16)]
	}
	return strings.Title(wordList[r.Intn(len(wordList))]) + " " + wordList[r.Intn(len(wordList))] + "."
}

// Generate builds a random model. All names are unique, references point to defined entities, type references form a DAG
// (a type refers only to types declared after it or before it, never in a cycle), path parameters are consistent.
func Generate(r *rand.Rand, sz Size) *Model {
	m := &Model{}
	g := &schemaGen{r: r, enums: map[string][]string{}}
	var items []Item

	if r.Intn(3) != 0 {
		inf := &Info{}
		if r.Intn(4) != 0 {
			inf.Title = "API " + wordList[r.Intn(len(wordList))]
		}
		if r.Intn(3) != 0 {
			inf.Version = fmt.Sprintf("%d.%d", r.Intn(9), r.Intn(9))
		}
		if r.Intn(2) == 0 || (inf.Title == "" && inf.Version == "") {
			inf.Description = descLines(r)
		}
		m.Info = inf
		items = append(items, Item{Kind: "info"})
	}
	for i := 0; i < r.Intn(3); i++ {
		items = append(items, Item{Kind: "server", Server: &Server{Name: fmt.Sprintf([]string{"@srv%d", "@srv_%d", "@S-r_v%d"}[r.Intn(3)], i), Annotation: annotation(r), BaseURL: fmt.Sprintf("https://s%d.example.com/v%d", i, r.Intn(5))}})
	}
	var tagNames []string
	for i := 0; i < r.Intn(3); i++ {
		t := &Tag{Name: fmt.Sprintf([]string{"@tag%d", "@tag_%d", "@t_a_g_%d", "@Tag-%d"}[r.Intn(4)], i), Annotation: annotation(r)}
		if r.Intn(2) == 0 {
			t.Description = descLines(r)
		}
		tagNames = append(tagNames, t.Name)
		items = append(items, Item{Kind: "tag", Tag: t})
	}
	// enums first (their values are needed by schemas), placed anywhere later
	var enumItems []Item
	for i := 0; i < r.Intn(sz.Enums+1); i++ {
		e := &Enum{Name: fmt.Sprintf([]string{"@en%d", "@en_%d", "@E-n_%d"}[r.Intn(3)], i), Annotation: annotation(r)}
		n := 2 + r.Intn(3)
		var vals []string
		for k := 0; k < n; k++ {
			v := fmt.Sprintf("%s%d", wordList[r.Intn(len(wordList))], k)
			switch r.Intn(6) {
			case 0:
				v = fmt.Sprintf("%s.%d", wordList[r.Intn(len(wordList))], k) // a string with a dot is still a string
			case 1:
				v = fmt.Sprintf("./%s%d", wordList[r.Intn(len(wordList))], k)
			}
			note := ""
			if r.Intn(4) == 0 {
				note = "value " + fmt.Sprint(k)
			}
			e.Values = append(e.Values, EnumVal{Lit: v, Note: note})
			vals = append(vals, v)
		}
		g.enums[e.Name] = vals
		g.enumNames = append(g.enumNames, e.Name)
		enumItems = append(enumItems, Item{Kind: "enum", Enum: e})
	}
	// types: built from the last to the first so that a type refers only to already built ones (DAG); the declaration
	// order is then shuffled, which gives forward and backward references
	nTypes := 1 + r.Intn(sz.Types)
	var typeItems []Item
	for i := 0; i < nTypes; i++ {
		t := &Type{Name: fmt.Sprintf([]string{"@ty%d", "@ty_%d", "@Ty-p_e%d"}[r.Intn(3)], i), Annotation: annotation(r)}
		switch k := r.Intn(11); {
		case k == 0:
			t.Notation, t.Regex = "regex", []string{"ab+c", "[a-z]{3}-[0-9]{2}", "x(y|z)w", "ID[0-9]+"}[r.Intn(4)]
			g.refTypes = append(g.refTypes, t.Name)
		case k == 1:
			t.Notation = "any"
		case k == 2:
			t.Notation = "empty"
		case k == 3: // integer scalar type usable in {type: "@x"}
			t.Notation = "jsight"
			t.Schema = &S{K: "int", Lit: fmt.Sprint(10 + r.Intn(80)), Rules: []Rule{{Name: "min", Val: fmt.Sprint(r.Intn(10))}}}
			g.scalarTyp = append(g.scalarTyp, t.Name)
			g.refTypes = append(g.refTypes, t.Name)
		case k == 5: // string scalar type usable as a shortcut property key; its example is unlike every generated key
			t.Notation = "jsight"
			t.Schema = &S{K: "str", Lit: fmt.Sprintf("sk%d", i)}
			g.strTypes = append(g.strTypes, t.Name)
			g.refTypes = append(g.refTypes, t.Name)
		case k == 4: // object with scalar properties only, usable in allOf
			t.Notation = "jsight"
			s := &S{K: "obj"}
			for q := 0; q < 1+r.Intn(3); q++ {
				var v *S
				switch {
				case len(g.refTypes) > 1 && r.Intn(3) == 0:
					a, b := r.Intn(len(g.refTypes)), r.Intn(len(g.refTypes))
					if a != b {
						v = &S{K: "or", Or: []string{g.refTypes[a], g.refTypes[b]}, Sep: []string{" | ", "|", "  |  ", " |"}[r.Intn(4)]}
					}
				case len(g.refTypes) > 0 && r.Intn(4) == 0:
					v = &S{K: "ref", Ref: g.refTypes[r.Intn(len(g.refTypes))]}
				}
				if v == nil {
					v = &S{K: "str", Lit: g.word(), Note: g.note()}
				}
				s.Props = append(s.Props, Prop{Key: fmt.Sprintf("b%d", q), V: v})
			}
			if len(g.strTypes) > 0 && r.Intn(3) == 0 {
				// a property whose key refers to a string type: inherited with its flag, named after the type's example
				sk := g.strTypes[r.Intn(len(g.strTypes))]
				s.Props = append(s.Props, Prop{Key: sk, V: &S{K: "int", Lit: "2"}, Shortcut: true})
				if g.objShortcut == nil {
					g.objShortcut = map[string]string{}
				}
				g.objShortcut[t.Name] = sk
			}
			t.Schema = s
			g.objTypes = append(g.objTypes, t.Name)
			g.refTypes = append(g.refTypes, t.Name)
		default:
			t.Notation = "jsight"
			t.Schema = g.root()
			g.refTypes = append(g.refTypes, t.Name)
		}
		typeItems = append(typeItems, Item{Kind: "type", Type: t})
	}
	// path groups
	segs := []string{"cats", "dogs", "owners", "toys", "v1", "items", "pet_store_items", "x_y", "a__b_", "data-set", "v1.2", "Caps", "~tilde", "caf%C3%A9", "café", "x%5Fy", "a%20b", "50%25", "*", "**", "x*", "a*b"}
	params := []string{"id", "name", "key"}
	usedPaths := map[string]bool{}
	definedPrefix := map[string]bool{} // path prefix up to a parameter that already has a definition
	paramAt := map[string]string{}     // prefix without the parameter -> parameter name (similar paths are forbidden)
	var groupItems []Item
	opID := 0
	for gi := 0; gi < 1+r.Intn(sz.Groups); gi++ {
		var parts []string
		depth := 1 + r.Intn(3)
		prefix := ""
		seenParam := map[string]bool{}
		for d := 0; d < depth; d++ {
			if d > 0 && r.Intn(3) == 0 {
				p, ok := paramAt[prefix]
				if !ok {
					p = params[r.Intn(len(params))]
					if seenParam[p] {
						p = fmt.Sprintf("p%d", d)
					}
				}
				if seenParam[p] {
					break
				}
				paramAt[prefix] = p
				seenParam[p] = true
				parts = append(parts, "{"+p+"}")
			} else {
				parts = append(parts, segs[r.Intn(len(segs))])
			}
			prefix = strings.Join(parts, "/")
		}
		path := "/" + strings.Join(parts, "/")
		if usedPaths[path] {
			continue
		}
		usedPaths[path] = true
		pg := &PathGroup{Path: path}
		// path parameter definitions
		pre := ""
		for _, p := range parts {
			if pre == "" {
				pre = p
			} else {
				pre += "/" + p
			}
			if strings.HasPrefix(p, "{") && !definedPrefix[pre] && r.Intn(2) == 0 {
				definedPrefix[pre] = true
				var v *S
				if r.Intn(3) == 0 {
					// any scalar the schema language has: enums by name, user types, unions, formats ...
					v = g.scalar(false)
					for v.K == "ref" || v.K == "or" {
						v = g.scalar(false) // a reference may lead to an object: "the multi-level property is not allowed in the Path directive"
					}
					if r.Intn(3) == 0 {
						// a rule that creates unnamed types inside the schema: they have to travel with the piece of the path
						v = &S{K: "int", Lit: fmt.Sprint(1 + r.Intn(99)), Rules: []Rule{{Name: "or", Or: []OrItem{{Type: "integer"}, {Type: "string"}}}}}
						if r.Intn(2) == 0 {
							v.Rules = []Rule{{Name: "or", Or: []OrItem{{Type: "integer", Sub: []Rule{{Name: "min", Val: "0"}}}, {Type: "string", Sub: []Rule{{Name: "maxLength", Val: "9"}}}}}}
						}
					}
				} else if r.Intn(2) == 0 {
					v = &S{K: "int", Lit: fmt.Sprint(1 + r.Intn(99)), Note: g.note()}
					if r.Intn(2) == 0 {
						v.Rules = []Rule{{Name: "min", Val: "1"}}
					}
				} else {
					v = &S{K: "str", Lit: g.word(), Note: g.note()}
				}
				pg.PathDefs = append(pg.PathDefs, Prop{Key: strings.Trim(p, "{}"), V: v})
			}
		}
		pickTags := func() []string {
			if len(tagNames) == 0 || r.Intn(2) == 0 {
				return nil
			}
			var out []string
			seen := map[string]bool{}
			for k := 0; k < 1+r.Intn(len(tagNames)); k++ {
				t := tagNames[r.Intn(len(tagNames))]
				if !seen[t] {
					seen[t] = true
					out = append(out, t)
				}
			}
			return out
		}
		body := func(allowTypeOnLine bool) Body {
			switch k := r.Intn(8); {
			case k == 0:
				return Body{Kind: "any"}
			case k == 1:
				return Body{Kind: "empty"}
			case k == 2:
				return Body{Kind: "regex", Regex: []string{"ok[0-9]", "E-[a-f]+", "done"}[r.Intn(3)]}
			case k <= 4 && len(g.refTypes) > 0:
				kind := "type"
				if r.Intn(3) == 0 {
					kind = "typearray"
				}
				return Body{Kind: kind, Type: g.refTypes[r.Intn(len(g.refTypes))]}
			}
			return Body{Kind: "schema", Schema: g.root()}
		}
		if r.Intn(6) == 0 { // JSON-RPC
			for q := 0; q < 1+r.Intn(2); q++ {
				rm := RPCMethod{Name: fmt.Sprintf("rpc%d_%d", gi, q), Annotation: annotation(r), Tags: pickTags()}
				if r.Intn(3) == 0 {
					rm.Description = descLines(r)
				}
				if r.Intn(3) != 0 {
					rm.Params = g.root()
				}
				if r.Intn(3) != 0 {
					rm.Result = g.root()
				}
				pg.RPC = append(pg.RPC, rm)
			}
			pg.PathDefs = nil // JSON-RPC interactions carry no path variables
			for _, p := range parts {
				if strings.HasPrefix(p, "{") {
					pg = nil
					break
				}
			}
			if pg == nil {
				usedPaths[path] = false
				continue
			}
		} else {
			verbs := []string{"GET", "POST", "PUT", "PATCH", "DELETE"}
			r.Shuffle(len(verbs), func(a, b int) { verbs[a], verbs[b] = verbs[b], verbs[a] })
			if r.Intn(4) == 0 {
				pg.URLTags = pickTags()
			}
			for q := 0; q < 1+r.Intn(sz.Methods); q++ {
				me := Method{Verb: verbs[q], Annotation: annotation(r), Tags: pickTags()}
				if r.Intn(3) == 0 {
					me.Description = descLines(r)
				}
				if r.Intn(4) == 0 {
					opID++
					me.OperationID = fmt.Sprintf("op%d", opID)
				}
				if r.Intn(4) == 0 {
					me.Query = &Query{Example: "a=1&b=two", Format: []string{"", "htmlFormEncoded", "noFormat"}[r.Intn(3)], Schema: &S{K: "obj", Props: []Prop{{Key: "a", V: &S{K: "int", Lit: "1"}}, {Key: "b", V: &S{K: "str", Lit: "two", Note: g.note()}}}}}
					if r.Intn(3) == 0 {
						me.Query.Example = ""
					}
				}
				if me.Verb != "GET" && r.Intn(3) == 0 {
					rq := &Request{Body: body(true), BodyAsDirective: r.Intn(2) == 0}
					if r.Intn(3) == 0 {
						rq.Headers = &S{K: "obj", Props: []Prop{{Key: "X-Req", V: &S{K: "str", Lit: g.word()}}}}
						rq.BodyAsDirective = true
					}
					me.Request = rq
				}
				for k := 0; k < 1+r.Intn(sz.Responses); k++ {
					rs := Response{Code: []string{"200", "201", "204", "400", "404", "500", "200", "100", "199", "304", "418", "599"}[r.Intn(12)], Annotation: annotation(r), Body: body(true), BodyAsDirective: r.Intn(3) == 0}
					if r.Intn(5) == 0 {
						rs.Headers = &S{K: "obj", Props: []Prop{{Key: "X-Res", V: &S{K: "str", Lit: g.word(), Note: g.note()}}}}
						rs.BodyAsDirective = true
					}
					me.Responses = append(me.Responses, rs)
				}
				pg.Methods = append(pg.Methods, me)
			}
		}
		groupItems = append(groupItems, Item{Kind: "group", Group: pg})
	}
	// top-level order: info/servers/tags first (as generated), then a shuffle of enums, types and groups
	rest := append(append(enumItems, typeItems...), groupItems...)
	r.Shuffle(len(rest), func(a, b int) { rest[a], rest[b] = rest[b], rest[a] })
	m.Items = append(items, rest...)
	return m
}

// Features counts the schema features used anywhere in the model.
func (m *Model) Features() map[string]int {
	out := map[string]int{}
	body := func(b Body) {
		if b.Kind == "schema" {
			b.Schema.Features(out)
		} else {
			out["body:"+b.Kind]++
		}
	}
	for _, it := range m.Items {
		switch it.Kind {
		case "type":
			out["type-notation:"+it.Type.Notation]++
			it.Type.Schema.Features(out)
		case "group":
			for _, p := range it.Group.PathDefs {
				p.V.Features(out)
			}
			for _, me := range it.Group.Methods {
				if me.Query != nil {
					me.Query.Schema.Features(out)
				}
				if me.Request != nil {
					me.Request.Headers.Features(out)
					body(me.Request.Body)
				}
				for _, rs := range me.Responses {
					rs.Headers.Features(out)
					body(rs.Body)
				}
			}
			for _, rm := range it.Group.RPC {
				rm.Params.Features(out)
				rm.Result.Features(out)
			}
		}
	}
	return out
}
