// Package model: abstract API models, a renderer with independent layout dimensions and the expected catalog.
package model

import (
	"encoding/json"
	"fmt"
	"math/rand"
	"sort"
	"strings"
)

// S is a node of the schema sub-language whose catalog image is computable without the implementation.
type S struct {
	K     string // obj arr str int float bool null ref or
	Props []Prop
	Items []*S
	Lit   string // literal text as written for scalars (strings without quotes)
	Ref   string
	Or    []string
	Sep   string // how the union bar is written: " | ", "|", "  |  " ... (the catalog keeps the text as written)
	Rules []Rule
	Note  string
}

type Prop struct {
	Key      string // for a shortcut property: the name of the user type ("@ty3"), written without quotes
	V        *S
	Shortcut bool // key written as a reference to a string user type: the property's name is that type's example
}

// Rule is one entry of a rule annotation, in the order written.
type Rule struct {
	Name   string   // optional nullable const min max exclusiveMinimum exclusiveMaximum precision minLength maxLength regex minItems maxItems additionalProperties enum type allOf or
	Val    string   // scalar value as written (true, 5, "@t"); for enum lists see List/Raw; for enum by name the name
	List   []string // enum: ["a","b"]
	Raw    []string // enum with literals of any scalar kind, each as written: "a", 1, 2.5, null, true
	ByName bool     // enum: @e
	Or     []OrItem // or: ["integer", "@t"] or or: [{type: "integer", min: 0}, ...]
}

// OrItem is one alternative of an "or" rule.
type OrItem struct {
	Type string // "integer", "@t", ...
	Sub  []Rule // nil: the alternative is written as a bare type name; otherwise as an object {type: "...", sub rules}
	Obj  bool   // written as an object even without sub rules
}

func (s *S) rule(name string) *Rule {
	for i := range s.Rules {
		if s.Rules[i].Name == name {
			return &s.Rules[i]
		}
	}
	return nil
}

// ---- rendering of a schema as text ----

func (r Rule) text() string {
	switch r.Name {
	case "enum":
		if r.ByName {
			return "enum: " + r.Val
		}
		if r.Raw != nil {
			return "enum: [" + strings.Join(r.Raw, ", ") + "]"
		}
		var q []string
		for _, v := range r.List {
			q = append(q, fmt.Sprintf("%q", v))
		}
		return "enum: [" + strings.Join(q, ", ") + "]"
	case "or":
		var q []string
		for _, it := range r.Or {
			if it.Sub == nil && !it.Obj {
				q = append(q, fmt.Sprintf("%q", it.Type))
				continue
			}
			parts := []string{fmt.Sprintf("type: %q", it.Type)}
			for _, sr := range it.Sub {
				parts = append(parts, sr.text())
			}
			q = append(q, "{"+strings.Join(parts, ", ")+"}")
		}
		return "or: [" + strings.Join(q, ", ") + "]"
	case "type", "allOf", "regex":
		return fmt.Sprintf("%s: %q", r.Name, r.Val)
	case "additionalProperties":
		if r.Val != "true" && r.Val != "false" {
			return fmt.Sprintf("%s: %q", r.Name, r.Val)
		}
	}
	return r.Name + ": " + r.Val
}

func (s *S) annotation() string {
	var parts []string
	for _, r := range s.Rules {
		parts = append(parts, r.text())
	}
	a := ""
	if len(parts) > 0 {
		a = "{" + strings.Join(parts, ", ") + "}"
	}
	if s.Note != "" {
		if a != "" {
			a += " - " + s.Note
		} else {
			a = s.Note
		}
	}
	return a
}

func (s *S) scalarText() string {
	switch s.K {
	case "str":
		return fmt.Sprintf("%q", s.Lit)
	case "ref":
		return s.Ref
	case "or":
		return strings.Join(s.Or, s.sep())
	}
	return s.Lit
}

func (s *S) sep() string {
	if s.Sep == "" {
		return " | "
	}
	return s.Sep
}

// Lines renders the schema one value per line; annotations go to the end of the line that holds the value (for
// objects and arrays: the line of the opening bracket).
func (s *S) Lines(unit string) []string {
	var out []string
	s.lines("", unit, "", "", &out)
	return out
}

func (s *S) lines(indent, unit, prefix, suffix string, out *[]string) {
	ann := s.annotation()
	withAnn := func(line string) string {
		if ann != "" {
			return line + " // " + ann
		}
		return line
	}
	switch s.K {
	case "obj":
		*out = append(*out, withAnn(indent+prefix+"{"))
		for i, p := range s.Props {
			suf := ","
			if i == len(s.Props)-1 {
				suf = ""
			}
			if p.Shortcut {
				p.V.lines(indent+unit, unit, p.Key+": ", suf, out)
			} else {
				p.V.lines(indent+unit, unit, fmt.Sprintf("%q: ", p.Key), suf, out)
			}
		}
		*out = append(*out, indent+"}"+suffix)
	case "arr":
		*out = append(*out, withAnn(indent+prefix+"["))
		for i, it := range s.Items {
			suf := ","
			if i == len(s.Items)-1 {
				suf = ""
			}
			it.lines(indent+unit, unit, "", suf, out)
		}
		*out = append(*out, indent+"]"+suffix)
	default:
		*out = append(*out, withAnn(indent+prefix+s.scalarText()+suffix))
	}
}

// ---- catalog image ----

// J is a plain JSON value: map[string]interface{}, []interface{}, string, bool.
type J = interface{}

// litImage is the image of one literal of an enum list.
func litImage(lit string) map[string]J {
	switch {
	case strings.HasPrefix(lit, "\""):
		var v string
		_ = json.Unmarshal([]byte(lit), &v)
		return map[string]J{"tokenType": "string", "scalarValue": v}
	case lit == "null":
		return map[string]J{"tokenType": "null", "scalarValue": "null"}
	case lit == "true" || lit == "false":
		return map[string]J{"tokenType": "boolean", "scalarValue": lit}
	}
	return map[string]J{"tokenType": "number", "scalarValue": lit}
}

func typeNameTok(v string) string {
	if strings.HasPrefix(v, "@") {
		return "reference"
	}
	return "string"
}

func ruleImage(r Rule) map[string]J {
	m := map[string]J{"key": r.Name}
	switch r.Name {
	case "optional", "nullable", "const", "exclusiveMinimum", "exclusiveMaximum":
		m["tokenType"], m["scalarValue"] = "boolean", r.Val
	case "min", "max", "minLength", "maxLength", "precision", "minItems", "maxItems":
		m["tokenType"], m["scalarValue"] = "number", r.Val
	case "type":
		m["tokenType"], m["scalarValue"] = typeNameTok(r.Val), r.Val
	case "allOf":
		m["tokenType"], m["scalarValue"] = "reference", r.Val
	case "regex":
		m["tokenType"], m["scalarValue"] = "string", r.Val
	case "additionalProperties":
		if r.Val == "true" || r.Val == "false" {
			m["tokenType"], m["scalarValue"] = "boolean", r.Val
		} else {
			// the implementation reports the value of this rule as a string also for "@type" values
			m["tokenType"], m["scalarValue"] = "string", r.Val
		}
	case "or":
		var ch []J
		for _, it := range r.Or {
			if it.Sub == nil && !it.Obj {
				ch = append(ch, map[string]J{"tokenType": typeNameTok(it.Type), "scalarValue": it.Type})
				continue
			}
			sub := []J{map[string]J{"key": "type", "tokenType": typeNameTok(it.Type), "scalarValue": it.Type}}
			for _, sr := range it.Sub {
				sub = append(sub, ruleImage(sr))
			}
			ch = append(ch, map[string]J{"tokenType": "object", "children": sub})
		}
		m["tokenType"], m["children"] = "array", ch
	case "enum":
		switch {
		case r.ByName:
			m["tokenType"], m["scalarValue"] = "reference", r.Val
		case r.Raw != nil:
			var ch []J
			for _, v := range r.Raw {
				ch = append(ch, litImage(v))
			}
			m["tokenType"], m["children"] = "array", ch
		default:
			var ch []J
			for _, v := range r.List {
				ch = append(ch, map[string]J{"tokenType": "string", "scalarValue": v})
			}
			m["tokenType"], m["children"] = "array", ch
		}
	}
	return m
}

// TypeEnv resolves user types for allOf inheritance and examples.
type TypeEnv struct {
	Types map[string]*Type
	Enums map[string]*Enum
}

// Image returns the expected "content" node. key == nil for nodes that are not object properties.
func (s *S) Image(env *TypeEnv, key *string, arrayItem bool) map[string]J {
	m := map[string]J{}
	if key != nil {
		m["key"] = *key
	}
	opt := arrayItem
	if r := s.rule("optional"); r != nil && r.Val == "true" {
		opt = true
	}
	m["optional"] = opt
	if s.Note != "" {
		m["note"] = s.Note
	}
	if len(s.Rules) > 0 {
		var rr []J
		for _, r := range s.Rules {
			rr = append(rr, ruleImage(r))
		}
		m["rules"] = rr
	}
	switch s.K {
	case "obj":
		m["tokenType"], m["type"] = "object", "object"
		children := []J{}
		if r := s.rule("allOf"); r != nil {
			if t := env.Types[r.Val]; t != nil && t.Schema != nil {
				for _, p := range t.Schema.Props {
					k := p.Key
					im := p.V.Image(env, &k, false)
					im["inheritedFrom"] = r.Val
					if p.Shortcut {
						im["isKeyUserTypeRef"] = true
					}
					children = append(children, im)
				}
			}
		}
		for _, p := range s.Props {
			k := p.Key
			im := p.V.Image(env, &k, false)
			if p.Shortcut {
				im["isKeyUserTypeRef"] = true
			}
			children = append(children, im)
		}
		m["children"] = children
	case "arr":
		m["tokenType"], m["type"] = "array", "array"
		children := []J{}
		for _, it := range s.Items {
			children = append(children, it.Image(env, nil, true))
		}
		m["children"] = children
	case "str":
		m["tokenType"], m["type"], m["scalarValue"] = "string", "string", s.Lit
	case "int":
		m["tokenType"], m["type"], m["scalarValue"] = "number", "integer", s.Lit
	case "float":
		m["tokenType"], m["type"], m["scalarValue"] = "number", "float", s.Lit
	case "bool":
		m["tokenType"], m["type"], m["scalarValue"] = "boolean", "boolean", s.Lit
	case "null":
		m["tokenType"], m["type"], m["scalarValue"] = "null", "null", "null"
	case "ref":
		m["tokenType"], m["type"], m["scalarValue"] = "reference", s.Ref, s.Ref
	case "or":
		m["tokenType"], m["type"], m["scalarValue"] = "reference", "mixed", strings.Join(s.Or, s.sep())
	}
	if r := s.rule("precision"); r != nil && s.K == "float" {
		m["type"] = "decimal"
	}
	if r := s.rule("type"); r != nil {
		m["type"] = r.Val
	}
	if r := s.rule("or"); r != nil {
		m["type"] = "mixed"
	}
	if r := s.rule("enum"); r != nil {
		m["type"] = "enum"
	}
	return m
}

// UsedTypes returns the user types the schema refers to (as a set, sorted).
func (s *S) UsedTypes(env *TypeEnv) []string {
	set := map[string]bool{}
	s.usedTypes(env, set)
	var out []string
	for k := range set {
		out = append(out, k)
	}
	sort.Strings(out)
	return out
}

func (s *S) usedTypes(env *TypeEnv, set map[string]bool) {
	if r := s.rule("type"); r != nil && strings.HasPrefix(r.Val, "@") {
		set[r.Val] = true
	}
	if r := s.rule("additionalProperties"); r != nil && strings.HasPrefix(r.Val, "@") {
		set[r.Val] = true
	}
	if r := s.rule("or"); r != nil {
		for _, it := range r.Or {
			if strings.HasPrefix(it.Type, "@") {
				set[it.Type] = true
			}
		}
	}
	if r := s.rule("allOf"); r != nil {
		set[r.Val] = true
		// the references of the inherited properties count as used by the inheriting schema
		if t := env.Types[r.Val]; t != nil && t.Schema != nil {
			for _, p := range t.Schema.Props {
				switch p.V.K {
				case "ref":
					set[p.V.Ref] = true
				case "or":
					for _, o := range p.V.Or {
						set[o] = true
					}
				}
			}
		}
	}
	switch s.K {
	case "ref":
		set[s.Ref] = true
	case "or":
		for _, o := range s.Or {
			set[o] = true
		}
	case "obj":
		for _, p := range s.Props {
			if p.Shortcut {
				set[p.Key] = true
			}
			p.V.usedTypes(env, set)
		}
	case "arr":
		for _, it := range s.Items {
			it.usedTypes(env, set)
		}
	}
}

// exampleKey is the property name a property has in examples.
func (p Prop) exampleKey(env *TypeEnv) string {
	if p.Shortcut {
		if t := env.Types[p.Key]; t != nil && t.Schema != nil {
			return t.Schema.Lit
		}
	}
	return p.Key
}

// Example returns the expected example as a Go value; regex-typed parts are returned as RegexHole.
type RegexHole struct{ Pattern string }

func (s *S) Example(env *TypeEnv, depth int) J {
	if depth > 200 {
		return nil
	}
	switch s.K {
	case "obj":
		m := map[string]J{}
		if r := s.rule("allOf"); r != nil {
			if t := env.Types[r.Val]; t != nil && t.Schema != nil {
				for _, p := range t.Schema.Props {
					m[p.exampleKey(env)] = p.V.Example(env, depth+1)
				}
			}
		}
		for _, p := range s.Props {
			m[p.exampleKey(env)] = p.V.Example(env, depth+1)
		}
		return m
	case "arr":
		a := []J{}
		for _, it := range s.Items {
			a = append(a, it.Example(env, depth+1))
		}
		return a
	case "str":
		return s.Lit
	case "int", "float":
		return json.Number(s.Lit)
	case "bool":
		return s.Lit == "true"
	case "null":
		return nil
	case "ref":
		return typeExample(env, s.Ref, depth+1)
	case "or":
		return typeExample(env, s.Or[0], depth+1)
	}
	return nil
}

func typeExample(env *TypeEnv, name string, depth int) J {
	t := env.Types[name]
	if t == nil {
		return nil
	}
	switch t.Notation {
	case "regex":
		return RegexHole{t.Regex}
	case "jsight":
		return t.Schema.Example(env, depth)
	}
	return nil
}

// ---- random schemas ----

type schemaGen struct {
	r           *rand.Rand
	scalarTyp   []string          // names of user types whose schema is an integer scalar (usable in {type: "@x"})
	objTypes    []string          // object types with scalar properties only (usable in allOf)
	refTypes    []string          // types that may be referenced (jsight and regex)
	strTypes    []string          // string scalar types (usable as shortcut property keys)
	objShortcut map[string]string // allOf base type -> the user type its shortcut-key property refers to ("" if none)
	enums       map[string][]string
	enumNames   []string
	words       []string
}

var wordList = []string{"alpha", "beta", "gamma", "delta", "omega", "kappa", "sigma", "theta", "lambda", "zeta"}

func (g *schemaGen) word() string { return wordList[g.r.Intn(len(wordList))] }

func (g *schemaGen) note() string {
	if g.r.Intn(4) != 0 {
		return ""
	}
	if g.r.Intn(4) == 0 {
		return []string{"quoted \"word\"", "(parens) [brackets] a*b", "ünï cödé 日本語", "no\u00a0break", "100% & more; colon: x, dot.", "@ref-like 200 GET"}[g.r.Intn(6)]
	}
	return g.word() + " " + g.word()
}

func (g *schemaGen) scalar(allowOptional bool) *S {
	s := &S{}
	switch g.r.Intn(9) {
	case 0, 1:
		s.K, s.Lit = "str", g.word()
		switch g.r.Intn(16) {
		case 0:
			s.Rules = append(s.Rules, Rule{Name: "minLength", Val: fmt.Sprint(g.r.Intn(len(s.Lit) + 1))})
		case 1:
			list := []string{s.Lit, g.word() + "x"}
			if g.r.Intn(2) == 0 {
				list = []string{g.word() + "y", s.Lit}
			}
			s.Rules = append(s.Rules, Rule{Name: "enum", List: list})
		case 2, 3:
			if len(g.enumNames) > 0 {
				en := g.enumNames[g.r.Intn(len(g.enumNames))]
				vals := g.enums[en]
				s.Lit = vals[g.r.Intn(len(vals))]
				s.Rules = append(s.Rules, Rule{Name: "enum", Val: en, ByName: true})
			}
		case 4:
			s.Rules = append(s.Rules, Rule{Name: "maxLength", Val: fmt.Sprint(len(s.Lit) + g.r.Intn(4))})
		case 5:
			a, b := Rule{Name: "minLength", Val: fmt.Sprint(g.r.Intn(3))}, Rule{Name: "maxLength", Val: fmt.Sprint(len(s.Lit) + g.r.Intn(20))}
			if g.r.Intn(2) == 0 {
				a, b = b, a
			}
			s.Rules = append(s.Rules, a, b)
		case 6:
			s.Rules = append(s.Rules, Rule{Name: "regex", Val: []string{"^[a-z]+$", "[a-z]{2,}", "^(alpha|beta|gamma|delta|omega|kappa|sigma|theta|lambda|zeta)$"}[g.r.Intn(3)]})
		case 7:
			s.Rules = append(s.Rules, Rule{Name: "const", Val: []string{"true", "false"}[g.r.Intn(2)]})
		case 8:
			f := [][2]string{{"email", "user@example.com"}, {"uri", "https://example.com/a"}, {"date", "2021-03-04"}, {"datetime", "2021-03-04T05:06:07+00:00"}, {"uuid", "550e8400-e29b-41d4-a716-446655440000"}}[g.r.Intn(5)]
			s.Lit = f[1]
			s.Rules = append(s.Rules, Rule{Name: "type", Val: f[0]})
		case 9:
			s.Rules = append(s.Rules, Rule{Name: "type", Val: []string{"any", "string"}[g.r.Intn(2)]})
		case 10:
			s.Rules = append(s.Rules, Rule{Name: "enum", Raw: []string{fmt.Sprintf("%q", s.Lit), fmt.Sprint(g.r.Intn(9)), "null", "true", "2.5"}[:2+g.r.Intn(4)]})
		case 14:
			// characters that a JSON text writes with an escape, and text outside ASCII
			s.Lit = []string{"say \"hi\"", "back\\slash", "two\nlines", "tab\there", "ünï cödé", "日本語", "emoji 😀", "slash / and \\/"}[g.r.Intn(8)]
		case 12, 13:
			// text that looks like something else: a dot, a number, a keyword, a reference
			s.Lit = []string{g.word() + "." + g.word(), "./" + g.word(), "1.5", "12", "true", "null", "@" + g.word(), "v1.2", "a.b.c", "GET /x", "{}", "[1]"}[g.r.Intn(12)]
		case 11:
			s.Rules = append(s.Rules, Rule{Name: "or", Or: []OrItem{{Type: "string", Sub: []Rule{{Name: "maxLength", Val: fmt.Sprint(len(s.Lit) + 1)}}}, {Type: "integer", Obj: true}}})
		}
	case 2, 3:
		n := g.r.Intn(100)
		s.K, s.Lit = "int", fmt.Sprint(n)
		if g.r.Intn(12) == 0 {
			s.Lit = []string{"-7", "0", "-0", "12345678901234567890", "-98765432109876543210"}[g.r.Intn(5)]
			break
		}
		switch g.r.Intn(14) {
		case 0:
			s.Rules = append(s.Rules, Rule{Name: "min", Val: fmt.Sprint(n - g.r.Intn(5))})
		case 1:
			s.Rules = append(s.Rules, Rule{Name: "min", Val: fmt.Sprint(n - 1 - g.r.Intn(3))}, Rule{Name: "max", Val: fmt.Sprint(n + g.r.Intn(9))})
		case 2:
			if len(g.scalarTyp) > 0 {
				s.Lit = "50"
				s.Rules = append(s.Rules, Rule{Name: "type", Val: g.scalarTyp[g.r.Intn(len(g.scalarTyp))]})
				if g.r.Intn(3) == 0 {
					s.Rules = append(s.Rules, Rule{Name: "nullable", Val: "true"})
				}
			}
		case 3:
			s.Rules = append(s.Rules, Rule{Name: "nullable", Val: "true"})
		case 4:
			s.Rules = append(s.Rules, Rule{Name: "min", Val: fmt.Sprint(n - 1 - g.r.Intn(3))}, Rule{Name: "exclusiveMinimum", Val: []string{"true", "true", "false"}[g.r.Intn(3)]})
		case 5:
			s.Rules = append(s.Rules, Rule{Name: "max", Val: fmt.Sprint(n + 1 + g.r.Intn(3))}, Rule{Name: "exclusiveMaximum", Val: []string{"true", "true", "false"}[g.r.Intn(3)]})
		case 6:
			items := []OrItem{{Type: "integer"}, {Type: "string"}}
			if len(g.scalarTyp) > 0 && g.r.Intn(2) == 0 {
				s.Lit = "50"
				items[0].Type = g.scalarTyp[g.r.Intn(len(g.scalarTyp))]
			}
			if g.r.Intn(2) == 0 {
				items[0], items[1] = items[1], items[0]
			}
			s.Rules = append(s.Rules, Rule{Name: "or", Or: items})
		case 7:
			s.Rules = append(s.Rules, Rule{Name: "or", Or: []OrItem{{Type: "integer", Sub: []Rule{{Name: "min", Val: "0"}}}, {Type: "string", Sub: []Rule{{Name: "maxLength", Val: "3"}}}, {Type: "boolean", Obj: true}}[:2+g.r.Intn(2)]})
		case 8:
			s.Rules = append(s.Rules, Rule{Name: "const", Val: "true"})
		case 9:
			s.Rules = append(s.Rules, Rule{Name: "enum", Raw: []string{fmt.Sprint(n), fmt.Sprint(n + 1), "\"zz\"", "null"}[:2+g.r.Intn(3)]})
		case 10:
			s.Rules = append(s.Rules, Rule{Name: "type", Val: []string{"integer", "any"}[g.r.Intn(2)]})
		}
	case 4:
		s.K, s.Lit = "float", fmt.Sprintf("%d.%d", g.r.Intn(50), 1+g.r.Intn(9))
		if g.r.Intn(8) == 0 {
			s.Lit = []string{"-0.5", "0.0", "3.140", "-12.000001", "1234567890.0987654321"}[g.r.Intn(5)]
			break
		}
		switch g.r.Intn(6) {
		case 0:
			s.Rules = append(s.Rules, Rule{Name: "precision", Val: fmt.Sprint(1 + g.r.Intn(3))})
		case 1:
			s.Rules = append(s.Rules, Rule{Name: "type", Val: "decimal"}, Rule{Name: "precision", Val: fmt.Sprint(1 + g.r.Intn(3))})
		case 2:
			s.Rules = append(s.Rules, Rule{Name: "type", Val: "float"}, Rule{Name: "min", Val: "0"})
		}
	case 5:
		s.K, s.Lit = "bool", []string{"true", "false"}[g.r.Intn(2)]
	case 6:
		s.K, s.Lit = "null", "null"
	case 7:
		if len(g.refTypes) > 0 {
			s.K, s.Ref = "ref", g.refTypes[g.r.Intn(len(g.refTypes))]
		} else {
			s.K, s.Lit = "int", "7"
		}
	case 8:
		if len(g.refTypes) > 1 {
			a, b := g.r.Intn(len(g.refTypes)), g.r.Intn(len(g.refTypes))
			if a != b {
				s.K, s.Or = "or", []string{g.refTypes[a], g.refTypes[b]}
				s.Sep = []string{" | ", " | ", "|", "  |  ", " |", "| "}[g.r.Intn(6)]
				break
			}
		}
		s.K, s.Lit = "str", g.word()
	}
	if allowOptional && g.r.Intn(5) == 0 {
		s.Rules = append(s.Rules, Rule{Name: "optional", Val: "true"})
	}
	s.Note = g.note()
	return s
}

func (g *schemaGen) object(depth int, allowAllOf bool) *S {
	s := &S{K: "obj"}
	used := map[string]bool{}
	if allowAllOf && len(g.objTypes) > 0 && g.r.Intn(4) == 0 {
		base := g.objTypes[g.r.Intn(len(g.objTypes))]
		s.Rules = append(s.Rules, Rule{Name: "allOf", Val: base})
		// inherited keys are b0..b9 – own keys never collide with them. An inherited key that refers to a user type (@ty3: 1) and
		// the literal key "@ty3" are different properties: sometimes the inheriting object has the literal one
		if sk := g.objShortcut[base]; sk != "" && g.r.Intn(2) == 0 {
			s.Props = append(s.Props, Prop{Key: sk, V: &S{K: "int", Lit: "7"}})
			used[sk] = true
		}
	}
	if g.r.Intn(7) == 0 {
		vals := []string{"true", "false", "string", "integer", "any", "null", "boolean", "float", "array", "object"}
		vals = append(vals, g.scalarTyp...)
		s.Rules = append(s.Rules, Rule{Name: "additionalProperties", Val: vals[g.r.Intn(len(vals))]})
	}
	if len(g.strTypes) > 0 && g.r.Intn(6) == 0 {
		// a property whose key is a reference to a string type: its name is that type's example ("sk<i>", never a generated key)
		v := g.scalar(true)
		st := g.strTypes[g.r.Intn(len(g.strTypes))]
		inherited := false
		if r := s.rule("allOf"); r != nil && g.objShortcut[r.Val] == st {
			inherited = true // the base type has this very property: writing it again would override an inherited property
		}
		if !inherited {
			s.Props = append(s.Props, Prop{Key: st, V: v, Shortcut: true})
		}
	}
	n := 1 + g.r.Intn(4)
	for i := 0; i < n; i++ {
		key := fmt.Sprintf("%s%d", g.word()[:2], i)
		if g.r.Intn(10) == 0 {
			// keys that need no escape in a JSON text but are not identifiers
			key = []string{"a b", "ключ", "k-1", "k.2", "UPPER", "9lives", "@quoted-not-a-shortcut", "x/y", "émoji😀"}[g.r.Intn(9)]
		}
		if used[key] {
			continue
		}
		used[key] = true
		var v *S
		switch {
		case depth < 2 && g.r.Intn(6) == 0:
			v = g.object(depth+1, allowAllOf)
		case depth < 2 && g.r.Intn(6) == 0:
			v = g.array(depth + 1)
		default:
			v = g.scalar(true)
		}
		s.Props = append(s.Props, Prop{Key: key, V: v})
	}
	return s
}

func (g *schemaGen) array(depth int) *S {
	s := &S{K: "arr"}
	n := 1 + g.r.Intn(2)
	switch g.r.Intn(8) {
	case 0:
		s.Rules = append(s.Rules, Rule{Name: "minItems", Val: fmt.Sprint(g.r.Intn(n + 1))})
	case 1:
		s.Rules = append(s.Rules, Rule{Name: "maxItems", Val: fmt.Sprint(n + g.r.Intn(3))})
	case 2:
		s.Rules = append(s.Rules, Rule{Name: "minItems", Val: fmt.Sprint(g.r.Intn(n + 1))}, Rule{Name: "maxItems", Val: fmt.Sprint(n + g.r.Intn(3))})
	case 3:
		s.Rules = append(s.Rules, Rule{Name: "type", Val: "array"})
	}
	for i := 0; i < n; i++ {
		if depth < 2 && g.r.Intn(5) == 0 {
			s.Items = append(s.Items, g.object(depth+1, false))
		} else {
			s.Items = append(s.Items, g.scalar(false))
		}
	}
	return s
}

// any: a root schema
func (g *schemaGen) root() *S {
	switch g.r.Intn(8) {
	case 0:
		return g.array(0)
	case 1:
		return g.scalar(false)
	}
	return g.object(0, true)
}

// Features counts what a schema uses: rule names, node kinds and shortcut keys (for coverage evidence).
func (s *S) Features(into map[string]int) {
	if s == nil {
		return
	}
	into["kind:"+s.K]++
	for _, r := range s.Rules {
		k := "rule:" + r.Name
		switch {
		case r.Name == "type" && !strings.HasPrefix(r.Val, "@"):
			k += "=" + r.Val
		case r.Name == "type":
			k += "=@user"
		case r.Name == "enum" && r.ByName:
			k += "=@name"
		case r.Name == "enum" && r.Raw != nil:
			k += "=mixed-literals"
		case r.Name == "or" && len(r.Or) > 0 && (r.Or[0].Sub != nil || r.Or[0].Obj):
			k += "=objects"
		case r.Name == "additionalProperties" && strings.HasPrefix(r.Val, "@"):
			k += "=@user"
		}
		into[k]++
	}
	if s.Note != "" {
		into["note"]++
	}
	for _, p := range s.Props {
		if p.Shortcut {
			into["shortcut-key"]++
		}
		if p.V.K == "obj" && p.V.rule("allOf") != nil {
			into["allOf-on-a-nested-object"]++
			if s.rule("allOf") != nil {
				into["allOf-on-an-object-inside-an-object-with-allOf"]++
			}
		}
		p.V.Features(into)
	}
	for _, it := range s.Items {
		it.Features(into)
	}
}
