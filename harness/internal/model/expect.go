package model

import (
	"encoding/json"
	"fmt"
	"regexp"
	"sort"
	"strings"

	"verifharness/internal/ref"
)

// special expected values
type ExampleJ struct{ V J }    // a string holding JSON that must be structurally equal to V
type SetJ struct{ V []string } // an array of strings compared as a set

type Expected struct {
	Top   map[string]J
	Order map[string][]string // section -> expected relative order of keys of one origin
}

func strp(m map[string]J, k, v string) {
	if v != "" {
		m[k] = v
	}
}

func jsightSchema(s *S, env *TypeEnv) map[string]J {
	m := map[string]J{"content": s.Image(env, nil, false), "example": ExampleJ{s.Example(env, 0)}, "notation": "jsight"}
	if u := s.UsedTypes(env); len(u) > 0 {
		m["usedUserTypes"] = SetJ{u}
	}
	return m
}

func regexSchema(pattern string) map[string]J {
	return map[string]J{"content": pattern, "example": RegexHole{pattern}, "notation": "regex"}
}

func bodyImage(b Body, env *TypeEnv) map[string]J {
	switch b.Kind {
	case "any", "empty":
		return map[string]J{"format": "binary", "schema": map[string]J{"notation": b.Kind}}
	case "regex":
		return map[string]J{"format": "plainString", "schema": regexSchema(b.Regex)}
	case "type":
		return map[string]J{"format": "json", "schema": jsightSchema(&S{K: "ref", Ref: b.Type}, env)}
	case "typearray":
		return map[string]J{"format": "json", "schema": jsightSchema(&S{K: "arr", Items: []*S{{K: "ref", Ref: b.Type}}}, env)}
	}
	return map[string]J{"format": "json", "schema": jsightSchema(b.Schema, env)}
}

func pathTagName(path string) (name, title string) {
	for _, seg := range strings.Split(path, "/") {
		if seg != "" && seg != "." {
			// the name must be a legal identifier and different for different segments: "_" is doubled, every byte outside the
			// unreserved URL characters is written as "_XX"
			var sb strings.Builder
			for i := 0; i < len(seg); i++ {
				c := seg[i]
				switch {
				case c == '_':
					sb.WriteString("__")
				case c >= 'a' && c <= 'z', c >= 'A' && c <= 'Z', c >= '0' && c <= '9', strings.IndexByte("-.~$&+:=@", c) >= 0:
					sb.WriteByte(c)
				default:
					sb.WriteString(fmt.Sprintf("_%02X", c))
				}
			}
			return "@" + sb.String(), "/" + seg
		}
	}
	return "@_", "/"
}

// Expect builds the catalog the model stands for.
func (m *Model) Expect() *Expected {
	env := m.Env()
	ex := &Expected{Top: map[string]J{"jsight": "0.3", "jdocExchangeVersion": "2.0.0"}, Order: map[string][]string{}}
	tags := map[string]map[string]J{}
	tagGroups := map[string]map[string][]J{} // tag -> protocol -> ids
	explicitTag := map[string]bool{}
	for _, it := range m.Items {
		if it.Kind == "tag" {
			t := map[string]J{"name": it.Tag.Name, "title": it.Tag.Name}
			if it.Tag.Annotation != "" {
				t["title"] = it.Tag.Annotation
			}
			if it.Tag.Description != nil {
				t["description"] = strings.Join(it.Tag.Description, "\n")
			}
			tags[it.Tag.Name] = t
			tagGroups[it.Tag.Name] = map[string][]J{}
			explicitTag[it.Tag.Name] = true
			ex.Order["tags:explicit"] = append(ex.Order["tags:explicit"], it.Tag.Name)
		}
	}
	// path parameter definitions are global: keyed by the path prefix that ends with the parameter
	defs := map[string]Prop{}
	for _, it := range m.Items {
		if it.Kind != "group" {
			continue
		}
		segs := strings.Split(strings.Trim(it.Group.Path, "/"), "/")
		for _, d := range it.Group.PathDefs {
			pre := ""
			for _, s := range segs {
				if pre == "" {
					pre = s
				} else {
					pre += "/" + s
				}
				if s == "{"+d.Key+"}" {
					defs[pre] = d
					break
				}
			}
		}
	}
	servers, types, enums, inter := map[string]J{}, map[string]J{}, map[string]J{}, map[string]J{}
	addTagUse := func(tagsOf []string, path, proto, id string) []J {
		var names []J
		if tagsOf == nil {
			n, title := pathTagName(path)
			if _, ok := tags[n]; !ok {
				tags[n] = map[string]J{"name": n, "title": title}
				tagGroups[n] = map[string][]J{}
				ex.Order["tags:path"] = append(ex.Order["tags:path"], n)
			}
			tagsOf = []string{n}
		}
		for _, t := range tagsOf {
			names = append(names, t)
			tagGroups[t][proto] = append(tagGroups[t][proto], id)
		}
		return names
	}
	for _, it := range m.Items {
		switch it.Kind {
		case "info":
			inf := map[string]J{}
			strp(inf, "title", m.Info.Title)
			strp(inf, "version", m.Info.Version)
			if m.Info.Description != nil {
				inf["description"] = strings.Join(m.Info.Description, "\n")
			}
			ex.Top["info"] = inf
		case "server":
			s := map[string]J{"baseUrl": it.Server.BaseURL}
			strp(s, "annotation", it.Server.Annotation)
			servers[it.Server.Name] = s
			ex.Order["servers"] = append(ex.Order["servers"], it.Server.Name)
		case "enum":
			var ch []J
			for _, v := range it.Enum.Values {
				c := map[string]J{"tokenType": "string", "scalarValue": v.Lit}
				strp(c, "note", v.Note)
				ch = append(ch, c)
			}
			enums[it.Enum.Name] = map[string]J{"annotation": it.Enum.Annotation, "description": "", "value": map[string]J{"tokenType": "array", "children": ch}}
			ex.Order["userEnums"] = append(ex.Order["userEnums"], it.Enum.Name)
		case "type":
			t := it.Type
			tm := map[string]J{}
			strp(tm, "annotation", t.Annotation)
			switch t.Notation {
			case "jsight":
				tm["schema"] = jsightSchema(t.Schema, env)
			case "regex":
				tm["schema"] = regexSchema(t.Regex)
			default:
				tm["schema"] = map[string]J{"notation": t.Notation}
			}
			types[t.Name] = tm
			ex.Order["userTypes"] = append(ex.Order["userTypes"], t.Name)
		case "group":
			g := it.Group
			for i := range g.RPC {
				rm := &g.RPC[i]
				id := "json-rpc-2.0 " + rm.Name + " " + g.Path
				im := map[string]J{"id": id, "protocol": "json-rpc-2.0", "path": g.Path, "method": rm.Name}
				strp(im, "annotation", rm.Annotation)
				if rm.Description != nil {
					im["description"] = strings.Join(rm.Description, "\n")
				}
				if rm.Params != nil {
					im["params"] = map[string]J{"schema": jsightSchema(rm.Params, env)}
				}
				if rm.Result != nil {
					im["result"] = map[string]J{"schema": jsightSchema(rm.Result, env)}
				}
				im["tags"] = addTagUse(rm.Tags, g.Path, "json-rpc-2.0", id)
				inter[id] = im
				ex.Order["interactions"] = append(ex.Order["interactions"], id)
			}
			for i := range g.Methods {
				me := &g.Methods[i]
				id := "http " + me.Verb + " " + g.Path
				im := map[string]J{"id": id, "protocol": "http", "httpMethod": me.Verb, "path": g.Path}
				strp(im, "annotation", me.Annotation)
				if me.Description != nil {
					im["description"] = strings.Join(me.Description, "\n")
				}
				tg := me.Tags
				if tg == nil {
					tg = g.URLTags
				}
				im["tags"] = addTagUse(tg, g.Path, "http", id)
				// path variables
				var children []J
				pvUsed := map[string]bool{}
				pre := ""
				for _, s := range strings.Split(strings.Trim(g.Path, "/"), "/") {
					if pre == "" {
						pre = s
					} else {
						pre += "/" + s
					}
					if strings.HasPrefix(s, "{") && strings.HasSuffix(s, "}") {
						name := strings.Trim(s, "{}")
						if d, ok := defs[pre]; ok {
							k := name
							children = append(children, d.V.Image(env, &k, false))
							for _, u := range d.V.UsedTypes(env) {
								pvUsed[u] = true
							}
						} else {
							children = append(children, map[string]J{"key": name, "tokenType": "string", "type": "any", "scalarValue": "", "optional": false,
								"rules": []J{map[string]J{"key": "type", "tokenType": "string", "scalarValue": "any"}}})
						}
					}
				}
				if len(children) > 0 {
					pv := map[string]J{"notation": "jsight",
						"content": map[string]J{"tokenType": "object", "type": "object", "optional": false, "children": children}}
					if len(pvUsed) > 0 {
						var u []string
						for k := range pvUsed {
							u = append(u, k)
						}
						sort.Strings(u)
						pv["usedUserTypes"] = SetJ{u}
					}
					im["pathVariables"] = map[string]J{"schema": pv}
				}
				if q := me.Query; q != nil {
					qm := map[string]J{"format": "htmlFormEncoded", "schema": jsightSchema(q.Schema, env)}
					if q.Format != "" {
						qm["format"] = q.Format
					}
					strp(qm, "example", q.Example)
					im["query"] = qm
				}
				if rq := me.Request; rq != nil {
					rm := map[string]J{"body": bodyImage(rq.Body, env)}
					if rq.Headers != nil {
						rm["headers"] = map[string]J{"schema": jsightSchema(rq.Headers, env)}
					}
					im["request"] = rm
				}
				var rs []J
				for k := range me.Responses {
					r := &me.Responses[k]
					rm := map[string]J{"code": r.Code, "body": bodyImage(r.Body, env)}
					strp(rm, "annotation", r.Annotation)
					if r.Headers != nil {
						rm["headers"] = map[string]J{"schema": jsightSchema(r.Headers, env)}
					}
					rs = append(rs, rm)
				}
				im["responses"] = rs
				inter[id] = im
				ex.Order["interactions"] = append(ex.Order["interactions"], id)
			}
		}
	}
	tagsTop := map[string]J{}
	for n, t := range tags {
		groups := []J{}
		for _, p := range []string{"http", "json-rpc-2.0"} {
			if ids := tagGroups[n][p]; len(ids) > 0 {
				groups = append(groups, map[string]J{"protocol": p, "interactions": ids})
			}
		}
		t["interactionGroups"] = groups
		tagsTop[n] = t
	}
	ex.Top["tags"] = tagsTop
	ex.Top["interactions"] = inter
	if len(servers) > 0 {
		ex.Top["servers"] = servers
	}
	if len(types) > 0 {
		ex.Top["userTypes"] = types
	}
	if len(enums) > 0 {
		ex.Top["userEnums"] = enums
	}
	return ex
}

// ---- comparison ----

type Diff struct {
	Path string
	Kind string // missing extra value type order example
	Msg  string
}

func (d Diff) String() string { return d.Kind + " at " + d.Path + ": " + d.Msg }

// Compare checks an actual catalog (parsed order-preserving) against the expectation.
func (ex *Expected) Compare(actual interface{}) []Diff {
	var out []Diff
	cmp("", ex.Top, actual, &out)
	top, _ := actual.(*ref.Obj)
	if top != nil {
		checkOrder := func(section string, origin string, o *ref.Obj) {
			if o == nil {
				return
			}
			want := ex.Order[origin]
			pos := map[string]int{}
			for i, k := range o.Keys {
				pos[k] = i
			}
			for i := 1; i < len(want); i++ {
				a, b := want[i-1], want[i]
				pa, oka := pos[a]
				pb, okb := pos[b]
				if oka && okb && pa > pb && len(out) < 12 {
					out = append(out, Diff{section, "order", fmt.Sprintf("%q must come before %q", a, b)})
				}
			}
		}
		checkOrder("userTypes", "userTypes", top.Obj("userTypes"))
		checkOrder("userEnums", "userEnums", top.Obj("userEnums"))
		checkOrder("servers", "servers", top.Obj("servers"))
		checkOrder("interactions", "interactions", top.Obj("interactions"))
		checkOrder("tags", "tags:explicit", top.Obj("tags"))
		checkOrder("tags", "tags:path", top.Obj("tags"))
	}
	return out
}

func add(out *[]Diff, d Diff) {
	if len(*out) < 12 {
		*out = append(*out, d)
	}
}

func cmp(path string, want J, got interface{}, out *[]Diff) {
	switch w := want.(type) {
	case map[string]J:
		g, ok := got.(*ref.Obj)
		if !ok {
			add(out, Diff{path, "type", fmt.Sprintf("expected an object, got %s", short(got))})
			return
		}
		keys := make([]string, 0, len(w))
		for k := range w {
			keys = append(keys, k)
		}
		sort.Strings(keys)
		for _, k := range keys {
			gv, ok := g.M[k]
			if !ok {
				add(out, Diff{path + "/" + k, "missing", fmt.Sprintf("expected %s", short(w[k]))})
				continue
			}
			cmp(path+"/"+k, w[k], gv, out)
		}
		for _, k := range g.Keys {
			if _, ok := w[k]; !ok {
				add(out, Diff{path + "/" + k, "extra", fmt.Sprintf("not in the model: %s", short(g.M[k]))})
			}
		}
	case []J:
		g, ok := got.([]interface{})
		if !ok {
			add(out, Diff{path, "type", fmt.Sprintf("expected an array, got %s", short(got))})
			return
		}
		if len(g) != len(w) {
			add(out, Diff{path, "value", fmt.Sprintf("expected %d elements, got %d: %s", len(w), len(g), short(got))})
			return
		}
		for i := range w {
			cmp(fmt.Sprintf("%s[%d]", path, i), w[i], g[i], out)
		}
	case SetJ:
		g, ok := got.([]interface{})
		if !ok {
			add(out, Diff{path, "type", "expected an array of names"})
			return
		}
		var gs []string
		for _, x := range g {
			s, _ := x.(string)
			gs = append(gs, s)
		}
		sort.Strings(gs)
		ws := append([]string(nil), w.V...)
		sort.Strings(ws)
		if strings.Join(gs, ",") != strings.Join(ws, ",") {
			add(out, Diff{path, "value", fmt.Sprintf("expected the set %v, got %v", ws, gs)})
		}
	case ExampleJ:
		gs, ok := got.(string)
		if !ok {
			add(out, Diff{path, "type", "example is not a string"})
			return
		}
		gv, err := ref.ParseJSON([]byte(gs))
		if err != nil {
			add(out, Diff{path, "example", "example is not JSON: " + gs})
			return
		}
		if msg := cmpExample(w.V, gv); msg != "" {
			add(out, Diff{path, "example", msg + " in " + gs})
		}
	case RegexHole:
		gs, ok := got.(string)
		if !ok {
			add(out, Diff{path, "type", "regex example is not a string"})
			return
		}
		if !matchRegex(w.Pattern, gs) {
			add(out, Diff{path, "example", fmt.Sprintf("%q does not match /%s/", gs, w.Pattern)})
		}
	case string:
		gs, ok := got.(string)
		if !ok || gs != w {
			add(out, Diff{path, "value", fmt.Sprintf("expected %q, got %s", w, short(got))})
		}
	case bool:
		gb, ok := got.(bool)
		if !ok || gb != w {
			add(out, Diff{path, "value", fmt.Sprintf("expected %v, got %s", w, short(got))})
		}
	case nil:
		if got != nil {
			add(out, Diff{path, "value", "expected null"})
		}
	default:
		add(out, Diff{path, "type", fmt.Sprintf("harness: unexpected expectation type %T", want)})
	}
}

func matchRegex(pattern, s string) bool {
	re, err := regexp.Compile("^(?:" + pattern + ")$")
	if err != nil {
		return true
	}
	return re.MatchString(s)
}

// cmpExample compares an expected example value with a parsed one; objects are compared without regard to key order.
func cmpExample(want J, got interface{}) string {
	switch w := want.(type) {
	case map[string]J:
		g, ok := got.(*ref.Obj)
		if !ok {
			return "object expected"
		}
		if len(g.Keys) != len(w) {
			return fmt.Sprintf("object with keys %v expected, got %v", keysOf(w), g.Keys)
		}
		for k, v := range w {
			gv, ok := g.M[k]
			if !ok {
				return "key " + k + " missing"
			}
			if msg := cmpExample(v, gv); msg != "" {
				return k + ": " + msg
			}
		}
	case []J:
		g, ok := got.([]interface{})
		if !ok || len(g) != len(w) {
			return "array of the same length expected"
		}
		for i := range w {
			if msg := cmpExample(w[i], g[i]); msg != "" {
				return fmt.Sprintf("[%d]: %s", i, msg)
			}
		}
	case RegexHole:
		gs, ok := got.(string)
		if !ok || !matchRegex(w.Pattern, gs) {
			return fmt.Sprintf("a string matching /%s/ expected, got %s", w.Pattern, short(got))
		}
	case string:
		if gs, ok := got.(string); !ok || gs != w {
			return fmt.Sprintf("%q expected, got %s", w, short(got))
		}
	case json.Number:
		gn, ok := got.(json.Number)
		if !ok || gn.String() != w.String() {
			return fmt.Sprintf("%s expected, got %s", w, short(got))
		}
	case bool:
		if gb, ok := got.(bool); !ok || gb != w {
			return fmt.Sprintf("%v expected, got %s", w, short(got))
		}
	case nil:
		if got != nil {
			return "null expected, got " + short(got)
		}
	}
	return ""
}

func keysOf(m map[string]J) []string {
	var ks []string
	for k := range m {
		ks = append(ks, k)
	}
	sort.Strings(ks)
	return ks
}

func short(v interface{}) string {
	var s string
	switch x := v.(type) {
	case *ref.Obj, []interface{}:
		s = ref.Compact(x)
	default:
		b, _ := json.Marshal(v)
		s = string(b)
	}
	if len(s) > 160 {
		s = s[:160] + "…"
	}
	return s
}
