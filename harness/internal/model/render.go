package model

import (
	"fmt"
	"math/rand"
	"strings"

	"verifharness/internal/ref"
)

// RDir is a directive of the document to be rendered.
type RDir struct {
	Kind       string // directive kind as in the context table (HTTP-response-code for codes)
	Keyword    string
	Params     []string // parameter values (unquoted)
	MustQuote  []bool   // parameter needs quotes (contains blanks)
	Annotation string
	BodyKind   string   // "" schema regex enum text
	BodyLines  []string // body text, relative indentation kept
	Children   []*RDir
	HasPath    bool // HTTP method written with its own path

	// layout decisions
	Explicit bool

	// filled by the renderer
	File string
	Line int // 1-based line of the keyword
	// BodyShift: lines between the keyword line and the first line of the body beyond the usual none (1 when the body stands
	// in parentheses of its own)
	BodyShift int
	ID        int
	// Origin: what the directive stands for (for fault injection and diagnostics)
	Origin string
}

func (d *RDir) add(c *RDir) *RDir { d.Children = append(d.Children, c); return c }

// Layout holds the independent layout choices of one rendering.
type Layout struct {
	Unit          string // indentation unit
	EOL           string
	R             *rand.Rand
	Comments      bool // insert blank lines, # comments and ### blocks between directives
	Trailing      bool // trailing blanks
	QuoteAll      bool // quote every parameter that may be quoted
	BlockAnn      bool // /* */ annotations
	TightAnn      bool // no blanks between the annotation signs and the text: /*text*/, //text
	ExplicitP     int  // probability (percent) that a directive with children gets an explicit context
	URLExtrasLast bool // the URL-level Tags and Path directives stand after the methods
	ExplicitAlt   int  // 1 / 2: among the siblings that have children the even / odd ones get an explicit context
	Standalone    int  // probability (percent) that a path group with a single method is written as METHOD /path
	Macros        bool
	Includes      bool
	FlatIndent    bool // no indentation at all
	BodyParens    bool // the body of a directive without children may stand in parentheses of its own
	Gaps          bool // several blanks or tabs between the tokens of a directive line and around the annotation text
}

func RandomLayout(r *rand.Rand) *Layout {
	l := &Layout{R: r}
	l.Unit = []string{"  ", "    ", "\t", "  "}[r.Intn(4)]
	l.EOL = []string{"\n", "\n", "\r\n", "\r"}[r.Intn(4)]
	l.Comments = r.Intn(2) == 0
	l.Trailing = r.Intn(3) == 0
	l.QuoteAll = r.Intn(3) == 0
	l.BlockAnn = r.Intn(3) == 0
	l.TightAnn = r.Intn(4) == 0
	l.ExplicitP = []int{0, 30, 100, 50}[r.Intn(4)]
	l.Standalone = []int{0, 50, 100}[r.Intn(3)]
	l.Gaps = r.Intn(3) == 0
	l.BodyParens = r.Intn(3) == 0
	l.Macros = r.Intn(3) == 0
	l.Includes = r.Intn(3) == 0
	l.FlatIndent = r.Intn(5) == 0
	return l
}

// PlainLayout is the canonical layout (LF, two blanks, implicit where unambiguous, no comments/macros/includes).
func PlainLayout() *Layout {
	return &Layout{Unit: "  ", EOL: "\n", R: rand.New(rand.NewSource(1))}
}

func schemaBody(s *S) (string, []string) { return "schema", s.Lines("  ") }

func bodyParams(b Body) (params []string, kind string, lines []string) {
	switch b.Kind {
	case "any", "empty":
		return []string{b.Kind}, "", nil
	case "type":
		return []string{b.Type}, "", nil
	case "typearray":
		return []string{"[" + b.Type + "]"}, "", nil
	case "regex":
		return []string{"regex"}, "regex", []string{"/" + b.Regex + "/"}
	}
	k, l := schemaBody(b.Schema)
	return nil, k, l
}

func descDir(lines []string) *RDir {
	return &RDir{Kind: "Description", Keyword: "Description", BodyKind: "text", BodyLines: lines, Origin: "description"}
}

// Tree turns the model into a directive tree under the layout's structural choices (URL grouping, Body as directive).
func (m *Model) Tree(l *Layout) []*RDir {
	roots := []*RDir{{Kind: "JSIGHT", Keyword: "JSIGHT", Params: []string{"0.3"}, Origin: "jsight"}}
	for _, it := range m.Items {
		switch it.Kind {
		case "info":
			d := &RDir{Kind: "INFO", Keyword: "INFO", Origin: "info"}
			if m.Info.Title != "" {
				d.add(&RDir{Kind: "Title", Keyword: "Title", Params: []string{m.Info.Title}, MustQuote: []bool{true}, Origin: "title"})
			}
			if m.Info.Version != "" {
				d.add(&RDir{Kind: "Version", Keyword: "Version", Params: []string{m.Info.Version}, Origin: "version"})
			}
			if m.Info.Description != nil {
				d.add(descDir(m.Info.Description))
			}
			roots = append(roots, d)
		case "server":
			d := &RDir{Kind: "SERVER", Keyword: "SERVER", Params: []string{it.Server.Name}, Annotation: it.Server.Annotation, Origin: "server:" + it.Server.Name}
			d.add(&RDir{Kind: "BaseUrl", Keyword: "BaseUrl", Params: []string{it.Server.BaseURL}, MustQuote: []bool{true}, Origin: "baseurl"})
			roots = append(roots, d)
		case "tag":
			d := &RDir{Kind: "TAG", Keyword: "TAG", Params: []string{it.Tag.Name}, Annotation: it.Tag.Annotation, Origin: "tag:" + it.Tag.Name}
			if it.Tag.Description != nil {
				d.add(descDir(it.Tag.Description))
			}
			roots = append(roots, d)
		case "enum":
			d := &RDir{Kind: "ENUM", Keyword: "ENUM", Params: []string{it.Enum.Name}, Annotation: it.Enum.Annotation, BodyKind: "enum", Origin: "enum:" + it.Enum.Name}
			d.BodyLines = append(d.BodyLines, "[")
			for i, v := range it.Enum.Values {
				ln := fmt.Sprintf("  %q", v.Lit)
				if i < len(it.Enum.Values)-1 {
					ln += ","
				}
				if v.Note != "" {
					ln += " // " + v.Note
				}
				d.BodyLines = append(d.BodyLines, ln)
			}
			d.BodyLines = append(d.BodyLines, "]")
			roots = append(roots, d)
		case "type":
			t := it.Type
			d := &RDir{Kind: "TYPE", Keyword: "TYPE", Params: []string{t.Name}, Annotation: t.Annotation, Origin: "type:" + t.Name}
			switch t.Notation {
			case "jsight":
				if l.R.Intn(4) == 0 {
					d.Params = append(d.Params, "jsight")
				}
				d.BodyKind, d.BodyLines = schemaBody(t.Schema)
			case "regex":
				d.Params = append(d.Params, "regex")
				d.BodyKind, d.BodyLines = "regex", []string{"/" + t.Regex + "/"}
			default:
				d.Params = append(d.Params, t.Notation)
			}
			roots = append(roots, d)
		case "group":
			roots = append(roots, m.groupTree(it.Group, l)...)
		}
	}
	return roots
}

func tagsDir(tags []string) *RDir {
	return &RDir{Kind: "Tags", Keyword: "Tags", Params: append([]string(nil), tags...), Origin: "tags"}
}

func pathDir(defs []Prop) *RDir {
	s := &S{K: "obj", Props: defs}
	return &RDir{Kind: "Path", Keyword: "Path", BodyKind: "schema", BodyLines: s.Lines("  "), Origin: "path"}
}

func (m *Model) methodDir(me *Method, path string, withPath bool) *RDir {
	d := &RDir{Kind: me.Verb, Keyword: me.Verb, Annotation: me.Annotation, Origin: "method:" + me.Verb + " " + path}
	if withPath {
		d.Params, d.HasPath = []string{path}, true
	}
	if me.Description != nil {
		d.add(descDir(me.Description))
	}
	if me.OperationID != "" {
		d.add(&RDir{Kind: "OperationId", Keyword: "OperationId", Params: []string{me.OperationID}, Origin: "operationid"})
	}
	if me.Tags != nil {
		d.add(tagsDir(me.Tags))
	}
	if q := me.Query; q != nil {
		qd := &RDir{Kind: "Query", Keyword: "Query", Origin: "query"}
		if q.Example != "" {
			qd.Params, qd.MustQuote = append(qd.Params, q.Example), append(qd.MustQuote, true)
		}
		if q.Format != "" {
			qd.Params, qd.MustQuote = append(qd.Params, q.Format), append(qd.MustQuote, false)
		}
		qd.BodyKind, qd.BodyLines = schemaBody(q.Schema)
		d.add(qd)
	}
	if rq := me.Request; rq != nil {
		rd := &RDir{Kind: "Request", Keyword: "Request", Origin: "request"}
		if rq.BodyAsDirective {
			if rq.Headers != nil {
				h := &RDir{Kind: "Headers", Keyword: "Headers", Origin: "request-headers"}
				h.BodyKind, h.BodyLines = schemaBody(rq.Headers)
				rd.add(h)
			}
			b := &RDir{Kind: "Body", Keyword: "Body", Origin: "request-body"}
			b.Params, b.BodyKind, b.BodyLines = bodyParams(rq.Body)
			rd.add(b)
		} else {
			rd.Params, rd.BodyKind, rd.BodyLines = bodyParams(rq.Body)
		}
		d.add(rd)
	}
	for i := range me.Responses {
		rs := &me.Responses[i]
		rd := &RDir{Kind: "HTTP-response-code", Keyword: rs.Code, Annotation: rs.Annotation, Origin: "response:" + rs.Code}
		if rs.BodyAsDirective {
			if rs.Headers != nil {
				h := &RDir{Kind: "Headers", Keyword: "Headers", Origin: "response-headers"}
				h.BodyKind, h.BodyLines = schemaBody(rs.Headers)
				rd.add(h)
			}
			b := &RDir{Kind: "Body", Keyword: "Body", Origin: "response-body"}
			b.Params, b.BodyKind, b.BodyLines = bodyParams(rs.Body)
			rd.add(b)
		} else {
			rd.Params, rd.BodyKind, rd.BodyLines = bodyParams(rs.Body)
		}
		d.add(rd)
	}
	return d
}

func (m *Model) groupTree(g *PathGroup, l *Layout) []*RDir {
	if len(g.RPC) > 0 {
		u := &RDir{Kind: "URL", Keyword: "URL", Params: []string{g.Path}, Origin: "url:" + g.Path}
		u.add(&RDir{Kind: "Protocol", Keyword: "Protocol", Params: []string{"json-rpc-2.0"}, Origin: "protocol"})
		for i := range g.RPC {
			rm := &g.RPC[i]
			md := &RDir{Kind: "Method", Keyword: "Method", Params: []string{rm.Name}, Annotation: rm.Annotation, Origin: "rpc:" + rm.Name}
			if rm.Description != nil {
				md.add(descDir(rm.Description))
			}
			if rm.Tags != nil {
				md.add(tagsDir(rm.Tags))
			}
			if rm.Params != nil {
				p := &RDir{Kind: "Params", Keyword: "Params", Origin: "params"}
				p.BodyKind, p.BodyLines = schemaBody(rm.Params)
				md.add(p)
			}
			if rm.Result != nil {
				p := &RDir{Kind: "Result", Keyword: "Result", Origin: "result"}
				p.BodyKind, p.BodyLines = schemaBody(rm.Result)
				md.add(p)
			}
			u.add(md)
		}
		// the Protocol directive may stand anywhere among the methods of its URL (a layout choice): first, last, in between
		if l.R != nil && len(u.Children) > 1 && l.R.Intn(2) == 0 {
			proto := u.Children[0]
			rest := append([]*RDir(nil), u.Children[1:]...)
			at := 1 + l.R.Intn(len(rest))
			kids := append([]*RDir(nil), rest[:at]...)
			kids = append(kids, proto)
			u.Children = append(kids, rest[at:]...)
		}
		return []*RDir{u}
	}
	standalone := l.R.Intn(100) < l.Standalone
	if standalone {
		var out []*RDir
		for i := range g.Methods {
			me := g.Methods[i] // copy
			if me.Tags == nil && g.URLTags != nil {
				me.Tags = g.URLTags
			}
			d := m.methodDir(&me, g.Path, true)
			if i == 0 && len(g.PathDefs) > 0 {
				d.Children = append([]*RDir{pathDir(g.PathDefs)}, d.Children...)
			}
			out = append(out, d)
		}
		return out
	}
	u := &RDir{Kind: "URL", Keyword: "URL", Params: []string{g.Path}, Origin: "url:" + g.Path}
	for i := range g.Methods {
		u.add(m.methodDir(&g.Methods[i], g.Path, false))
	}
	// the URL-level Path and Tags directives may stand anywhere among the methods (parentheses are added where the
	// implicit nesting would otherwise hand them to a method)
	insert := func(d *RDir) {
		at := 0
		if l.R.Intn(3) == 0 {
			at = l.R.Intn(len(u.Children) + 1)
		}
		if l.URLExtrasLast {
			at = len(u.Children) // after the last method: what closes that method decides who gets the directive
		}
		kids := append([]*RDir(nil), u.Children[:at]...)
		kids = append(kids, d)
		u.Children = append(kids, u.Children[at:]...)
	}
	if g.URLTags != nil {
		insert(tagsDir(g.URLTags))
	}
	if len(g.PathDefs) > 0 {
		insert(pathDir(g.PathDefs))
	}
	return []*RDir{u}
}

// ---- tokens (ground truth) ----

type Token struct {
	Type  string // keyword property annotation schema text enum context-opening context-closing
	File  string
	Begin int
	End   int
	Line  int
	Dir   int // id of the directive the token belongs to
	Text  string
}

type Rendered struct {
	Files  map[string][]byte
	Root   string
	Tokens map[string][]Token // per file, in text order
	Dirs   []*RDir            // all directives in document order (pre-order), positions filled
	Layout map[string]string  // histogram keys of the choices made
	// Flat is the document-order token sequence used to validate nesting with the reference automaton
	Attach []string // "(parent kind)>(kind)/explicit" triples exercised
}

// block: a unit of text that is never split across files.
type block struct {
	lines  []string // without line terminators
	tokens []Token  // Begin/End relative to the block text joined with "\n" (single-byte EOL placeholder), Line relative (0-based)
	dir    *RDir
	paren  int // +1 "(" block, -1 ")" block
	depth  int
	macro  int // >0: belongs to the body of macro definition #n (not splittable by includes)
}

func needsQuote(p string) bool {
	return p == "" || strings.ContainsAny(p, " \t#\"\\") || strings.HasPrefix(p, "//") || strings.HasPrefix(p, "/*")
}

func quote(p string) string {
	return "\"" + strings.ReplaceAll(strings.ReplaceAll(p, "\\", "\\\\"), "\"", "\\\"") + "\""
}

// flatten assigns explicit flags so that the implicit nesting is exactly the intended tree (checked with the reference automaton).
func decideExplicit(roots []*RDir, l *Layout, keep bool) {
	var all []*RDir
	var walk func(d *RDir, nth int)
	walk = func(d *RDir, nth int) {
		all = append(all, d)
		if !keep {
			d.Explicit = false
		}
		if len(d.Children) > 0 && d.Kind != "Description" && !d.Explicit && (!keep || d.Kind == "MACRO") && l.R.Intn(100) < l.ExplicitP {
			d.Explicit = true
		}
		// every second sibling that has children: an implicit context followed by an explicit one, and the other way round
		if l.ExplicitAlt != 0 && len(d.Children) > 0 && d.Kind != "Description" && !keep && nth%2 == l.ExplicitAlt-1 {
			d.Explicit = true
		}
		k := 0
		for _, c := range d.Children {
			walk(c, k)
			if len(c.Children) > 0 {
				k++
			}
		}
	}
	k := 0
	for _, d := range roots {
		walk(d, k)
		if len(d.Children) > 0 {
			k++
		}
	}
	for iter := 0; iter < len(all)+2; iter++ {
		toks, owners := flattenTokens(roots)
		v := ref.RunContext(toks)
		// intended parents
		bad := -1
		if !v.OK {
			bad = v.ErrAt
		} else {
			idx := map[*RDir]int{}
			n := 0
			for ti, o := range owners {
				if o != nil && !toks[ti].Close {
					idx[o] = n
					n++
				}
			}
			parentOf := map[*RDir]*RDir{}
			var setP func(d *RDir, p *RDir)
			setP = func(d *RDir, p *RDir) {
				parentOf[d] = p
				for _, c := range d.Children {
					setP(c, d)
				}
			}
			for _, d := range roots {
				setP(d, nil)
			}
			n = 0
			for ti, o := range owners {
				if o == nil || toks[ti].Close {
					continue
				}
				want := -1
				if p := parentOf[o]; p != nil {
					want = idx[p]
				}
				if v.Parents[n] != want {
					bad = ti
					break
				}
				n++
			}
		}
		if bad < 0 {
			return
		}
		// make the closest preceding sibling-or-ancestor with children explicit: walk back in document order
		fixed := false
		for ti := bad - 1; ti >= 0 && !fixed; ti-- {
			o := owners[ti]
			if o != nil && !toks[ti].Close && len(o.Children) > 0 && !o.Explicit && o.Kind != "Description" {
				o.Explicit = true
				fixed = true
			}
		}
		if !fixed {
			// last resort: everything explicit
			for _, d := range all {
				if len(d.Children) > 0 && d.Kind != "Description" {
					d.Explicit = true
				}
			}
		}
	}
}

func flattenTokens(roots []*RDir) ([]ref.CtxToken, []*RDir) {
	var toks []ref.CtxToken
	var owners []*RDir
	var walk func(d *RDir)
	walk = func(d *RDir) {
		toks = append(toks, ref.CtxToken{Kind: d.Kind, HasPath: d.HasPath, Explicit: d.Explicit})
		owners = append(owners, d)
		for _, c := range d.Children {
			walk(c)
		}
		if d.Explicit {
			toks = append(toks, ref.CtxToken{Close: true})
			owners = append(owners, d)
		}
	}
	for _, d := range roots {
		walk(d)
	}
	return toks, owners
}

// dirBlock renders one directive's own text (header and body) as a block with relative tokens.
func dirBlock(d *RDir, depth int, l *Layout) block {
	ind := strings.Repeat(l.Unit, depth)
	if l.FlatIndent {
		ind = ""
	}
	b := block{dir: d, depth: depth}
	line := ind + d.Keyword
	off := 0 // offset of the current line start within the block text
	addTok := func(typ string, begin, end, ln int, text string) {
		b.tokens = append(b.tokens, Token{Type: typ, Begin: begin, End: end, Line: ln, Dir: d.ID, Text: text})
	}
	addTok("keyword", len(ind), len(ind)+len(d.Keyword)-1, 0, d.Keyword)
	for i, p := range d.Params {
		must := needsQuote(p) || (i < len(d.MustQuote) && d.MustQuote[i] && strings.ContainsAny(p, " "))
		q := p
		if must || (l.QuoteAll && l.R.Intn(2) == 0) || (i < len(d.MustQuote) && d.MustQuote[i] && l.R.Intn(2) == 0) {
			q = quote(p)
		}
		sep := " "
		if l.Trailing && l.R.Intn(3) == 0 {
			sep = "  "
		}
		if l.Gaps {
			sep = []string{" ", "  ", "\t", " \t", "    ", "\t\t"}[l.R.Intn(6)]
		}
		line += sep
		addTok("property", len(line), len(line)+len(q)-1, 0, q)
		line += q
	}
	if d.Annotation != "" {
		pre, in1, in2 := " ", " ", " "
		if l.Gaps {
			pre = []string{" ", "  ", "\t", "   \t"}[l.R.Intn(4)]
			in1 = []string{"", " ", "   ", "\t"}[l.R.Intn(4)]
			in2 = []string{"", " ", "  ", "\t "}[l.R.Intn(4)]
		}
		if l.TightAnn {
			in1, in2 = "", ""
		}
		if l.BlockAnn {
			line += pre + "/*" + in1
			addTok("annotation", len(line), len(line)+len(d.Annotation)-1, 0, d.Annotation)
			line += d.Annotation + in2 + "*/"
		} else {
			line += pre + "//" + in1
			addTok("annotation", len(line), len(line)+len(d.Annotation)-1, 0, d.Annotation)
			line += d.Annotation
			if l.Gaps {
				line += in2
			}
		}
	} else if l.Trailing && l.R.Intn(3) == 0 {
		line += "  "
	}
	b.lines = append(b.lines, line)
	off = len(line) + 1
	if d.BodyKind != "" {
		bind := ind + l.Unit
		if l.FlatIndent {
			bind = ""
		}
		// empty lines and lines of blanks around a Description text are not part of it: between the keyword and the text or
		// its opening parenthesis, after that parenthesis, before the closing one
		blankLines := func() {
			if d.BodyKind != "text" || l.R.Intn(4) != 0 {
				return
			}
			for n := 1 + l.R.Intn(2); n > 0; n-- {
				ln := []string{"", "   ", "\t", bind + "  ", " "}[l.R.Intn(5)]
				b.lines = append(b.lines, ln)
				off += len(ln) + 1
			}
		}
		blankLines()
		if d.BodyKind == "text" && l.R.Intn(3) == 0 {
			// Description text in parentheses
			b.lines = append(b.lines, bind+"(")
			off += len(bind) + 2
			blankLines()
			start := off
			for _, bl := range d.BodyLines {
				ln := bind + l.Unit + bl
				b.lines = append(b.lines, ln)
				off += len(ln) + 1
			}
			_ = start
			blankLines()
			b.lines = append(b.lines, bind+")")
			off += len(bind) + 2
			// the text lexeme spans from the line after the header to the closing parenthesis: compared after trimming
			addTok("text", len(line)+1, off-2, 1, strings.Join(d.BodyLines, "\n"))
			return b
		}
		// the body of a directive may stand in parentheses of its own ("Params", "(", the schema, ")")
		bodyParens := l.BodyParens && d.BodyKind != "text" && len(d.Children) == 0 && !d.Explicit && l.R.Intn(3) == 0
		if bodyParens {
			lineNo := len(b.lines)
			b.lines = append(b.lines, bind+"(")
			addTok("context-opening", off+len(bind), off+len(bind), lineNo, "(")
			off += len(bind) + 2
			if !l.FlatIndent {
				bind += l.Unit
			}
		}
		begin := off + len(bind)
		for i, bl := range d.BodyLines {
			ln := bind + bl
			if l.Trailing && d.BodyKind != "text" && i == len(d.BodyLines)-1 && l.R.Intn(3) == 0 {
				ln += " "
			}
			b.lines = append(b.lines, ln)
			off += len(ln) + 1
		}
		last := b.lines[len(b.lines)-1]
		end := off - 2 - (len(last) - len(strings.TrimRight(last, " \t")))
		bodyLine := 1
		d.BodyShift = 0
		if bodyParens {
			bodyLine = 2
			d.BodyShift = 1
		}
		addTok(d.BodyKind, begin, end, bodyLine, strings.Join(d.BodyLines, "\n"))
		if bodyParens {
			cind := strings.TrimSuffix(bind, l.Unit)
			if l.FlatIndent {
				cind = ""
			}
			lineNo := len(b.lines)
			b.lines = append(b.lines, cind+")")
			addTok("context-closing", off+len(cind), off+len(cind), lineNo, ")")
			off += len(cind) + 2
		}
	}
	return b
}

func parenBlock(d *RDir, depth int, open bool, l *Layout) block {
	ind := strings.Repeat(l.Unit, depth)
	if l.FlatIndent {
		ind = ""
	}
	ch, typ, p := "(", "context-opening", 1
	if !open {
		ch, typ, p = ")", "context-closing", -1
	}
	line := ind + ch
	if l.Trailing && l.R.Intn(3) == 0 {
		line += " "
	}
	return block{lines: []string{line}, dir: d, depth: depth, paren: p, tokens: []Token{{Type: typ, Begin: len(ind), End: len(ind), Line: 0, Dir: d.ID, Text: ch}}}
}

// Render renders the model in the given layout.
func (m *Model) Render(l *Layout) *Rendered {
	roots := m.Tree(l)
	return RenderTree(roots, l)
}

// RenderTree renders a directive tree (possibly modified by a fault injector).
func RenderTree(roots []*RDir, l *Layout) *Rendered {
	rd := &Rendered{Files: map[string][]byte{}, Root: "root.jst", Tokens: map[string][]Token{}, Layout: map[string]string{}}
	// The parentheses are decided on the in-place tree: a macro body is the text that would stand at the call site, so it
	// must carry the parentheses which that text needs there. After the abstraction only the new MACRO directives (and
	// whatever the reference automaton still objects to) get theirs.
	decideExplicit(roots, l, false)
	if l.Macros {
		roots = abstractMacros(roots, l)
		decideExplicit(roots, l, true)
	}
	id := 0
	var blocks []block
	var walk func(d *RDir, depth, macro int)
	walk = func(d *RDir, depth, macro int) {
		id++
		d.ID = id
		rd.Dirs = append(rd.Dirs, d)
		b := dirBlock(d, depth, l)
		b.macro = macro
		blocks = append(blocks, b)
		if d.Explicit {
			pb := parenBlock(d, depth, true, l)
			pb.macro = macro
			blocks = append(blocks, pb)
		}
		for _, c := range d.Children {
			walk(c, depth+1, macro)
		}
		if d.Explicit {
			pb := parenBlock(d, depth, false, l)
			pb.macro = macro
			blocks = append(blocks, pb)
		}
	}
	mac := 0
	for _, d := range roots {
		if d.Kind == "MACRO" {
			mac++
			walk(d, 0, mac)
		} else {
			walk(d, 0, 0)
		}
	}
	// distribute blocks over files
	type piece struct {
		name   string
		blocks []block
		incl   map[int]string // index in blocks -> INCLUDE line to emit before that block (replacing a moved range)
	}
	files := map[string][]interface{}{} // sequence of block or string (include line)
	files["root.jst"] = nil
	assign := make([]string, len(blocks))
	for i := range assign {
		assign[i] = "root.jst"
	}
	type inc struct {
		at   int
		file string
		in   string
	}
	var includes []inc
	if l.Includes {
		nfile := 0
		var split func(lo, hi int, owner string, level int)
		split = func(lo, hi int, owner string, level int) {
			if level > 3 {
				return
			}
			tries := 1 + l.R.Intn(3)
			for t := 0; t < tries; t++ {
				if hi-lo < 2 {
					return
				}
				s := lo + 1 + l.R.Intn(hi-lo-1)
				if lo == 0 && s <= 1 {
					s = 1 // JSIGHT stays in the root file
				}
				e := s + 1 + l.R.Intn(hi-s)
				if e > hi {
					e = hi
				}
				// a piece must start at a directive block, must not start inside a macro body unless wholly inside, be parenthesis balanced
				if blocks[s].paren != 0 || assign[s] != owner {
					continue
				}
				depth, ok := 0, true
				for k := s; k < e; k++ {
					if assign[k] != owner {
						ok = false
						break
					}
					depth += blocks[k].paren
					if depth < 0 {
						ok = false
						break
					}
				}
				if !ok || depth != 0 {
					continue
				}
				if e < len(blocks) && blocks[e].paren == 1 {
					continue // the "(" that follows belongs to the last directive of the piece: not a directive boundary
				}
				hasJsight := false
				for k := s; k < e; k++ {
					if blocks[k].paren == 0 && blocks[k].dir.Kind == "JSIGHT" {
						hasJsight = true // the language forbids JSIGHT in included files
					}
				}
				if hasJsight {
					continue
				}
				// the block that follows a Description text must not become the first line after an INCLUDE... it may: INCLUDE is a keyword line
				nfile++
				dir := ""
				if strings.Contains(owner, "/") {
					dir = owner[:strings.LastIndex(owner, "/")+1]
				}
				if l.R.Intn(3) == 0 {
					dir += fmt.Sprintf("sub%d/", nfile)
				}
				name := fmt.Sprintf("%spart%d.jst", dir, nfile)
				for k := s; k < e; k++ {
					assign[k] = name
				}
				includes = append(includes, inc{at: s, file: name, in: owner})
				split(s, e, name, level+1)
			}
		}
		split(0, len(blocks), "root.jst", 0)
	}
	// emit
	type fileState struct {
		sb     strings.Builder
		line   int
		tokens []Token
	}
	states := map[string]*fileState{"root.jst": {line: 1}}
	state := func(n string) *fileState {
		if s, ok := states[n]; ok {
			return s
		}
		s := &fileState{line: 1}
		states[n] = s
		return s
	}
	incAt := map[int][]inc{}
	for _, ic := range includes {
		incAt[ic.at] = append(incAt[ic.at], ic)
	}
	relPath := func(from, to string) string {
		dir := ""
		if strings.Contains(from, "/") {
			dir = from[:strings.LastIndex(from, "/")+1]
		}
		return strings.TrimPrefix(to, dir)
	}
	eolLen := len(l.EOL)
	writeLine := func(fs *fileState, s string) {
		fs.sb.WriteString(s)
		fs.sb.WriteString(l.EOL)
		fs.line++
	}
	prevKind := map[string]string{}
	for i, b := range blocks {
		// INCLUDE lines for pieces that start here, outermost first
		ics := incAt[i]
		for k := 0; k < len(ics); k++ { // includes were appended outermost first
			ic := ics[k]
			fs := state(ic.in)
			ind := strings.Repeat(l.Unit, b.depth)
			if l.FlatIndent {
				ind = ""
			}
			p := relPath(ic.in, ic.file)
			if l.QuoteAll && l.R.Intn(2) == 0 {
				p = quote(p)
			}
			kwBegin := fs.sb.Len() + len(ind)
			fs.tokens = append(fs.tokens, Token{Type: "keyword", File: ic.in, Begin: kwBegin, End: kwBegin + 6, Line: fs.line, Text: "INCLUDE"},
				Token{Type: "property", File: ic.in, Begin: kwBegin + 8, End: kwBegin + 8 + len(p) - 1, Line: fs.line, Text: p})
			writeLine(fs, ind+"INCLUDE "+p)
			prevKind[ic.in] = "INCLUDE"
		}
		fs := state(assign[i])
		// trivia between directives (not after a Description: its free text would swallow them)
		if l.Comments && b.paren == 0 && prevKind[assign[i]] != "Description" && l.R.Intn(3) == 0 {
			switch l.R.Intn(4) {
			case 0:
				writeLine(fs, "")
			case 1:
				writeLine(fs, strings.Repeat(l.Unit, b.depth)+"# a comment")
			case 2:
				writeLine(fs, "###")
				writeLine(fs, "  block comment "+fmt.Sprint(i))
				writeLine(fs, "###")
			case 3:
				writeLine(fs, "   ")
			}
		}
		base := fs.sb.Len()
		// relative offsets were computed with 1-byte line ends; correct for CRLF
		lineStarts := []int{0}
		for k, ln := range b.lines {
			_ = k
			lineStarts = append(lineStarts, lineStarts[len(lineStarts)-1]+len(ln)+1)
		}
		adj := func(rel int) int {
			// number of line ends before rel
			n := 0
			for k := 1; k < len(lineStarts); k++ {
				if lineStarts[k] <= rel {
					n++
				}
			}
			return rel + n*(eolLen-1)
		}
		for _, t := range b.tokens {
			t.File = assign[i]
			t.Begin, t.End = base+adj(t.Begin), base+adj(t.End)
			t.Line = fs.line + t.Line
			fs.tokens = append(fs.tokens, t)
		}
		if b.paren == 0 {
			b.dir.File, b.dir.Line = assign[i], fs.line
			prevKind[assign[i]] = b.dir.Kind
		} else {
			prevKind[assign[i]] = "paren"
		}
		for _, ln := range b.lines {
			writeLine(fs, ln)
		}
	}
	for n, fs := range states {
		rd.Files[n] = []byte(fs.sb.String())
		rd.Tokens[n] = fs.tokens
	}
	return rd
}

// abstractMacros moves runs of sibling directives into MACRO definitions and replaces them by PASTE.
func abstractMacros(roots []*RDir, l *Layout) []*RDir {
	macroKinds := map[string]bool{"INFO": true, "Title": true, "Version": true, "Description": true, "SERVER": true, "BaseUrl": true, "URL": true,
		"GET": true, "POST": true, "PUT": true, "PATCH": true, "DELETE": true, "Body": true, "Request": true, "HTTP-response-code": true,
		"Path": true, "Headers": true, "Query": true, "TYPE": true, "ENUM": true, "PASTE": true}
	pasteParents := map[string]bool{"": true, "URL": true, "GET": true, "POST": true, "PUT": true, "PATCH": true, "DELETE": true,
		"HTTP-response-code": true, "Request": true, "INFO": true, "SERVER": true, "MACRO": true}
	n := 0
	var defs []*RDir
	var visit func(parent *RDir, kids []*RDir, level int) []*RDir
	visit = func(parent *RDir, kids []*RDir, level int) []*RDir {
		pk := ""
		if parent != nil {
			pk = parent.Kind
		}
		// recurse first
		for _, k := range kids {
			if k.Kind != "MACRO" {
				k.Children = visit(k, k.Children, level+1)
			}
		}
		if !pasteParents[pk] || len(kids) == 0 || l.R.Intn(3) != 0 || n >= 4 {
			return kids
		}
		s := l.R.Intn(len(kids))
		if parent == nil && s == 0 {
			s = 1 // JSIGHT stays first
		}
		if s >= len(kids) {
			return kids
		}
		e := s + 1 + l.R.Intn(len(kids)-s)
		for _, k := range kids[s:e] {
			if !macroKinds[k.Kind] {
				return kids
			}
			// a method with its own path inside a URL-less macro is fine at root level only
		}
		if pk == "URL" {
			for _, k := range kids[s:e] {
				if k.Kind == "Tags" || k.Kind == "Protocol" || k.Kind == "Method" {
					return kids
				}
			}
		}
		n++
		name := fmt.Sprintf("@mac%d", n)
		def := &RDir{Kind: "MACRO", Keyword: "MACRO", Params: []string{name}, Origin: "macro:" + name, Children: append([]*RDir(nil), kids[s:e]...)}
		defs = append(defs, def)
		out := append([]*RDir(nil), kids[:s]...)
		out = append(out, &RDir{Kind: "PASTE", Keyword: "PASTE", Params: []string{name}, Origin: "paste:" + name})
		out = append(out, kids[e:]...)
		return out
	}
	roots = visit(nil, roots, 0)
	// definitions before or after their use; a definition may even precede JSIGHT (macro definitions are taken out before
	// the "JSIGHT comes first" rule is applied)
	var out []*RDir
	if len(defs) > 0 && l.R.Intn(5) == 0 {
		out = append(out, defs[0])
		defs = defs[1:]
	}
	out = append(out, roots[0])
	var after []*RDir
	for _, d := range defs {
		if l.R.Intn(2) == 0 {
			out = append(out, d)
		} else {
			after = append(after, d)
		}
	}
	out = append(out, roots[1:]...)
	return append(out, after...)
}
