// Package gen: seeded PRNG streams, the pinned corpus and hostile-input mutators.
package gen

import (
	"hash/fnv"
	"math/rand"
	"os"
	"path/filepath"
	"sort"
	"strings"
)

// Rng returns a PRNG whose stream is a pure function of (seed, names...).
func Rng(seed int64, names ...string) *rand.Rand {
	h := fnv.New64a()
	for _, n := range names {
		h.Write([]byte(n))
		h.Write([]byte{0})
	}
	return rand.New(rand.NewSource(seed*1000003 + int64(h.Sum64()&0x7fffffffffff)))
}

// Project is a root file plus the files it may reach.
type Project struct {
	Name  string            // corpus-relative path of the root
	Root  string            // path of the root inside Files
	Files map[string][]byte // relative path -> content
}

func (p *Project) RootContent() []byte { return p.Files[p.Root] }

func (p *Project) HasInclude() bool { return len(p.Files) > 1 }

// LoadCorpus reads every .jst below dir. A file that mentions INCLUDE becomes a project made of its whole directory.
func LoadCorpus(dir string) ([]*Project, error) {
	var roots []string
	err := filepath.Walk(dir, func(p string, info os.FileInfo, err error) error {
		if err != nil {
			return err
		}
		if !info.IsDir() && strings.HasSuffix(p, ".jst") {
			roots = append(roots, p)
		}
		return nil
	})
	if err != nil {
		return nil, err
	}
	sort.Strings(roots)
	dirCache := map[string]map[string][]byte{}
	var out []*Project
	for _, r := range roots {
		c, err := os.ReadFile(r)
		if err != nil {
			return nil, err
		}
		rel, _ := filepath.Rel(dir, r)
		pr := &Project{Name: rel}
		if strings.Contains(string(c), "INCLUDE") {
			d := filepath.Dir(r)
			files, ok := dirCache[d]
			if !ok {
				files = map[string][]byte{}
				_ = filepath.Walk(d, func(p string, info os.FileInfo, err error) error {
					if err == nil && !info.IsDir() {
						b, _ := os.ReadFile(p)
						rp, _ := filepath.Rel(d, p)
						files[rp] = b
					}
					return nil
				})
				dirCache[d] = files
			}
			pr.Files = files
			pr.Root = filepath.Base(r)
		} else {
			pr.Root = "root.jst"
			pr.Files = map[string][]byte{"root.jst": c}
		}
		out = append(out, pr)
	}
	return out, nil
}

// Keywords of JSight API 0.3 (independent list, not taken from the implementation).
var Keywords = []string{
	"JSIGHT", "INFO", "Title", "Version", "Description", "SERVER", "BaseUrl", "URL", "GET", "POST", "PUT", "PATCH",
	"DELETE", "Body", "Request", "Path", "Headers", "Query", "TYPE", "ENUM", "MACRO", "PASTE", "INCLUDE", "Protocol",
	"Method", "Params", "Result", "TAG", "Tags", "OperationId",
}

// Dict: tokens for dictionary mutations.
var Dict = func() []string {
	d := append([]string{}, Keywords...)
	d = append(d, "200", "404", "100", "599", "(", ")", "//", "/*", "*/", "/*/", "#", "###", "\"", "\\", "{", "}", "[", "]",
		"@", "@t", "@cat", "{id}", "/a/{id}", "/", "any", "empty", "regex", "jsight", "json-rpc-2.0", "htmlFormEncoded",
		"noFormat", "\x00", "\xff", "\r", "\n", "\r\n", "\t", " ", "  ", "0.3", "{}", "[]", "{\"a\":1}", "\"s\"", "1", "true", "null",
		"// {optional: true}", "{type: \"@t\"}", "{allOf: \"@t\"}", "{or: [\"@a\",\"@b\"]}", "{enum: [1,2]}", "{regex: \"a\"}",
		"/[a-z]+/", "/(/", "@a | @b", "[@t]", "\"@t\"", "// note", "\n  ", "\n    ", "\n(", "\n)", " (", " )",
		"{\"id\": 1}", "a/b.jst", "..", "./", "TYPE @t\n", "PASTE @m\n", "MACRO @m\n", "Tags @g\n", "TAG @g\n",
		"Path\n{\"id\":1}\n", "Protocol json-rpc-2.0\n", "Method m\n", "Description\n", "INCLUDE x.jst\n")
	return d
}()

// Mutate applies n stacked mutations.
func Mutate(r *rand.Rand, in []byte, n int, splice func() []byte) []byte {
	b := append([]byte(nil), in...)
	for i := 0; i < n; i++ {
		b = mutate1(r, b, splice)
	}
	if len(b) > 64<<10 {
		b = b[:64<<10]
	}
	return b
}

func lineBounds(b []byte) [][2]int {
	var ls [][2]int
	s := 0
	for i, c := range b {
		if c == '\n' {
			ls = append(ls, [2]int{s, i + 1})
			s = i + 1
		}
	}
	if s < len(b) {
		ls = append(ls, [2]int{s, len(b)})
	}
	return ls
}

func mutate1(r *rand.Rand, b []byte, splice func() []byte) []byte {
	pos := func() int {
		if len(b) == 0 {
			return 0
		}
		return r.Intn(len(b) + 1)
	}
	switch r.Intn(14) {
	case 0: // flip byte
		if len(b) > 0 {
			i := r.Intn(len(b))
			b[i] = byte(r.Intn(256))
		}
	case 1: // insert random byte
		i := pos()
		b = append(b[:i], append([]byte{byte(r.Intn(256))}, b[i:]...)...)
	case 2: // delete byte
		if len(b) > 0 {
			i := r.Intn(len(b))
			b = append(b[:i], b[i+1:]...)
		}
	case 3: // truncate
		b = b[:pos()]
	case 4, 5, 6: // dictionary insert
		i := pos()
		t := Dict[r.Intn(len(Dict))]
		b = append(b[:i], append([]byte(t), b[i:]...)...)
	case 7: // dictionary insert at a line start
		ls := lineBounds(b)
		i := 0
		if len(ls) > 0 {
			i = ls[r.Intn(len(ls))][0]
		}
		t := Dict[r.Intn(len(Dict))]
		if r.Intn(2) == 0 {
			t += "\n"
		} else {
			t += " "
		}
		b = append(b[:i], append([]byte(t), b[i:]...)...)
	case 8: // duplicate line
		ls := lineBounds(b)
		if len(ls) > 0 {
			l := ls[r.Intn(len(ls))]
			line := append([]byte(nil), b[l[0]:l[1]]...)
			at := ls[r.Intn(len(ls))][0]
			b = append(b[:at], append(line, b[at:]...)...)
		}
	case 9: // delete line
		ls := lineBounds(b)
		if len(ls) > 0 {
			l := ls[r.Intn(len(ls))]
			b = append(b[:l[0]], b[l[1]:]...)
		}
	case 10: // swap two lines
		ls := lineBounds(b)
		if len(ls) > 1 {
			i, j := r.Intn(len(ls)), r.Intn(len(ls))
			if i > j {
				i, j = j, i
			}
			if i != j {
				var nb []byte
				nb = append(nb, b[:ls[i][0]]...)
				nb = append(nb, b[ls[j][0]:ls[j][1]]...)
				nb = append(nb, b[ls[i][1]:ls[j][0]]...)
				nb = append(nb, b[ls[i][0]:ls[i][1]]...)
				nb = append(nb, b[ls[j][1]:]...)
				b = nb
			}
		}
	case 11: // splice from another document
		if splice != nil {
			o := splice()
			if len(o) > 0 {
				s := r.Intn(len(o))
				e := s + r.Intn(len(o)-s+1)
				i := pos()
				b = append(b[:i], append(append([]byte(nil), o[s:e]...), b[i:]...)...)
			}
		}
	case 12: // line ending rewrite
		switch r.Intn(3) {
		case 0:
			b = []byte(strings.ReplaceAll(string(b), "\n", "\r\n"))
		case 1:
			b = []byte(strings.ReplaceAll(string(b), "\n", "\r"))
		default:
			b = []byte(strings.ReplaceAll(string(b), "\r", ""))
		}
	case 13: // delete a range
		if len(b) > 1 {
			s := r.Intn(len(b))
			e := s + r.Intn(minInt(len(b)-s, 40)+1)
			b = append(b[:s], b[e:]...)
		}
	}
	return b
}

func minInt(a, b int) int {
	if a < b {
		return a
	}
	return b
}
