// Package proto defines the messages exchanged between the driver (vcheck) and the worker (vworker).
// The driver never imports the code under test; everything it knows about an execution is in a Result.
package proto

// Job is one case: a project on disk (or in memory) plus the operations to run on it.
type Job struct {
	ID string `json:"id"`
	// Files: relative path -> content. Written under the worker's private directory (<dir>/proj/...).
	// Paths beginning with "../" are decoys placed outside the project directory.
	Files map[string][]byte `json:"files,omitempty"`
	// Dirs: relative directories to create (for directory-as-target cases).
	Dirs []string `json:"dirs,omitempty"`
	// Root: relative path of the root file. With AbsRoot set the root is used as is (corpus on disk).
	Root string `json:"root"`
	// RootSpelling: how the path of the root file is spelt after the project directory ("./root.jst", ".//root.jst",
	// "sub/../root.jst"): the same file, another text. Empty: the clean path.
	RootSpelling string `json:"rootSpelling,omitempty"`
	AbsRoot      bool   `json:"absRoot,omitempty"`
	// InMemory: build with kit.NewJApiFromFile(fs.NewFile(Root, Files[Root])) – no disk involved (no INCLUDE).
	InMemory bool `json:"inMemory,omitempty"`
	// ViaCore: build through core.NewJApiCore(...).BuildCatalog() instead of kit (C19).
	ViaCore bool `json:"viaCore,omitempty"`
	// Banned directive keywords (C19). BannedSplit: pass every kind as its own WithBannedDirectives option.
	Banned      []string `json:"banned,omitempty"`
	BannedSplit bool     `json:"bannedSplit,omitempty"`
	// Ops to run after the build, in order: json, jsonindent, openapi, openapiindent, title.
	Ops []string `json:"ops,omitempty"`
	// OpsOnError: run Ops even when the build returned an error (never by default).
	// Repeat: build the project this many times in the same process (C06); results beyond the first are
	// compared by the worker byte for byte and only differences are reported.
	Repeat int `json:"repeat,omitempty"`
	// Want selects the hook observations to return.
	WantFiles  bool `json:"wantFiles,omitempty"`
	WantSteps  bool `json:"wantSteps,omitempty"`
	WantPhases bool `json:"wantPhases,omitempty"`
	// HashOnly: return only the hash and length of outputs, not the bytes.
	HashOnly bool `json:"hashOnly,omitempty"`
	// Scan: do not build; run the public scanner over Files[Root] and return lexemes.
	Scan bool `json:"scan,omitempty"`
	// Keyword probe (C13): scan only until the first lexeme or error.
	ScanFirst int `json:"scanFirst,omitempty"`
	// Probes (C13): each is scanned completely; reported is the first lexeme that begins at or after ProbeOffset and the error, if any.
	Probes      [][]byte `json:"probes,omitempty"`
	ProbeOffset int      `json:"probeOffset,omitempty"`
	// Fresh: run this job in a worker process that has not executed any job yet.
	Fresh bool `json:"fresh,omitempty"`
	// ParallelOps: the accessors named in Ops are called at the same time from one goroutine each, on the one freshly built catalog
	// (so the first use of every lazily built part is concurrent), with value-determined delays at the library's yield points.
	ParallelOps bool `json:"parallel_ops,omitempty"`
	// SharedBan: like Banned, but given as several options, each a process-wide Option value reused by every build of the process
	// that names the same kinds. OptSeq: a list of builds of this project, each with its own SharedBan list, run one after the other
	// in this process; Result.OptSigs has one result signature per build.
	SharedBan [][]string   `json:"shared_ban,omitempty"`
	OptSeq    [][][]string `json:"opt_seq,omitempty"`
	// Conc describes a concurrent job (C18).
	Conc *ConcJob `json:"conc,omitempty"`
	// Seq: operation sequences for C16; each is run on a fresh build of the project.
	Seqs [][]string `json:"seqs,omitempty"`
}

type ConcJob struct {
	// ColdStart: the concurrent phase comes first, in a process that has not used the library yet (the sequential
	// baseline is computed afterwards), so that lazily initialised package state is first touched concurrently.
	ColdStart  bool          `json:"coldStart,omitempty"`
	Projects   []ConcProject `json:"projects"`
	Goroutines int           `json:"goroutines"`
	Rounds     int           `json:"rounds"`
	SharedSer  int           `json:"sharedSer"` // goroutines serialising one shared catalog
	Seed       int64         `json:"seed"`
	Jitter     bool          `json:"jitter"`
}

type ConcProject struct {
	Name    string `json:"name"`
	Content []byte `json:"content"`
	// SharedBan: build with these ban options, each a process-wide Option VALUE that every build naming the same kinds reuses
	// (a caller may keep its options in variables); nil = no option.
	SharedBan [][]string `json:"shared_ban,omitempty"`
	// Files: a project on disk (INCLUDE); Root is its root file. The worker writes the files once, into a directory of its own.
	Files map[string][]byte `json:"files,omitempty"`
	Root  string            `json:"root,omitempty"`
}

type ErrInfo struct {
	Msg      string `json:"msg"`
	File     string `json:"file"`
	FileNil  bool   `json:"fileNil,omitempty"`
	Index    int    `json:"index"`
	Line     int    `json:"line"`
	Column   int    `json:"column"`
	Quote    string `json:"quote"`
	ErrorStr string `json:"error"`
	// ErrorPanic is set when calling Error() panicked.
	ErrorPanic string `json:"errorPanic,omitempty"`
}

type PanicInfo struct {
	Stage string   `json:"stage"`
	Value string   `json:"value"`
	Kind  string   `json:"kind"`
	Func  string   `json:"func"`  // innermost frame inside jsight-api-core
	Stack []string `json:"stack"` // function names, innermost first (trimmed)
}

type Output struct {
	Op    string     `json:"op"`
	Bytes []byte     `json:"bytes,omitempty"`
	Str   string     `json:"str,omitempty"`
	Hash  string     `json:"hash,omitempty"`
	Len   int        `json:"len"`
	Err   string     `json:"err,omitempty"`
	Panic *PanicInfo `json:"panic,omitempty"`
}

type FileEvent struct {
	Op   string `json:"op"`
	Path string `json:"path"`
}

type StepStats struct {
	// per file (name) number of step calls and length
	PerFile map[string][2]int `json:"perFile,omitempty"`
	// distinct state function names seen during this job
	States []string `json:"states,omitempty"`
	// distinct state x byte-class pairs
	Pairs int `json:"pairs,omitempty"`
}

type Node struct {
	Kind        string   `json:"k"`
	Keyword     string   `json:"kw,omitempty"`
	File        string   `json:"f,omitempty"`
	Begin       int      `json:"b"`
	Named       []string `json:"n,omitempty"`
	Unnamed     []string `json:"u,omitempty"`
	Annotation  string   `json:"a,omitempty"`
	Explicit    bool     `json:"e,omitempty"`
	HasBody     bool     `json:"hb,omitempty"`
	BodyFile    string   `json:"bf,omitempty"`
	BodyBegin   int      `json:"bb,omitempty"`
	BodyEnd     int      `json:"be,omitempty"`
	ParentIsNil bool     `json:"pn,omitempty"`
	ParentBegin int      `json:"pb,omitempty"`
	ParentFile  string   `json:"pf,omitempty"`
	Children    []*Node  `json:"c,omitempty"`
}

type Lexeme struct {
	Type  string `json:"t"`
	Begin int    `json:"b"`
	End   int    `json:"e"`
	// ValuePanic is set when Value() panicked
	ValuePanic string `json:"vp,omitempty"`
}

type ProbeResult struct {
	LexType  string `json:"t,omitempty"` // empty: no lexeme at or after the offset
	Begin    int    `json:"b,omitempty"`
	End      int    `json:"e,omitempty"`
	Kind     string `json:"k,omitempty"`  // directive kind the keyword maps to
	KindErr  string `json:"ke,omitempty"` // NewDirectiveType rejected the keyword
	ErrIndex int    `json:"ei"`           // -1: no error
	ErrMsg   string `json:"em,omitempty"`
	Panic    string `json:"p,omitempty"`
	Lexemes  int    `json:"n"`
}

type RepeatDiff struct {
	// OnlyExamples: the two outputs are JSON documents that differ only inside "example" strings
	OnlyExamples bool   `json:"onlyExamples,omitempty"`
	Iter         int    `json:"iter"`
	What         string `json:"what"`
	First        string `json:"first"`
	Other        string `json:"other"`
}

type SeqResult struct {
	Seq   []string `json:"seq"`
	Call  int      `json:"call"`
	Op    string   `json:"op"`
	Canon string   `json:"canon"`
	Got   string   `json:"got"`
	// ExamplesOnly: both are JSON documents that differ only inside "example" strings
	ExamplesOnly bool `json:"examplesOnly,omitempty"`
}

type ConcResult struct {
	Builds      int      `json:"builds"`
	Sers        int      `json:"sers"`
	Yields      int      `json:"yields"`
	Mismatches  []string `json:"mismatches,omitempty"`
	Panics      []string `json:"panics,omitempty"`
	Comparisons int      `json:"comparisons"`
}

type Result struct {
	ID       string        `json:"id"`
	Dir      string        `json:"dir,omitempty"` // the private project dir (for path normalisation)
	Accepted bool          `json:"accepted"`
	Err      *ErrInfo      `json:"err,omitempty"`
	Panic    *PanicInfo    `json:"panic,omitempty"`
	Outputs  []Output      `json:"outputs,omitempty"`
	Files    []FileEvent   `json:"fileEvents,omitempty"`
	Steps    *StepStats    `json:"steps,omitempty"`
	ScanDone bool          `json:"scanDone,omitempty"`
	Scan     []*Node       `json:"scanTree,omitempty"`
	Expand   []*Node       `json:"expandTree,omitempty"`
	Lexemes  []Lexeme      `json:"lexemes,omitempty"`
	ScanErr  *ErrInfo      `json:"scanErr,omitempty"`
	Diffs    []RepeatDiff  `json:"diffs,omitempty"`
	SeqDiffs []SeqResult   `json:"seqDiffs,omitempty"`
	SeqCalls int           `json:"seqCalls,omitempty"`
	Conc     *ConcResult   `json:"conc,omitempty"`
	Probes   []ProbeResult `json:"probes,omitempty"`
	OptSigs  []string      `json:"opt_sigs,omitempty"`
	// CPU time of the worker process (user + system, all threads) spent in the build and in the accessor calls, microseconds
	BuildCPU int64 `json:"buildCPU,omitempty"`
	OpsCPU   int64 `json:"opsCPU,omitempty"`
	// WorkerErr: the worker could not even set the case up (harness problem, inconclusive).
	WorkerErr string `json:"workerErr,omitempty"`
	// Fatal is filled by the driver when the worker died during this job.
	Fatal *FatalInfo `json:"fatal,omitempty"`
}

type FatalInfo struct {
	Kind   string `json:"kind"` // stack-overflow, runtime-throw, killed, hang, exit
	Func   string `json:"func"`
	Stderr string `json:"stderr"`
	// Stage: "build" when the dump shows the worker inside the build of the project, "call" inside an accessor call, "" unknown
	Stage string `json:"stage,omitempty"`
}
