package checks

import (
	"fmt"
	"math/rand"
	"os"
	"path/filepath"
	"regexp"
	"sort"
	"strings"

	"verifharness/internal/fw"
	"verifharness/internal/gen"
	"verifharness/internal/proc"
	"verifharness/internal/proto"
)

func includeRefused(u string) bool {
	if u == "" {
		return true
	}
	if u[0] == '/' || strings.Contains(u, "\\") {
		return true
	}
	for _, seg := range strings.Split(u, "/") {
		if seg == "." || seg == ".." {
			return true
		}
	}
	return false
}

func isRefusalMsg(msg string) bool {
	return strings.Contains(msg, "cannot not start with") || strings.Contains(msg, "cannot contain `..` or `.`") ||
		strings.Contains(msg, "directories must be separated by slashes") || strings.Contains(msg, "required parameter(s) not specified")
}

func quoteParam(u string) string {
	return "\"" + strings.ReplaceAll(strings.ReplaceAll(u, "\\", "\\\\"), "\"", "\\\"") + "\""
}

type c14case struct {
	u      string
	quoted bool
	sep    string // what stands between the keyword and the parameter ("" = one blank)
}

var c14seps = []string{" ", "\t", "  ", "\t\t", " \t", "\t \t", "   \t  "}

func c14Job(id string, cs c14case) *proto.Job {
	p := cs.u
	if cs.quoted {
		p = quoteParam(cs.u)
	}
	files := map[string][]byte{
		"root.jst":       []byte("JSIGHT 0.3\nINCLUDE" + map[bool]string{true: " ", false: cs.sep}[cs.sep == ""] + p + "\n"),
		"a":              []byte("TYPE @a any\n"),
		"aa/a":           []byte("TYPE @aaa any\n"),
		"aa/aa/a":        []byte("TYPE @aaaaa any\n"),
		"~":              []byte("TYPE @tilde any\n"),
		"a~":             []byte("TYPE @atilde any\n"),
		"../a":           []byte("TYPE @decoyA any\n"),
		"../secret.jst":  []byte("TYPE @secret any\n"),
		"../aa/a":        []byte("TYPE @decoyAAA any\n"),
		"../~":           []byte("TYPE @decoyTilde any\n"),
		"sub/decoy.jst":  []byte("TYPE @subdecoy any\n"),
		"../proj2/a":     []byte("TYPE @proj2 any\n"),
		"../.hidden/a":   []byte("TYPE @hidden any\n"),
		".dot/a":         []byte("TYPE @dot any\n"),
		"aaa/aaa/aaa/aa": []byte("TYPE @deep any\n"),
	}
	return &proto.Job{ID: id, Root: "root.jst", Files: files, WantFiles: true}
}

// c14Param judges one parameter case.
func c14Param(c *fw.Ctx, j *proto.Job, res *proto.Result, cs c14case) {
	rp := replayOf(j, res)
	if sig, what := crashSig(res); sig != "" {
		c.Violate(sig, fmt.Sprintf("INCLUDE parameter %q: %s", cs.u, what), rp)
		return
	}
	proj := res.Dir
	var events []proto.FileEvent
	for _, e := range res.Files {
		if e.Op == "read-root" {
			continue
		}
		events = append(events, e)
	}
	// (ii) everything the builder touches lies inside the project directory
	for _, e := range events {
		abs := filepath.Clean(e.Path)
		if abs != proj && !strings.HasPrefix(abs, proj+"/") {
			c.Violate("escape:"+e.Op, fmt.Sprintf("INCLUDE %q made the builder %s %s, outside the project %s", cs.u, e.Op, abs, proj), rp)
			return
		}
	}
	isParam := true
	if !cs.quoted && (strings.HasPrefix(cs.u, "//") || strings.HasPrefix(cs.u, "/*")) {
		isParam = false // an annotation, not a parameter
	}
	if !isParam {
		if len(events) != 0 {
			c.Violate("access-without-parameter", fmt.Sprintf("INCLUDE with annotation %q touched the file system: %v", cs.u, events), rp)
		}
		c.Inc("classes", "annotation-not-parameter", 1)
		return
	}
	if includeRefused(cs.u) {
		c.Inc("classes", "must-be-refused", 1)
		if len(events) != 0 {
			c.Violate("refusal:file-system-consulted", fmt.Sprintf("INCLUDE %q must be refused before the file system is consulted, but: %v", cs.u, events), rp)
			return
		}
		if res.Accepted || res.Err == nil {
			c.Violate("refusal:accepted", fmt.Sprintf("INCLUDE %q was accepted", cs.u), rp)
			return
		}
		if !isRefusalMsg(res.Err.Msg) {
			c.Violate("refusal:message", fmt.Sprintf("INCLUDE %q refused with an unexpected message %q", cs.u, res.Err.Msg), rp)
		}
		if res.Err.Line != 2 || relName(res, res.Err.File) != "root.jst" {
			c.Violate("refusal:location", fmt.Sprintf("INCLUDE %q: error at %s:%d, the INCLUDE is at root.jst:2", cs.u, relName(res, res.Err.File), res.Err.Line), rp)
		}
		return
	}
	if len(events) == 0 {
		// over-refusal is allowed (DESIGN §6), but it must be a refusal
		if res.Err != nil && isRefusalMsg(res.Err.Msg) {
			c.Inc("classes", "over-refused", 1)
			return
		}
		c.Violate("lookup:none", fmt.Sprintf("INCLUDE %q: no file was looked up and the result is not a refusal (%v)", cs.u, res.Err), rp)
		return
	}
	// (iii) looked up exactly at dir(includer)/p
	want := filepath.Join(proj, cs.u)
	for _, e := range events {
		if filepath.Clean(e.Path) != want {
			c.Violate("lookup:wrong-path", fmt.Sprintf("INCLUDE %q looked at %s, expected %s", cs.u, e.Path, want), rp)
			return
		}
	}
	st, err := os.Stat(filepath.Join("/nonexistent", "x")) // placeholder to keep os imported when unused
	_, _ = st, err
	target, isFile := j.Files[filepath.Clean(cs.u)]
	_ = target
	switch {
	case isFile:
		c.Inc("classes", "existing-file", 1)
		if res.Err != nil {
			c.Violate("lookup:existing-file-rejected", fmt.Sprintf("INCLUDE %q names an existing file but: %s", cs.u, res.Err.Msg), rp)
		}
	default:
		c.Inc("classes", "missing-or-directory", 1)
		// (iv) missing file or directory: an error at the INCLUDE
		if res.Err == nil {
			c.Violate("lookup:missing-accepted", fmt.Sprintf("INCLUDE %q names no file but the build succeeded", cs.u), rp)
			return
		}
		if res.Err.Line != 2 || relName(res, res.Err.File) != "root.jst" || res.Err.Column != 1 {
			c.Violate("lookup:error-location", fmt.Sprintf("INCLUDE %q: error at %s:%d:%d, the INCLUDE is at root.jst:2:1", cs.u, relName(res, res.Err.File), res.Err.Line, res.Err.Column), rp)
		}
	}
}

type incGraph struct {
	files map[string][]string // file -> included names in order
	order []string
}

// refInclude: depth-first in document order; error at the INCLUDE that closes a cycle.
func refInclude(g *incGraph, file string, path map[string]bool, budget *int) (errFile string, errLine int, ok bool) {
	path[file] = true
	defer delete(path, file)
	for i, t := range g.files[file] {
		*budget--
		if *budget < 0 {
			return "", 0, true
		}
		line := i + 1
		if file == g.order[0] {
			line = i + 2 // JSIGHT on the first line of the root
		}
		if path[t] {
			return file, line, false
		}
		if f, l, ok := refInclude(g, t, path, budget); !ok {
			return f, l, false
		}
	}
	return "", 0, true
}

func graphJob(id string, g *incGraph) *proto.Job {
	files := map[string][]byte{}
	for i, f := range g.order {
		var sb strings.Builder
		if i == 0 {
			sb.WriteString("JSIGHT 0.3\n")
		}
		for _, t := range g.files[f] {
			sb.WriteString("INCLUDE " + t + "\n")
		}
		files[f] = []byte(sb.String())
	}
	return &proto.Job{ID: id, Root: g.order[0], Files: files, WantFiles: true}
}

// treeProj: a project whose files live in nested directories; every INCLUDE parameter is relative to the directory of the file that
// holds it, the same parameter text occurs in several directories and resolves to different files (or to nothing).
type treeProj struct {
	includes map[string][]string // file -> parameters in order
	exists   map[string]bool     // project-relative paths that are files
	isDir    map[string]bool     // project-relative paths that are directories
}

func genTree(r *rand.Rand) *treeProj {
	dirs := []string{"", "a/", "a/b/", "c/", "a/b/d/", "c/a/"}
	names := []string{"Resp.jst", "resp.jst", "X.jst", "x.jst", "y.jst", "z.jst"} // also names that differ only in case
	t := &treeProj{includes: map[string][]string{}, exists: map[string]bool{"root.jst": true}, isDir: map[string]bool{}}
	for _, d := range dirs {
		for _, n := range names {
			if r.Intn(20) < 17 {
				t.exists[d+n] = true
				for k := 1; k < len(d); k++ {
					if d[k] == '/' {
						t.isDir[d[:k]] = true
					}
				}
			}
		}
	}
	idx := func(n string) int {
		for i, x := range names {
			if x == n {
				return i
			}
		}
		return -1 // root.jst
	}
	var all []string
	for f := range t.exists {
		all = append(all, f)
	}
	sort.Strings(all)
	for _, f := range all {
		dir, base := "", f
		if k := strings.LastIndex(f, "/"); k >= 0 {
			dir, base = f[:k+1], f[k+1:]
		}
		n := r.Intn(4)
		if f == "root.jst" {
			n = 1 + r.Intn(4)
		}
		for i := 0; i < n; i++ {
			// a directory equal to or below the includer's
			var below []string
			for _, d := range dirs {
				if strings.HasPrefix(d, dir) {
					below = append(below, d)
				}
			}
			d := below[r.Intn(len(below))]
			nm := names[r.Intn(len(names))]
			if d == dir && idx(nm) <= idx(base) {
				continue // same directory: only "later" names, so that the graph has no cycle
			}
			p := strings.TrimPrefix(d, dir) + nm
			if r.Intn(25) == 0 && d != dir {
				p = strings.TrimSuffix(strings.TrimPrefix(d, dir), "/") // names a directory
			}
			t.includes[f] = append(t.includes[f], p)
		}
	}
	return t
}

func (t *treeProj) job(id string) *proto.Job {
	files := map[string][]byte{}
	for f := range t.exists {
		var sb strings.Builder
		if f == "root.jst" {
			sb.WriteString("JSIGHT 0.3\n")
		}
		for _, p := range t.includes[f] {
			sb.WriteString("INCLUDE " + p + "\n")
		}
		files[f] = []byte(sb.String())
	}
	return &proto.Job{ID: id, Root: "root.jst", Files: files, WantFiles: true}
}

// reference: depth-first in document order, every parameter resolved against the directory of the file that holds it; stops at the
// first parameter that names no file. Returns the set of paths that must have been consulted and the failing INCLUDE, if any.
func (t *treeProj) reference() (consulted map[string]bool, errFile string, errLine int, budgetOK bool) {
	consulted = map[string]bool{}
	budget := 20000
	var visit func(f string) bool
	visit = func(f string) bool {
		dir := ""
		if k := strings.LastIndex(f, "/"); k >= 0 {
			dir = f[:k+1]
		}
		for i, p := range t.includes[f] {
			budget--
			if budget < 0 {
				return false
			}
			target := dir + p
			consulted[target] = true
			if !t.exists[target] {
				errFile, errLine = f, i+1
				if f == "root.jst" {
					errLine = i + 2
				}
				return false
			}
			if !visit(target) {
				return false
			}
		}
		return true
	}
	visit("root.jst")
	return consulted, errFile, errLine, budget >= 0
}

func c14Tree(c *fw.Ctx, j *proto.Job, res *proto.Result, t *treeProj) {
	rp := replayOf(j, res)
	if sig, what := crashSig(res); sig != "" {
		c.Violate(sig, what, rp)
		return
	}
	want, ef, el, ok := t.reference()
	if !ok {
		c.Inc("trees", "too-large-skipped", 1)
		return
	}
	got := map[string]bool{}
	for _, e := range res.Files {
		abs := filepath.Clean(e.Path)
		if abs != res.Dir && !strings.HasPrefix(abs, res.Dir+"/") {
			c.Violate("escape:"+e.Op, "include tree touched "+abs, rp)
			return
		}
		if e.Op == "read-root" {
			continue
		}
		got[strings.TrimPrefix(abs, res.Dir+"/")] = true
	}
	var missing, extra []string
	for p := range want {
		if !got[p] {
			missing = append(missing, p)
		}
	}
	for p := range got {
		if !want[p] {
			extra = append(extra, p)
		}
	}
	sort.Strings(missing)
	sort.Strings(extra)
	if len(extra) > 0 {
		c.Violate("tree:unexpected-file-consulted", fmt.Sprintf("the builder consulted %v, which no INCLUDE resolves to when every parameter is taken relative to the directory of its file (not consulted although expected: %v)", extra, missing), rp)
		return
	}
	if len(missing) > 0 {
		c.Violate("tree:expected-file-not-consulted", fmt.Sprintf("an INCLUDE resolves to %v but the builder never looked there", missing), rp)
		return
	}
	if ef == "" {
		c.Inc("trees", "all-files-exist", 1)
		c.Inc("trees", "files-consulted", len(got))
		if res.Err != nil {
			c.Violate("tree:existing-file-rejected", fmt.Sprintf("every INCLUDE names an existing file but: %s (%s:%d)", res.Err.Msg, relName(res, res.Err.File), res.Err.Line), rp)
		}
		return
	}
	c.Inc("trees", "missing-file-or-directory", 1)
	if res.Err == nil {
		c.Violate("tree:missing-accepted", fmt.Sprintf("the INCLUDE at %s:%d names no file but the build succeeded", ef, el), rp)
		return
	}
	if relName(res, res.Err.File) != ef || res.Err.Line != el || res.Err.Column != 1 {
		c.Violate("tree:error-location", fmt.Sprintf("the INCLUDE at %s:%d names no file; error %q at %s:%d:%d", ef, el, res.Err.Msg, relName(res, res.Err.File), res.Err.Line, res.Err.Column), rp)
	}
}

// C14 – INCLUDE stays inside the project; include cycles are errors.
func C14(c *fw.Ctx) {
	c.Level = "fault_enumeration"
	maxLen := c.Pick(5, 7)
	c.Rule(fmt.Sprintf("parameters: ALL strings over {a . / \\ ~} of length <= %d, each bare and quoted (after one of seven runs of blanks and tabs), plus seeded longer ones (percent-encoding, "+
		"UTF-8, trailing slashes, long names) against a sandbox with files and directories inside the project and decoys outside; "+
		"include graphs: all digraphs on <= 3 files and sampled graphs on 4-5 files (files hold only INCLUDEs); include trees: seeded projects "+
		"with files in six nested directories where the same parameter text occurs in several directories and resolves to different files, to a "+
		"directory or to nothing, and 7 targets that exist but are no regular files (named pipe, links to devices, to a directory, dangling, "+
		"to itself), and an INCLUDE in each of 22 positions a keyword line can stand in (after a description text, an annotation, a body ...) naming a missing file, a directory, the root file and an existing file - the set of consulted paths must equal the set a reference resolver (parameter relative to the directory of its "+
		"file, depth-first, stop at the first miss) computes, and a miss must be an error at that INCLUDE; the deciding observer is the "+
		"file-access hook (every Stat/ReadFile the builder issues); thorough tier: an strace pass cross-checks the hook against the kernel; "+
		"distinct = distinct project bytes; non-trivial = every case", maxLen))
	c.Assume("over-refusal (e.g. a/.hidden) is not a violation", "paths are compared after filepath.Clean")
	pool := c.Pool(false, 0)
	alphabet := []byte{'a', '.', '/', '\\', '~'}
	var cases []c14case
	var rec func(cur []byte)
	rec = func(cur []byte) {
		if len(cur) > 0 {
			cases = append(cases, c14case{u: string(cur)}, c14case{u: string(cur), quoted: true})
		}
		if len(cur) == maxLen {
			return
		}
		for _, b := range alphabet {
			rec(append(cur, b))
		}
	}
	rec(nil)
	r := gen.Rng(c.Seed, c.ID, "params")
	extra := []string{"%2e%2e/a", "%2e/a", "a/%2e%2e/a", "..%2fa", "aa/a/", "aa//a", "aa/./a", "aa/../a", "/etc/passwd", "@@BOX@@/secret.jst", "@@PROJ@@/a",
		"...", "..a", "a..", ".a", "a.", "aa/.a", "aa/a.", "aa/..a", "….jst", "a\u2215a", "a\uff0fa", "．．/a", "aa/aa/a", strings.Repeat("aa/", 40) + "a",
		strings.Repeat("a", 255), strings.Repeat("a", 256), "~/a", "~root/a", "$HOME/a", "a;b", "a|b", "a b", "C:\\a", "\\\\host\\a", "a\\..\\a", "a/..\\a"}
	for _, e := range extra {
		cases = append(cases, c14case{u: e, quoted: true})
		if !strings.ContainsAny(e, " #\"") {
			cases = append(cases, c14case{u: e})
		}
	}
	for i := 0; i < c.Pick(2000, 20000); i++ {
		l := 6 + r.Intn(10)
		b := make([]byte, l)
		al := []byte("aa..//\\~%2eE")
		for k := range b {
			b[k] = al[r.Intn(len(al))]
		}
		cases = append(cases, c14case{u: string(b), quoted: r.Intn(2) == 0})
	}
	graphs := map[string]*incGraph{}
	trees := map[string]*treeProj{}
	c.RunJobs(pool, func(emit func(*proto.Job)) {
		for i := range cases {
			// the run of blanks and tabs in front of the parameter is layout: every case gets one of seven
			cases[i].sep = c14seps[i%len(c14seps)]
			emit(c14Job(fmt.Sprintf("param/%d", i), cases[i]))
		}
		// include graphs
		names := []string{"root.jst", "b.jst", "c.jst"}
		for g := 0; g < 512; g++ {
			ig := &incGraph{files: map[string][]string{}, order: names}
			for i, f := range names {
				for k, t := range names {
					if g&(1<<uint(i*3+k)) != 0 {
						ig.files[f] = append(ig.files[f], t)
					}
				}
			}
			id := fmt.Sprintf("graph/all3-%d", g)
			maxMuLock.Lock()
			graphs[id] = ig
			maxMuLock.Unlock()
			gj := graphJob(id, ig)
			// the caller may spell the path of the root file in any way: the files of the project are the same
			gj.RootSpelling = []string{"", "./root.jst", ".//root.jst", "././root.jst"}[g%4]
			emit(gj)
		}
		// targets that exist but are not regular files: a named pipe, links to a device, to a directory and to a file outside the
		// project, a dangling link - the build must end (an error at the INCLUDE, or the linked regular file), never wait or read on
		for i, sp := range []struct{ target, content string }{
			{"pipe.jst", "@@FIFO@@"}, {"zero.jst", "@@SYMLINK:/dev/zero@@"}, {"null.jst", "@@SYMLINK:/dev/null@@"}, {"dirlink.jst", "@@SYMLINK:sub@@"},
			{"dangling.jst", "@@SYMLINK:nowhere.jst@@"}, {"selflink.jst", "@@SYMLINK:selflink.jst@@"}, {"tty.jst", "@@SYMLINK:/dev/tty@@"},
		} {
			emit(&proto.Job{ID: fmt.Sprintf("special/%d", i), Root: "root.jst", WantFiles: true, Files: map[string][]byte{
				"root.jst": []byte("JSIGHT 0.3\nTYPE @before any\nINCLUDE " + sp.target + "\n"), sp.target: []byte(sp.content), "sub/x.jst": []byte("TYPE @x any\n")}})
		}
		// an INCLUDE in every position a keyword line can stand in (after a description text, an annotation, a body, a comment ...),
		// naming a missing file, a directory, the root file (a cycle) and an existing file
		for pi, pl := range keywordPlacements() {
			for ti, target := range []string{"nowhere.jst", "sub", "root.jst", "sub/x.jst"} {
				eol := "\n"
				if strings.Contains(pl.before, "\r\n") {
					eol = "\r\n"
				}
				emit(&proto.Job{ID: fmt.Sprintf("position/%d/%d", pi, ti), Root: "root.jst", WantFiles: true, RootSpelling: []string{"", "sub/../root.jst", "./root.jst"}[(pi+ti)%3], Files: map[string][]byte{
					"root.jst": []byte(pl.before + pl.indent + "INCLUDE " + target + eol), "sub/x.jst": []byte("TYPE @x any\n")}})
			}
		}
		tr := gen.Rng(c.Seed, c.ID, "trees")
		for s := 0; s < c.Pick(1500, 60000); s++ {
			t := genTree(tr)
			id := fmt.Sprintf("tree/%d", s)
			maxMuLock.Lock()
			trees[id] = t
			maxMuLock.Unlock()
			emit(t.job(id))
		}
		gr := gen.Rng(c.Seed, c.ID, "graphs")
		for s := 0; s < c.Pick(600, 70000); s++ {
			k := 4 + gr.Intn(2)
			var order []string
			for i := 0; i < k; i++ {
				order = append(order, fmt.Sprintf("f%d.jst", i))
			}
			ig := &incGraph{files: map[string][]string{}, order: order}
			for i := 0; i < k; i++ {
				for t := 0; t < k; t++ {
					// mostly forward edges so that large acyclic graphs with repeated inclusion occur
					p := 8
					if t > i {
						p = 3
					}
					if gr.Intn(p) == 0 {
						ig.files[order[i]] = append(ig.files[order[i]], order[t])
					}
				}
			}
			if s == 0 {
				// cycles whose second copy runs into something else before it gets to its INCLUDE again: the copy stands inside the
				// explicit context the first one has left open (D79)
				for ci, fs := range cycleInContextProjects() {
					files := map[string][]byte{}
					for k, v := range fs {
						files[k] = []byte(v)
					}
					emit(&proto.Job{ID: fmt.Sprintf("cyclectx/%d", ci), Root: "root.jst", Files: files, WantFiles: true})
				}
			}
			id := fmt.Sprintf("graph/s-%d", s)
			maxMuLock.Lock()
			graphs[id] = ig
			maxMuLock.Unlock()
			gj := graphJob(id, ig)
			gj.RootSpelling = []string{"", "./f0.jst", ".//f0.jst", "", "././f0.jst"}[s%5]
			emit(gj)
		}
	}, func(j *proto.Job, res *proto.Result) {
		if workerProblem(c, res) {
			return
		}
		c.Count(jobKey(j), true)
		if strings.HasPrefix(j.ID, "param/") {
			var i int
			fmt.Sscan(strings.TrimPrefix(j.ID, "param/"), &i)
			c14Param(c, j, res, cases[i])
			if c.NeedSample() && i%977 == 5 {
				c.Sample(map[string]interface{}{"parameter": cases[i].u, "quoted": cases[i].quoted, "file_events": res.Files, "error": res.Err})
			}
			return
		}
		if strings.HasPrefix(j.ID, "special/") {
			c.Inc("special_targets", "named-pipe-device-link", 1)
			rp := replayOf(j, res)
			if res.Fatal != nil {
				c.Violate("special:"+res.Fatal.Kind, "an INCLUDE of something that is not a regular file did not return: "+firstLines(res.Fatal.Stderr, 4), rp)
				return
			}
			if sig, what := crashSig(res); sig != "" {
				c.Violate(sig, what, rp)
				return
			}
			if res.Err == nil {
				if !strings.Contains(string(j.Files["null.jst"]), "SYMLINK") { // /dev/null reads as an empty file: accepted or refused, both end
					c.Violate("special:accepted", "an INCLUDE of a pipe, device, directory link or dangling link was accepted", rp)
				}
				return
			}
			if res.Err.Line != 3 || relName(res, res.Err.File) != "root.jst" {
				c.Violate("special:error-location", fmt.Sprintf("error at %s:%d, the INCLUDE is at root.jst:3 (%s)", relName(res, res.Err.File), res.Err.Line, res.Err.Msg), rp)
			}
			return
		}
		if strings.HasPrefix(j.ID, "position/") {
			var pi, ti int
			fmt.Sscanf(strings.ReplaceAll(strings.TrimPrefix(j.ID, "position/"), "/", " "), "%d %d", &pi, &ti)
			pl := keywordPlacements()[pi]
			line := strings.Count(pl.before, "\n") + 1
			c.Inc("include_positions", pl.name, 1)
			rp := replayOf(j, res)
			if sig, what := crashSig(res); sig != "" {
				c.Violate(sig, what, rp)
				return
			}
			what := []string{"a missing file", "a directory", "the root file", "an existing file"}[ti]
			if ti == 3 {
				read := false
				for _, e := range res.Files {
					if e.Op == "read" && strings.HasSuffix(filepath.Clean(e.Path), "/sub/x.jst") {
						read = true
					}
				}
				if !read {
					c.Violate("position:include-not-processed", fmt.Sprintf("INCLUDE of an existing file %s (root.jst:%d): the file was never read (%v)", pl.name, line, res.Err), rp)
				}
				return
			}
			if res.Err == nil {
				c.Violate("position:accepted", fmt.Sprintf("INCLUDE of %s %s (root.jst:%d) was accepted", what, pl.name, line), rp)
				return
			}
			if res.Err.Line != line || relName(res, res.Err.File) != "root.jst" {
				c.Violate("position:error-location", fmt.Sprintf("INCLUDE of %s %s is at root.jst:%d, error at %s:%d (%s)", what, pl.name, line, relName(res, res.Err.File), res.Err.Line, res.Err.Msg), rp)
				return
			}
			if ti == 2 && !strings.Contains(res.Err.Msg, "recursion") {
				c.Violate("position:cycle-message", fmt.Sprintf("INCLUDE of the root file %s reported as %q", pl.name, res.Err.Msg), rp)
			}
			return
		}
		if strings.HasPrefix(j.ID, "cyclectx/") {
			rp := replayOf(j, res)
			c.Inc("graphs", "cycle-inside-an-explicit-context", 1)
			if sig, what := crashSig(res); sig != "" {
				c.Violate(sig, what, rp)
				return
			}
			switch {
			case res.Err == nil:
				c.Violate("graph:cycle-accepted", "an include cycle inside an explicit context was accepted", rp)
			case !strings.Contains(res.Err.Msg, "recursion"):
				c.Violate("graph:cycle-message", fmt.Sprintf("include cycle reported as %q at %s:%d", res.Err.Msg, relName(res, res.Err.File), res.Err.Line), rp)
			default:
				name := relName(res, res.Err.File)
				if content, ok := j.Files[name]; !ok || !lineHasInclude(content, res.Err.Line, "lf") {
					c.Violate("graph:cycle-location", fmt.Sprintf("recursion error at %s:%d which holds no INCLUDE", name, res.Err.Line), rp)
				}
			}
			return
		}
		if strings.HasPrefix(j.ID, "tree/") {
			maxMuLock.Lock()
			t := trees[j.ID]
			delete(trees, j.ID)
			maxMuLock.Unlock()
			c14Tree(c, j, res, t)
			return
		}
		maxMuLock.Lock()
		ig := graphs[j.ID]
		delete(graphs, j.ID)
		maxMuLock.Unlock()
		rp := replayOf(j, res)
		if sig, what := crashSig(res); sig != "" {
			c.Violate(sig, what, rp)
			return
		}
		for _, e := range res.Files {
			abs := filepath.Clean(e.Path)
			if !strings.HasPrefix(abs, res.Dir+"/") {
				c.Violate("escape:"+e.Op, "include graph touched "+abs, rp)
			}
		}
		budget := 200000
		ef, el, ok := refInclude(ig, ig.order[0], map[string]bool{}, &budget)
		if budget < 0 {
			c.Inc("graphs", "too-large-skipped", 1)
			return
		}
		if ok {
			c.Inc("graphs", "acyclic", 1)
			if res.Err != nil {
				c.Violate("graph:acyclic-rejected", fmt.Sprintf("acyclic include graph rejected: %s (%s:%d)", res.Err.Msg, relName(res, res.Err.File), res.Err.Line), rp)
			}
			return
		}
		c.Inc("graphs", "cyclic", 1)
		if res.Err == nil {
			c.Violate("graph:cycle-accepted", fmt.Sprintf("include cycle closed at %s:%d was accepted", ef, el), rp)
			return
		}
		// The property does not fix which INCLUDE of the cycle carries the error. Required: a recursion error on a line that
		// holds an INCLUDE of a project file.
		name := relName(res, res.Err.File)
		switch {
		case strings.Contains(res.Err.Msg, "recursion"):
			content, okf := j.Files[name]
			if !okf || !lineHasInclude(content, res.Err.Line, "lf") {
				c.Violate("graph:cycle-location", fmt.Sprintf("recursion error at %s:%d which holds no INCLUDE (reference: cycle closed at %s:%d)", name, res.Err.Line, ef, el), rp)
			}
			c.Inc("graphs", "cycle-reported-as-recursion", 1)
		default:
			c.Violate("graph:cycle-message", fmt.Sprintf("include cycle reported as %q at %s:%d", res.Err.Msg, name, res.Err.Line), rp)
		}
	})
	if !c.Quick() {
		c14Strace(c, cases)
	}
	c.Finish()
}

var reStracePath = regexp.MustCompile(`^\d+\s+(\w+)\((?:AT_FDCWD, )?"([^"]*)"`)

// c14Strace runs one worker under strace and checks that every path below the sandbox that the kernel saw between the
// build markers was announced by the hook.
func c14Strace(c *fw.Ctx, cases []c14case) {
	if _, err := os.Stat("/usr/bin/strace"); err != nil {
		c.Inconclusive("strace is not installed")
		return
	}
	worker := c.BuildWorker(false)
	logf := filepath.Join(c.Scratch, "strace.log")
	wrapper := filepath.Join(c.Scratch, "straced-worker.sh")
	script := fmt.Sprintf("#!/bin/sh\nexec /usr/bin/strace -f -o %s -e trace=openat,open,stat,lstat,newfstatat,readlink,readlinkat,access,faccessat,faccessat2,statx %s \"$@\"\n", logf, worker)
	if err := os.WriteFile(wrapper, []byte(script), 0o755); err != nil {
		c.Inconclusive("cannot write the strace wrapper: " + err.Error())
		return
	}
	pool := proc.New(proc.Options{Bin: wrapper, Scratch: c.Scratch, Workers: 1, NoMemLimit: true, Env: []string{"VERIF_STRACE_MARK=1"}})
	var announced [][]string
	var dirs []string
	r := gen.Rng(c.Seed, c.ID, "strace")
	ch := make(chan *proto.Job, 16)
	go func() {
		defer close(ch)
		for i := 0; i < 3000; i++ {
			ch <- c14Job(fmt.Sprintf("strace/%d", i), cases[r.Intn(len(cases))])
		}
	}()
	_ = pool.Run(ch, func(j *proto.Job, res *proto.Result) {
		var a []string
		for _, e := range res.Files {
			a = append(a, filepath.Clean(e.Path))
		}
		announced = append(announced, a)
		dirs = append(dirs, res.Dir)
	})
	b, err := os.ReadFile(logf)
	if err != nil {
		c.Inconclusive("no strace log: " + err.Error())
		return
	}
	win := -1
	inside := false
	seen, bypass := 0, 0
	for _, ln := range strings.Split(string(b), "\n") {
		m := reStracePath.FindStringSubmatch(ln)
		if m == nil {
			continue
		}
		p := m[2]
		switch p {
		case "/__verif_mark_begin":
			win++
			inside = true
			continue
		case "/__verif_mark_end":
			inside = false
			continue
		}
		if !inside || win >= len(announced) {
			continue
		}
		box := filepath.Dir(dirs[win])
		abs := p
		if !filepath.IsAbs(abs) {
			continue
		}
		abs = filepath.Clean(abs)
		if !strings.HasPrefix(abs, filepath.Dir(box)) {
			continue // outside the sandbox: the Go runtime's own files
		}
		seen++
		ok := false
		for _, a := range announced[win] {
			if a == abs {
				ok = true
			}
		}
		if !ok {
			bypass++
			c.Violate("strace:unannounced-access", fmt.Sprintf("the kernel saw %s(%s) during build %d but the hook did not announce it (announced: %v)", m[1], abs, win, announced[win]), nil)
		}
	}
	c.Extra("strace_builds", win+1)
	c.Extra("strace_paths_cross_checked", seen)
	if win+1 < 1000 || seen < 500 {
		c.Inconclusive(fmt.Sprintf("strace pass observed only %d builds / %d paths", win+1, seen))
	}
}
