package checks

import (
	"fmt"
	"math/rand"
	"regexp"
	"strings"

	"verifharness/internal/fw"
	"verifharness/internal/gen"
	"verifharness/internal/model"
	"verifharness/internal/proc"
	"verifharness/internal/proto"
	"verifharness/internal/ref"
)

type lexDoc struct {
	name    string
	content []byte
	lex     []proto.Lexeme
	scanOK  bool
	base    *proto.Result
	lines   []int // start offset of every line
}

func lineStarts(b []byte) []int {
	ls := []int{0}
	for i, c := range b {
		if c == '\n' && i+1 <= len(b) {
			ls = append(ls, i+1)
		}
	}
	return ls
}

func (d *lexDoc) lineOf(off int) int { // 0-based
	lo, hi := 0, len(d.lines)-1
	for lo < hi {
		m := (lo + hi + 1) / 2
		if d.lines[m] <= off {
			lo = m
		} else {
			hi = m - 1
		}
	}
	return lo
}

func (d *lexDoc) lineEnd(line int) int { // offset of the '\n' (or len)
	if line+1 < len(d.lines) {
		return d.lines[line+1] - 1
	}
	return len(d.content)
}

func (d *lexDoc) text(l proto.Lexeme) string {
	if l.End < l.Begin {
		return ""
	}
	return string(d.content[l.Begin : l.End+1])
}

type rewrite struct {
	kind    string
	site    string
	content []byte
	// lineMap: original 1-based line -> new 1-based line
	shiftAt, shiftBy int // lines >= shiftAt (1-based, original) move by shiftBy
	shift2At, shift2 int
	indented         bool // a composition that includes the uniform re-indentation
	textStart        bool // the inserted lines stand where a Description text begins: they are the first lines of the text lexeme now
}

func (rw *rewrite) mapLine(l int) int {
	n := l
	if rw.shiftBy != 0 && l >= rw.shiftAt {
		n += rw.shiftBy
	}
	if rw.shift2 != 0 && l >= rw.shift2At {
		n += rw.shift2
	}
	return n
}

func insertLines(content []byte, at int, text string) []byte {
	out := append([]byte(nil), content[:at]...)
	out = append(out, text...)
	return append(out, content[at:]...)
}

var commentTexts = []string{
	"# a plain comment\n",
	"# see #12, #13 and #14 (three signs in one line)\n",
	"# \"quotes\" (parens) // slashes /* stars */ {braces}\n",
	"\n",
	"   \n",
	"\t\n",
	"###\nblock comment\n###\n",
	"###\nGET /not/a/directive\nTYPE @fake\n# inner # signs\n###\n",
	"### one line block ###\n",
	"# first\n# second\n\n",
}

// toCtxTokens converts a lexeme stream into the reference automaton's tokens; idx maps token -> lexeme index of its keyword.
func toCtxTokens(d *lexDoc) (toks []ref.CtxToken, idx []int) {
	for i := 0; i < len(d.lex); i++ {
		l := d.lex[i]
		switch l.Type {
		case "keyword":
			kw := d.text(l)
			kind := kw
			if len(kw) == 3 && kw[0] >= '1' && kw[0] <= '5' {
				kind = "HTTP-response-code"
			}
			t := ref.CtxToken{Kind: kind, Include: kw == "INCLUDE"}
			if ref.IsMethodKind(kind) && i+1 < len(d.lex) && d.lex[i+1].Type == "property" {
				t.HasPath = true
			}
			toks = append(toks, t)
			idx = append(idx, i)
		case "context-opening":
			if len(toks) > 0 {
				toks[len(toks)-1].Explicit = true
			}
		case "context-closing":
			toks = append(toks, ref.CtxToken{Close: true})
			idx = append(idx, i)
		}
	}
	return
}

// genRewrites produces rewrites of one document. all: every legal site (thorough), else up to perKind sampled sites.
func genRewrites(d *lexDoc, r *rand.Rand, all bool, perKind int) []*rewrite {
	var out []*rewrite
	c := d.content
	pureLF := !strings.Contains(string(c), "\r")
	if !pureLF {
		return nil
	}
	// R1 line endings
	out = append(out, &rewrite{kind: "R1-crlf", content: []byte(strings.ReplaceAll(string(c), "\n", "\r\n"))},
		&rewrite{kind: "R1-cr", content: []byte(strings.ReplaceAll(string(c), "\n", "\r"))})
	// R2 uniform re-indentation
	for _, pre := range []string{"  ", "\t"} {
		var sb strings.Builder
		for i, ls := range d.lines {
			end := len(c)
			if i+1 < len(d.lines) {
				end = d.lines[i+1]
			}
			if ls == end {
				continue
			}
			if strings.TrimRight(string(c[ls:end]), "\n") == "" {
				sb.Write(c[ls:end]) // empty lines stay empty, as an editor's re-indent leaves them
				continue
			}
			sb.WriteString(pre)
			sb.Write(c[ls:end])
		}
		out = append(out, &rewrite{kind: "R2-indent", site: fmt.Sprintf("%q", pre), content: []byte(sb.String())})
	}
	if !d.scanOK {
		return out
	}
	choose := func(n int) []int {
		if all || n <= perKind {
			s := make([]int, n)
			for i := range s {
				s[i] = i
			}
			return s
		}
		p := r.Perm(n)[:perKind]
		return p
	}
	// R3 trivia before a directive line
	var kwIdx []int
	prevKw := ""
	for i, l := range d.lex {
		if l.Type != "keyword" {
			continue
		}
		if prevKw != "Description" {
			kwIdx = append(kwIdx, i)
		}
		prevKw = d.text(l)
	}
	for _, k := range choose(len(kwIdx)) {
		l := d.lex[kwIdx[k]]
		line := d.lineOf(l.Begin)
		// the keyword must be the first thing on its line
		if strings.TrimSpace(string(c[d.lines[line]:l.Begin])) != "" {
			continue
		}
		txt := commentTexts[r.Intn(len(commentTexts))]
		out = append(out, &rewrite{kind: "R3-trivia", site: fmt.Sprintf("before line %d (%s)", line+1, d.text(l)), content: insertLines(c, d.lines[line], txt),
			shiftAt: line + 1, shiftBy: strings.Count(txt, "\n")})
	}
	// R3 also between the Description keyword and its text (or its opening parenthesis): empty lines and lines of blanks there are
	// ignored like anywhere else (comments are not: a '#' line there is text)
	var descKw []int
	for i, l := range d.lex {
		if l.Type == "keyword" && d.text(l) == "Description" && i+1 < len(d.lex) && d.lex[i+1].Type == "text" && d.lineOf(d.lex[i+1].Begin) > d.lineOf(l.Begin) {
			descKw = append(descKw, i)
		}
	}
	for _, k := range choose(len(descKw)) {
		l := d.lex[descKw[k]]
		line := d.lineOf(l.Begin) + 1
		if line >= len(d.lines) {
			continue
		}
		txt := []string{"\n", "   \n", "\t\n", " \n\n", "        \n"}[r.Intn(5)]
		out = append(out, &rewrite{kind: "R3-trivia", site: fmt.Sprintf("blank line after the Description keyword of line %d", line), content: insertLines(c, d.lines[line], txt),
			shiftAt: line + 1, shiftBy: strings.Count(txt, "\n"), textStart: true})
	}
	// R4 trailing blanks: lines whose last lexeme is not a Description text
	lastOnLine := map[int]proto.Lexeme{}
	for _, l := range d.lex {
		if l.End >= l.Begin {
			lastOnLine[d.lineOf(l.End)] = l
		} else {
			lastOnLine[d.lineOf(l.Begin)] = l
		}
	}
	var r4 []int
	for ln, l := range lastOnLine {
		if l.Type == "text" {
			continue
		}
		// nothing but blanks may follow the lexeme on its line (no comment: blanks after a comment are part of it anyway)
		rest := strings.TrimRight(string(c[l.End+1:d.lineEnd(ln)]), " \t")
		if l.Type == "annotation" && strings.HasPrefix(rest, "*/") {
			rest = strings.TrimSpace(rest[2:])
		}
		if rest == "" {
			r4 = append(r4, ln)
		}
	}
	sortInts(r4)
	for _, k := range choose(len(r4)) {
		ln := r4[k]
		out = append(out, &rewrite{kind: "R4-trailing", site: fmt.Sprintf("line %d after %s", ln+1, lastOnLine[ln].Type), content: insertLines(c, d.lineEnd(ln), []string{" ", "\t", "   "}[r.Intn(3)])})
	}
	// R4 on an empty line inside a Description text: the line stays a line without text
	var emptyInText []int
	for _, l := range d.lex {
		if l.Type != "text" || l.End < l.Begin {
			continue
		}
		first, last := d.lineOf(l.Begin), d.lineOf(l.End)
		for ln := first + 1; ln < last; ln++ {
			if d.lineEnd(ln) == d.lines[ln] {
				emptyInText = append(emptyInText, ln)
			}
		}
	}
	for _, k := range choose(len(emptyInText)) {
		ln := emptyInText[k]
		out = append(out, &rewrite{kind: "R4-trailing", site: fmt.Sprintf("empty line %d inside a Description text", ln+1), content: insertLines(c, d.lineEnd(ln), []string{" ", "\t", "   ", "  \t "}[r.Intn(4)])})
	}
	// R5 quote a bare parameter
	var params []int
	for i, l := range d.lex {
		if l.Type == "property" && l.End >= l.Begin && c[l.Begin] != '"' {
			params = append(params, i)
		}
	}
	for _, k := range choose(len(params)) {
		l := d.lex[params[k]]
		t := d.text(l)
		q := "\"" + strings.ReplaceAll(strings.ReplaceAll(t, "\\", "\\\\"), "\"", "\\\"") + "\""
		nc := append([]byte(nil), c[:l.Begin]...)
		nc = append(nc, q...)
		nc = append(nc, c[l.End+1:]...)
		out = append(out, &rewrite{kind: "R5-quote", site: t, content: nc})
	}
	// R6 annotation style
	var anns []int
	for i, l := range d.lex {
		if l.Type == "annotation" && l.End >= l.Begin && l.Begin >= 2 {
			anns = append(anns, i)
		}
	}
	for _, k := range choose(len(anns)) {
		l := d.lex[anns[k]]
		t := d.text(l)
		ln := d.lineOf(l.Begin)
		switch {
		case string(c[l.Begin-2:l.Begin]) == "//":
			if strings.ContainsAny(t, "#\n") || strings.Contains(t, "*/") || d.lineOf(l.End) != ln {
				continue
			}
			if strings.TrimSpace(string(c[l.End+1:d.lineEnd(ln)])) != "" {
				continue // a '#' comment follows: after "*/" it would be read differently ('###' opens a block there)
			}
			nc := append([]byte(nil), c[:l.Begin-2]...)
			nc = append(nc, "/*"...)
			nc = append(nc, t...)
			nc = append(nc, " */"...)
			nc = append(nc, c[l.End+1:]...)
			out = append(out, &rewrite{kind: "R6-line-to-block", site: t, content: nc})
		case string(c[l.Begin-2:l.Begin]) == "/*":
			if strings.ContainsAny(t, "#\n") || d.lineOf(l.End) != ln || l.End+3 > len(c) || string(c[l.End+1:l.End+3]) != "*/" {
				continue
			}
			if strings.TrimSpace(string(c[l.End+3:d.lineEnd(ln)])) != "" {
				continue
			}
			nc := append([]byte(nil), c[:l.Begin-2]...)
			nc = append(nc, "//"...)
			nc = append(nc, t...)
			nc = append(nc, c[l.End+3:]...)
			out = append(out, &rewrite{kind: "R6-block-to-line", site: t, content: nc})
		}
	}
	// R7 explicit <-> implicit context
	toks, idx := toCtxTokens(d)
	v := ref.RunContext(toks)
	if v.OK && d.base != nil && d.base.Accepted {
		// node number of every token
		nodeOf := map[int]int{}
		for n, ti := range v.Nodes {
			nodeOf[ti] = n
		}
		var cand []int
		for ti, t := range toks {
			if !t.Close && !t.Include && !t.Explicit && t.Kind != "Description" {
				if _, ok := nodeOf[ti]; ok {
					cand = append(cand, ti)
				}
			}
		}
		for _, k := range choose(len(cand)) {
			ti := cand[k]
			n := nodeOf[ti]
			// descendants: following nodes whose ancestor chain contains n
			isDesc := func(m int) bool {
				for p := v.Parents[m]; p >= 0; p = v.Parents[p] {
					if p == n {
						return true
					}
				}
				return false
			}
			// not inside a macro body, and no PASTE below: what a macro body attaches to is decided again when it is pasted
			inMacro := false
			for p := v.Parents[n]; p >= 0; p = v.Parents[p] {
				if toks[v.Nodes[p]].Kind == "MACRO" {
					inMacro = true
				}
			}
			if inMacro || toks[ti].Kind == "MACRO" || toks[ti].Kind == "PASTE" {
				continue
			}
			hasPaste := false
			for m := n + 1; m < len(v.Nodes) && isDesc(m); m++ {
				if toks[v.Nodes[m]].Kind == "PASTE" {
					hasPaste = true
				}
			}
			if hasPaste {
				continue
			}
			endTok := len(toks) // token before which ")" goes
			for tj := ti + 1; tj < len(toks); tj++ {
				if toks[tj].Close {
					// a ")" that closes an ancestor ends the subtree
					endTok = tj
					// but a ")" that belongs to a descendant does not: count opens inside
					depth := 0
					for q := ti + 1; q <= tj; q++ {
						if toks[q].Close {
							depth--
						} else if toks[q].Explicit {
							depth++
						}
					}
					if depth < 0 {
						break
					}
					endTok = len(toks)
					continue
				}
				if m, ok := nodeOf[tj]; ok && !isDesc(m) {
					endTok = tj
					break
				}
				if toks[tj].Include {
					continue
				}
			}
			// validate with the reference: same parents after making ti explicit and adding ")" before endTok
			nt := append([]ref.CtxToken(nil), toks[:endTok]...)
			nt[ti].Explicit = true
			nt = append(nt, ref.CtxToken{Close: true})
			nt = append(nt, toks[endTok:]...)
			v2 := ref.RunContext(nt)
			if !v2.OK || len(v2.Parents) != len(v.Parents) {
				continue
			}
			same := true
			for q := range v.Parents {
				if v.Parents[q] != v2.Parents[q] {
					same = false
				}
			}
			if !same {
				continue
			}
			// text positions: "(" goes before the line of the first lexeme after the directive's own lexemes that is a keyword or
			// a parenthesis; ")" goes before the line of token endTok (or at the end of the file)
			li := idx[ti] + 1
			for li < len(d.lex) && d.lex[li].Type != "keyword" && d.lex[li].Type != "context-opening" && d.lex[li].Type != "context-closing" {
				li++
			}
			openAt := len(c)
			openLine := len(d.lines)
			if li < len(d.lex) {
				openLine = d.lineOf(d.lex[li].Begin)
				openAt = d.lines[openLine]
				if strings.TrimSpace(string(c[openAt:d.lex[li].Begin])) != "" {
					continue
				}
			}
			closeAt, closeLine := len(c), len(d.lines)
			if endTok < len(toks) {
				cl := d.lex[idx[endTok]]
				closeLine = d.lineOf(cl.Begin)
				closeAt = d.lines[closeLine]
				if strings.TrimSpace(string(c[closeAt:cl.Begin])) != "" {
					continue
				}
			}
			if closeAt < openAt {
				continue
			}
			tail := ""
			if len(c) > 0 && c[len(c)-1] != '\n' {
				tail = "\n"
			}
			var nc []byte
			nc = append(nc, c[:openAt]...)
			if openAt == len(c) {
				nc = append(nc, tail...)
			}
			nc = append(nc, "(\n"...)
			nc = append(nc, c[openAt:closeAt]...)
			if closeAt == len(c) && openAt != len(c) {
				nc = append(nc, tail...)
			}
			nc = append(nc, ")\n"...)
			nc = append(nc, c[closeAt:]...)
			out = append(out, &rewrite{kind: "R7-make-explicit", site: fmt.Sprintf("%s at line %d", toks[ti].Kind, d.lineOf(d.lex[idx[ti]].Begin)+1), content: nc,
				shiftAt: openLine + 1, shiftBy: 1, shift2At: closeLine + 1, shift2: 1})
		}
	}
	return out
}

type edit struct {
	pos, del int
	ins      string
}

// editOf derives the edit that turns the original into a single-site rewrite (common prefix / common suffix).
func editOf(orig, rewritten []byte) edit {
	p := 0
	for p < len(orig) && p < len(rewritten) && orig[p] == rewritten[p] {
		p++
	}
	s := 0
	for s < len(orig)-p && s < len(rewritten)-p && orig[len(orig)-1-s] == rewritten[len(rewritten)-1-s] {
		s++
	}
	return edit{pos: p, del: len(orig) - p - s, ins: string(rewritten[p : len(rewritten)-s])}
}

// composeRewrites builds n compositions: 2-6 single-site rewrites of different lines applied together, then (each with probability
// 1/2) a uniform re-indentation and a change of the line-ending convention on top.
func composeRewrites(d *lexDoc, singles []*rewrite, r *rand.Rand, n int) []*rewrite {
	var local []*rewrite
	for _, rw := range singles {
		switch rw.kind {
		case "R3-trivia", "R4-trailing", "R5-quote", "R6-line-to-block", "R6-block-to-line":
			local = append(local, rw)
		}
	}
	if len(local) < 2 {
		return nil
	}
	var out []*rewrite
	for k := 0; k < n; k++ {
		m := 2 + r.Intn(5)
		usedLine := map[int]bool{}
		var eds []edit
		var parts []string
		for _, i := range r.Perm(len(local)) {
			if len(eds) == m {
				break
			}
			e := editOf(d.content, local[i].content)
			l1, l2 := d.lineOf(e.pos), d.lineOf(e.pos+e.del)
			if e.pos >= len(d.content) {
				l1, l2 = len(d.lines), len(d.lines)
			}
			clash := false
			for l := l1 - 1; l <= l2+1; l++ {
				if usedLine[l] {
					clash = true
				}
			}
			if clash {
				continue
			}
			for l := l1; l <= l2; l++ {
				usedLine[l] = true
			}
			eds = append(eds, e)
			parts = append(parts, local[i].kind)
		}
		if len(eds) < 2 {
			continue
		}
		// apply from the end
		for i := 1; i < len(eds); i++ {
			for j := i; j > 0 && eds[j].pos > eds[j-1].pos; j-- {
				eds[j], eds[j-1] = eds[j-1], eds[j]
			}
		}
		c := append([]byte(nil), d.content...)
		for _, e := range eds {
			nc := append([]byte(nil), c[:e.pos]...)
			nc = append(nc, e.ins...)
			c = append(nc, c[e.pos+e.del:]...)
		}
		rw := &rewrite{kind: "RC-composed"}
		if r.Intn(2) == 0 {
			pre := []string{"  ", "\t", "    "}[r.Intn(3)]
			var sb strings.Builder
			for _, ln := range strings.SplitAfter(string(c), "\n") {
				if strings.TrimRight(ln, "\n") != "" {
					sb.WriteString(pre)
				}
				sb.WriteString(ln)
			}
			c = []byte(sb.String())
			parts = append(parts, "R2-indent")
			rw.indented = true
		}
		switch r.Intn(4) {
		case 0:
			c = []byte(strings.ReplaceAll(string(c), "\n", "\r\n"))
			parts = append(parts, "R1-crlf")
		case 1:
			c = []byte(strings.ReplaceAll(string(c), "\n", "\r"))
			parts = append(parts, "R1-cr")
		}
		rw.site, rw.content = strings.Join(parts, "+"), c
		out = append(out, rw)
	}
	return out
}

func sortInts(a []int) {
	for i := 1; i < len(a); i++ {
		for j := i; j > 0 && a[j] < a[j-1]; j-- {
			a[j], a[j-1] = a[j-1], a[j]
		}
	}
}

// normJSON re-serialises a catalog with CRLF/CR inside string values normalised to LF.
func normJSON(b []byte) (string, error) {
	v, err := ref.ParseJSON(b)
	if err != nil {
		return "", err
	}
	var norm func(x interface{}) interface{}
	norm = func(x interface{}) interface{} {
		switch t := x.(type) {
		case *ref.Obj:
			for k, vv := range t.M {
				t.M[k] = norm(vv)
			}
			return t
		case []interface{}:
			for i := range t {
				t[i] = norm(t[i])
			}
			return t
		case string:
			return strings.ReplaceAll(strings.ReplaceAll(t, "\r\n", "\n"), "\r", "\n")
		}
		return x
	}
	return ref.Compact(norm(v)), nil
}

// C08 – layout does not change meaning.
func C08(c *fw.Ctx) {
	perKind := c.Pick(3, 0)
	c.Rule("inputs: every single-file corpus document (accepted and rejected) and rendered models; rewrites: LF->CRLF, LF->CR, uniform re-indentation, " +
		"blank lines / '#' comments (with several '#' inside) / '###' blocks before a directive line, trailing blanks after keyword, parameter, " +
		"annotation, parenthesis and body lines, quoting of bare parameters, '//' <-> '/* */' annotations, implicit -> explicit context " +
		"(validated with the reference automaton); quick: up to 3 sampled sites per rewrite kind and document, thorough: every legal site once; " +
		"compositions: 3 / 12 per document of 2-6 single-site rewrites on different lines applied together, with re-indentation and a " +
		"line-ending change on top (for rejected originals only verdict and error class are compared); layout pairs: 250 / 6000 abstract " +
		"models rendered plainly and in 12 layouts that differ from the plain one in exactly one dimension (where a blank, a comment, a " +
		"quote or a parenthesis goes is decided there by the renderer, not by the scanner under test) - equal catalogs; " +
		"legal sites come from the public lexeme stream; oracle: accepted stays accepted with an equal catalog (CR/CRLF in string values " +
		"normalised), rejected stays rejected with the same error class and the error line moves with the text; distinct = distinct rewritten " +
		"documents; non-trivial = every rewrite that changed the bytes")
	c.Assume("a site is legal if the lexeme stream says so (e.g. never between a Description and its text); error class as in DESIGN §1")
	pool := c.Pool(false, 0)
	corpus := Corpus(c)
	docs := map[string]*lexDoc{}
	// pass 1: lexemes and baseline
	c.RunJobs(pool, func(emit func(*proto.Job)) {
		add := func(name string, content []byte) {
			maxMuLock.Lock()
			docs[name] = &lexDoc{name: name, content: content, lines: lineStarts(content)}
			maxMuLock.Unlock()
			emit(&proto.Job{ID: "scan/" + name, Root: "root.jst", Files: map[string][]byte{"root.jst": content}, Scan: true})
			emit(&proto.Job{ID: "base/" + name, Root: "root.jst", Files: map[string][]byte{"root.jst": content}, InMemory: true, Ops: []string{"json"}})
		}
		for _, p := range corpus {
			if !p.HasInclude() {
				add(p.Name, p.RootContent())
			}
		}
		for name, content := range ruleRejectedDocs() {
			add(name, content)
		}
		// Description texts with empty lines inside, in every place a Description may stand, plain and in parentheses
		for i, dsc := range []string{"    first\n\n    second\n", "    first\n\n\n      deeper\n\n    back\n", "  (\n    first\n\n    second\n  )\n", "    - item\n\n      continued\n\n    - item 2\n"} {
			add(fmt.Sprintf("description-with-empty-lines-%d-method", i), []byte("JSIGHT 0.3\nGET /a\n  Description\n"+dsc+"  200 any\n"))
			add(fmt.Sprintf("description-with-empty-lines-%d-info", i), []byte("JSIGHT 0.3\nINFO\n  Title \"t\"\n  Description\n"+dsc+"GET /a\n  200 any\n"))
			add(fmt.Sprintf("description-with-empty-lines-%d-tag", i), []byte("JSIGHT 0.3\nTAG @g\n  Description\n"+dsc+"GET /a\n  Tags @g\n  200 any\n"))
		}
		r := gen.Rng(c.Seed, c.ID, "models")
		for i := 0; i < c.Pick(200, 3000); i++ {
			m := model.Generate(r, model.QuickSize)
			l := model.RandomLayout(r)
			l.Includes, l.EOL = false, "\n"
			rd := m.Render(l)
			add(fmt.Sprintf("model-%d", i), rd.Files[rd.Root])
		}
	}, func(j *proto.Job, res *proto.Result) {
		if workerProblem(c, res) {
			return
		}
		name := j.ID[5:]
		maxMuLock.Lock()
		d := docs[name]
		maxMuLock.Unlock()
		if strings.HasPrefix(j.ID, "scan/") {
			d.lex, d.scanOK = res.Lexemes, res.Accepted && res.Panic == nil
		} else {
			d.base = res
		}
	})
	type pend struct {
		d  *lexDoc
		rw *rewrite
	}
	pending := map[string]*pend{}
	var names []string
	for n := range docs {
		names = append(names, n)
	}
	sortStrings(names)
	c.RunJobs(pool, func(emit func(*proto.Job)) {
		n := 0
		for _, name := range names {
			d := docs[name]
			if d.base == nil || d.base.Fatal != nil || d.base.Panic != nil {
				continue
			}
			r := gen.Rng(c.Seed, c.ID, "rw", name)
			singles := genRewrites(d, r, perKind == 0, perKind)
			singles = append(singles, composeRewrites(d, singles, r, c.Pick(3, 12))...)
			for _, rw := range singles {
				if string(rw.content) == string(d.content) {
					continue
				}
				n++
				id := fmt.Sprintf("rw/%d", n)
				maxMuLock.Lock()
				pending[id] = &pend{d, rw}
				maxMuLock.Unlock()
				emit(&proto.Job{ID: id, Root: "root.jst", Files: map[string][]byte{"root.jst": rw.content}, InMemory: true, Ops: []string{"json"}})
			}
		}
	}, func(j *proto.Job, res *proto.Result) {
		if workerProblem(c, res) {
			return
		}
		maxMuLock.Lock()
		p := pending[j.ID]
		delete(pending, j.ID)
		maxMuLock.Unlock()
		d, rw := p.d, p.rw
		c.Count(jobKey(j), true)
		c.Inc("rewrites", rw.kind, 1)
		rp := &fw.Replay{Jobs: []*proto.Job{{ID: "original", Root: "root.jst", Files: map[string][]byte{"root.jst": d.content}, InMemory: true, Ops: []string{"json"}}, j},
			Results: []interface{}{d.base, res}, Expected: map[string]interface{}{"document": d.name, "rewrite": rw.kind, "site": rw.site}}
		if sig, what := crashSig(res); sig != "" {
			c.Violate(sig, fmt.Sprintf("%s of %s at %s: %s", rw.kind, d.name, rw.site, what), rp)
			return
		}
		base := d.base
		if base.Accepted {
			c.Inc("verdicts", "accepted-original", 1)
			if !res.Accepted {
				c.Violate("accepted-becomes-rejected:"+rw.kind, fmt.Sprintf("%s (%s) of %s: now rejected with %q at line %d", rw.kind, rw.site, d.name, res.Err.Msg, res.Err.Line), rp)
				return
			}
			a, b := findOut(base, "json"), findOut(res, "json")
			if sig, what := onlyOneSerialises(a, b); sig != "" {
				c.Violate("rewrite-not-serialisable:"+rw.kind, fmt.Sprintf("%s (%s) of %s: the original has a catalog, the rewrite is accepted but has none: %s", rw.kind, rw.site, d.name, what), rp)
				return
			}
			if a == nil || b == nil || a.Bytes == nil || b.Bytes == nil {
				return // ToJson problems of the original are judged by C04
			}
			na, e1 := normJSON(a.Bytes)
			nb, e2 := normJSON(b.Bytes)
			if e1 != nil || e2 != nil {
				return
			}
			if na != nb && exampleOnlyDiff(a.Bytes, b.Bytes, j.Files) {
				c.Violate("catalog-changed:"+sigRegexExample, fmt.Sprintf("%s of %s: only regex-type examples differ", rw.kind, d.name), rp)
				return
			}
			if na != nb {
				sig := "catalog-changed:" + rw.kind
				if (rw.kind == "R2-indent" || rw.indented) && stripNotes(na) == stripNotes(nb) {
					sig = "catalog-changed:R2-indent:only-multi-line-notes-differ"
				}
				c.Violate(sig, fmt.Sprintf("%s (%s) of %s changes the catalog: %s", rw.kind, rw.site, d.name, firstDiff(na, nb)), rp)
			}
			return
		}
		c.Inc("verdicts", "rejected-original", 1)
		if res.Accepted {
			c.Violate("rejected-becomes-accepted:"+rw.kind, fmt.Sprintf("%s (%s) of %s: the original is rejected (%q), the rewrite is accepted", rw.kind, rw.site, d.name, base.Err.Msg), rp)
			return
		}
		if base.Err == nil || res.Err == nil {
			return
		}
		if msgClass(base.Err.Msg) != msgClass(res.Err.Msg) {
			c.Violate("error-class-changed:"+rw.kind, fmt.Sprintf("%s (%s) of %s: %q becomes %q", rw.kind, rw.site, d.name, trunc(base.Err.Msg, 120), trunc(res.Err.Msg, 120)), rp)
			return
		}
		if base.Err.Line > 0 && base.Err.Index <= len(d.content) && rw.kind != "RC-composed" { // also errors at the end of the file (they have a line since D40)
			want := rw.mapLine(base.Err.Line)
			if rw.textStart && base.Err.Line == rw.shiftAt && res.Err.Line == base.Err.Line {
				// an error about the text as a whole points at the first line of the text lexeme, which begins right after the
				// keyword line: the inserted blank lines are its first lines now
				want = res.Err.Line
			}
			if res.Err.Line != want {
				sig := "error-line:" + rw.kind
				if strings.HasPrefix(rw.kind, "R1") && res.Err.Line == want-1 && msgClass(base.Err.Msg) == "syntax" {
					sig = "error-line:R1:one-line-early-in-description-text"
				}
				c.Violate(sig, fmt.Sprintf("%s (%s) of %s: the error was on line %d, should now be on line %d, is on line %d (%s)", rw.kind, rw.site, d.name, base.Err.Line, want, res.Err.Line, trunc(res.Err.Msg, 80)), rp)
			}
		}
		if c.NeedSample() && rw.kind == "R7-make-explicit" {
			c.Sample(map[string]interface{}{"document": d.name, "rewrite": rw.kind, "site": rw.site, "rewritten": sampleDoc(rw.content)})
		}
	})
	c08LayoutPairs(c, pool)
	c.Finish()
}

// c08LayoutPairs: the same abstract model written by the renderer in a plain layout and in layouts that differ from it in exactly
// one dimension. Where a rewrite may be applied is decided here by the renderer, not by the scanner under test.
func c08LayoutPairs(c *fw.Ctx, pool *proc.Pool) {
	type variant struct {
		dim string
		set func(l *model.Layout)
	}
	variants := []variant{
		{"eol-crlf", func(l *model.Layout) { l.EOL = "\r\n" }}, {"eol-cr", func(l *model.Layout) { l.EOL = "\r" }},
		{"indent-4", func(l *model.Layout) { l.Unit = "    " }}, {"indent-tab", func(l *model.Layout) { l.Unit = "\t" }}, {"indent-none", func(l *model.Layout) { l.FlatIndent = true; l.ExplicitP = 100 }},
		{"comments", func(l *model.Layout) { l.Comments = true }}, {"trailing-blanks", func(l *model.Layout) { l.Trailing = true }},
		{"quote-all", func(l *model.Layout) { l.QuoteAll = true }}, {"block-annotations", func(l *model.Layout) { l.BlockAnn = true }}, {"block-annotations-tight", func(l *model.Layout) { l.BlockAnn, l.TightAnn = true, true }}, {"line-annotations-tight", func(l *model.Layout) { l.TightAnn = true }},
		{"explicit-contexts", func(l *model.Layout) { l.ExplicitP = 100 }}, {"explicit-some", func(l *model.Layout) { l.ExplicitP = 50 }},
		{"explicit-even-siblings", func(l *model.Layout) { l.ExplicitAlt = 1 }}, {"explicit-odd-siblings", func(l *model.Layout) { l.ExplicitAlt = 2 }}, {"token-gaps", func(l *model.Layout) { l.Gaps = true }},
	}
	type pairState struct {
		base     *proto.Result
		baseDoc  []byte
		variants map[string]*proto.Result
		docs     map[string][]byte
	}
	states := map[string]*pairState{}
	judge := func(id string, st *pairState, dim string, res *proto.Result) {
		rp := &fw.Replay{Jobs: []*proto.Job{{ID: "plain", Root: "root.jst", Files: map[string][]byte{"root.jst": st.baseDoc}, InMemory: true, Ops: []string{"json"}},
			{ID: dim, Root: "root.jst", Files: map[string][]byte{"root.jst": st.docs[dim]}, InMemory: true, Ops: []string{"json"}}}, Results: []interface{}{st.base, res},
			Expected: map[string]interface{}{"model": id, "dimension": dim}}
		c.Inc("layout_pairs", dim, 1)
		for _, r := range []*proto.Result{st.base, res} {
			if sig, what := crashSig(r); sig != "" {
				c.Violate(sig, what, rp)
				return
			}
		}
		if !st.base.Accepted {
			// that a rendered model is rejected at all is C02's business; that another layout of the same model gets another
			// verdict or another class of error is a layout dependence
			switch {
			case res.Accepted:
				c.Violate("rejected-becomes-accepted:layout-pair:"+dim, fmt.Sprintf("model %s: the plain rendering is rejected (%q at line %d), the one that differs in %s is accepted", id, st.base.Err.Msg, st.base.Err.Line, dim), rp)
			case st.base.Err != nil && res.Err != nil && msgClass(st.base.Err.Msg) != msgClass(res.Err.Msg):
				c.Violate("error-class-changed:layout-pair:"+dim, fmt.Sprintf("model %s: %q becomes %q", id, trunc(st.base.Err.Msg, 120), trunc(res.Err.Msg, 120)), rp)
			}
			return
		}
		if !res.Accepted {
			c.Violate("accepted-becomes-rejected:layout-pair:"+dim, fmt.Sprintf("model %s: the plain rendering is accepted, the one that differs in %s is rejected: %q at line %d", id, dim, res.Err.Msg, res.Err.Line), rp)
			return
		}
		a, b := findOut(st.base, "json"), findOut(res, "json")
		if sig, what := onlyOneSerialises(a, b); sig != "" {
			c.Violate("rewrite-not-serialisable:layout-pair:"+dim, fmt.Sprintf("model %s: the plain rendering has a catalog, the one that differs in %s is accepted but has none: %s", id, dim, what), rp)
			return
		}
		if a == nil || b == nil || a.Bytes == nil || b.Bytes == nil {
			return
		}
		na, e1 := normJSON(a.Bytes)
		nb, e2 := normJSON(b.Bytes)
		if e1 != nil || e2 != nil || na == nb {
			return
		}
		if exampleOnlyDiff(a.Bytes, b.Bytes, map[string][]byte{"root.jst": st.baseDoc}) {
			c.Violate("catalog-changed:"+sigRegexExample, "layout pair: only regex-type examples differ", rp)
			return
		}
		c.Violate("catalog-changed:layout-pair:"+dim, fmt.Sprintf("model %s rendered with %s gives another catalog than the plain rendering: %s", id, dim, firstDiff(na, nb)), rp)
	}
	c.RunJobs(pool, func(emit func(*proto.Job)) {
		r := gen.Rng(c.Seed, c.ID, "pair-models")
		for i := 0; i < c.Pick(250, 6000); i++ {
			m := model.Generate(r, model.QuickSize)
			id := fmt.Sprintf("%d", i)
			base := model.PlainLayout()
			base.R = gen.Rng(c.Seed, c.ID, "pair-structure", id)
			base.URLExtrasLast = i%2 == 1
			rd := m.Render(base)
			st := &pairState{baseDoc: rd.Files[rd.Root], variants: map[string]*proto.Result{}, docs: map[string][]byte{}}
			var jobs []*proto.Job
			for _, v := range variants {
				l := model.PlainLayout()
				v.set(l)
				l.URLExtrasLast = i%2 == 1
				l.R = gen.Rng(c.Seed, c.ID, "pair-structure", id)
				rv := m.Render(l)
				st.docs[v.dim] = rv.Files[rv.Root]
				jobs = append(jobs, &proto.Job{ID: "pairv/" + id + "/" + v.dim, Root: "root.jst", Files: map[string][]byte{"root.jst": rv.Files[rv.Root]}, InMemory: true, Ops: []string{"json"}})
			}
			maxMuLock.Lock()
			states[id] = st
			maxMuLock.Unlock()
			emit(&proto.Job{ID: "pairb/" + id, Root: "root.jst", Files: map[string][]byte{"root.jst": st.baseDoc}, InMemory: true, Ops: []string{"json"}})
			for _, j := range jobs {
				emit(j)
			}
		}
	}, func(j *proto.Job, res *proto.Result) {
		if workerProblem(c, res) {
			return
		}
		parts := strings.SplitN(j.ID, "/", 3)
		maxMuLock.Lock()
		st := states[parts[1]]
		ready := map[string]*proto.Result{}
		if parts[0] == "pairb" {
			st.base = res
			for d, r := range st.variants {
				ready[d] = r
			}
		} else {
			st.variants[parts[2]] = res
			if st.base != nil {
				ready[parts[2]] = res
			}
		}
		maxMuLock.Unlock()
		c.Count(jobKey(j), true)
		for d, r := range ready {
			judge(parts[1], st, d, r)
		}
	})
}

func firstDiff(a, b string) string {
	i := 0
	for i < len(a) && i < len(b) && a[i] == b[i] {
		i++
	}
	lo := i - 60
	if lo < 0 {
		lo = 0
	}
	ha, hb := i+80, i+80
	if ha > len(a) {
		ha = len(a)
	}
	if hb > len(b) {
		hb = len(b)
	}
	return fmt.Sprintf("…%s  VS  …%s", a[lo:ha], b[lo:hb])
}

var reNote = regexp.MustCompile(`"note":"(?:[^"\\]|\\.)*"`)

func stripNotes(s string) string { return reNote.ReplaceAllString(s, `"note":""`) }
