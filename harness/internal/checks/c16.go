package checks

import (
	"fmt"
	"strings"

	"verifharness/internal/fw"
	"verifharness/internal/gen"
	"verifharness/internal/proto"
)

var accessors = []string{"json", "jsonindent", "openapi", "openapiindent", "title"}

func allSeqs(maxLen int) [][]string {
	var out [][]string
	var rec func(cur []string)
	rec = func(cur []string) {
		if len(cur) > 0 {
			out = append(out, append([]string(nil), cur...))
		}
		if len(cur) == maxLen {
			return
		}
		for _, a := range accessors {
			rec(append(cur, a))
		}
	}
	rec(nil)
	return out
}

// C16 – serialising is repeatable.
func C16(c *fw.Ctx) {
	k := c.Pick(4, 6)
	nExh := c.Pick(60, 300)
	c.Rule(fmt.Sprintf("for each accepted project the canonical value of every accessor is what it returns as the first call on a fresh build; "+
		"all %d call sequences of length <= %d over the five accessors are run on %d projects (documents of at most 6000 bytes; each sequence on a fresh build) and sampled "+
		"sequences of length 6 on the remaining accepted corpus/targeted projects; every call must return its canonical bytes; "+
		"distinct = distinct project bytes; non-trivial = accepted project with all sequences executed", len(allSeqs(k)), k, nExh))
	pool := c.Pool(false, 0)
	seqs := allSeqs(k)
	r := gen.Rng(c.Seed, c.ID, "seqs")
	sampleSeqs := func(n int) [][]string {
		var out [][]string
		for i := 0; i < n; i++ {
			s := make([]string, 6)
			for q := range s {
				s[q] = accessors[r.Intn(5)]
			}
			out = append(out, s)
		}
		return out
	}
	exh := 0
	c.RunJobs(pool, func(emit func(*proto.Job)) {
		// projects that favour lazily initialised state first
		favour := []string{
			"JSIGHT 0.3\nTYPE @r regex\n  /[a-z]{3}-\\d+/\nGET /a\n  200 @r\n  201 regex\n    /x+y/\n",
			"JSIGHT 0.3\nTYPE @r regex\n  /ab+/\nTYPE @o\n  {\"id\": @r, \"l\": [@r]}\nGET /a/{id}\n  Path\n    {\n      \"id\": \"abb\" // {type: \"@r\"}\n    }\n  200 @o\n",
			"JSIGHT 0.3\nTYPE @base\n  {\"b\": 1}\nTYPE @d\n  { // {allOf: \"@base\"}\n    \"x\": 2\n  }\nPOST /d\n  Request @d\n  200 [@d]\n",
			"JSIGHT 0.3\nINFO\n  Title \"The title\"\nTYPE @r regex\n  /z{2}/\nURL /rpc\n  Protocol json-rpc-2.0\n  Method m\n    Params\n      {\"p\": @r}\n    Result\n      @r\n",
			"JSIGHT 0.3\nENUM @e\n  [\"a\", \"b\"]\nTYPE @t\n  {\n    \"k\": \"a\" // {enum: @e}\n  }\nGET /e\n  Query \"k=a\"\n    {\n      \"k\": \"a\" // {enum: @e}\n    }\n  200 @t\n",
		}
		// the exhaustive sequence set goes out in slices, so that no single job runs long enough to meet the hang watchdog on a loaded machine
		emitExh := func(j *proto.Job) {
			// every sequence costs one build: the slice shrinks with the size of the document
			slice := 1500000 / (len(j.Files[j.Root]) + 2000)
			if slice > 1000 {
				slice = 1000
			}
			if slice < 50 {
				slice = 50
			}
			for k, part := 0, 0; k < len(seqs); k, part = k+slice, part+1 {
				e := k + slice
				if e > len(seqs) {
					e = len(seqs)
				}
				jj := *j
				jj.ID = fmt.Sprintf("%s~%d", j.ID, part)
				jj.Seqs = seqs[k:e]
				emit(&jj)
			}
		}
		favour = append(favour,
			"JSIGHT 0.3\nGET /a\n  200 empty\n  200 any\n  201\n    {} // {additionalProperties: \"decimal\"}\n  202 empty\n  202\n    {\"a\": 1}\n",
			"JSIGHT 0.3\nGET /h\n  200\n    Headers\n      {\"X-Id\": \"a\", \"X-Id \": \"b\", \" X-Id\": \"c\", \"x-id\": \"d\", \"X-Id\\t\": \"e\"}\n    Body any\n  201\n    Headers\n      {\"A\": \"1\", \"A \": \"2\"}\n    Body any\nPOST /h\n  Request\n    Headers\n      {\"K\": \"1\", \" K\": \"2\"}\n    Body any\n  200 any\n",
			"JSIGHT 0.3\nTYPE @cat\n\"k\" // {regex: \"[a-z]+\"}\nTYPE @b\n{\n  @cat: 2,\n  \"y\": 3\n}\nGET /a\n  200\n    { // {allOf: \"@b\"}\n      \"@cat\": 1\n    }\nGET /b\n  200\n    { // {allOf: \"@c\"}\n      @cat: 1\n    }\nTYPE @c\n{\n  \"@cat\": 5\n}\n",
			"JSIGHT 0.3\nGET /q\n  Query \"a=1\"\n    [1]\n  200 any\nGET /r\n  204 empty\n  204 any\n  205\n    {} // {additionalProperties: \"decimal\"}\n")
		for i, d := range favour {
			j := singleJob(fmt.Sprintf("favour-%d", i), []byte(d), false)
			j.ID = "favour/" + j.ID
			exh++
			emitExh(j)
		}
		acceptedWorkload(c, 1, func(label string, j *proto.Job) {
			if label == "light-mutant" && c.Quick() {
				return
			}
			j.ID = label + "/" + j.ID
			if exh < nExh && len(j.Files[j.Root]) <= 6000 && len(j.Files) == 1 && (label == "targeted" || strings.Contains(string(j.Files[j.Root]), "regex") || strings.Contains(string(j.Files[j.Root]), "allOf")) {
				exh++
				emitExh(j)
				return
			}
			j.Seqs = sampleSeqs(c.Pick(6, 40))
			emit(j)
		})
	}, func(j *proto.Job, res *proto.Result) {
		if workerProblem(c, res) {
			return
		}
		label := j.ID[:strings.Index(j.ID, "/")]
		if res.Fatal != nil && res.Fatal.Stage == "build" {
			// the process died while the project was being built: that is C01's matter, no accessor was ever called
			c.Count(jobKey(j), false)
			c.Inc("verdicts", "died-during-the-build(judged by C01)", 1)
			return
		}
		if res.Fatal != nil {
			// an accessor call that never returns (or kills the process) is the strongest way of not returning the canonical bytes
			c.Violate("fatal:"+res.Fatal.Kind+":"+res.Fatal.Func, "the worker process died or hung while the call sequences were run: "+firstLines(res.Fatal.Stderr, 5), replayOf(j, res))
			return
		}
		if sig, _ := crashSig(res); sig != "" || !res.Accepted {
			c.Count(jobKey(j), false)
			return
		}
		c.Count(jobKey(j), true)
		c.Inc("projects", label, 1)
		c.Inc("calls", "accessor_calls", res.SeqCalls)
		c.Inc("calls", "sequences", len(j.Seqs))
		for _, d := range res.SeqDiffs {
			prev := "first"
			if d.Call > 0 {
				prev = d.Seq[d.Call-1]
			}
			if d.ExamplesOnly && regexUnionProject(j.Files) {
				// every sequence runs on a build of its own: this is the build-to-build difference D27, not an effect of the call order
				c.Violate("unrepeatable:"+sigRegexExample, fmt.Sprintf("sequence %v: call %d (%s) differs from the canonical bytes only inside example strings of a project with a regex TYPE", d.Seq, d.Call, d.Op), replayOf(j, res))
				continue
			}
			c.Violate(fmt.Sprintf("unrepeatable:%s-after-%s", d.Op, prev),
				fmt.Sprintf("sequence %v: call %d (%s) returned %s, canonical is %s", d.Seq, d.Call, d.Op, d.Got, d.Canon), replayOf(j, res))
		}
		if c.NeedSample() && label == "favour" {
			c.Sample(map[string]interface{}{"document": sampleDoc(j.Files[j.Root]), "sequences": len(j.Seqs), "accessor_calls": res.SeqCalls, "example_sequence": j.Seqs[len(j.Seqs)/2]})
		}
	})
	if c.Hist("calls")["accessor_calls"] < 10000 {
		c.Inconclusive("fewer than 10000 accessor calls were compared")
	}
	c.Finish()
}
