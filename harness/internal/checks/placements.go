package checks

// keywordPlacement: what may stand directly before a line that begins with a keyword. Every text is well-formed up to its end,
// so the first thing the builder can object to is the keyword line that follows.
type keywordPlacement struct {
	name   string
	before string // the document up to the keyword line (ends with a line break)
	indent string // what stands before the keyword on its line
}

func keywordPlacements() []keywordPlacement {
	return []keywordPlacement{
		{"after-a-parameter-line", "JSIGHT 0.3\nGET /a\n  200 any\n", "  "},
		{"after-a-description-text", "JSIGHT 0.3\nGET /a\n  Description\n    Returns all the cats.\n", "  "},
		{"after-a-description-text-at-column-1", "JSIGHT 0.3\nGET /a\n  Description\n    Returns all the cats.\n", ""},
		{"after-a-description-text-deeper-than-the-text", "JSIGHT 0.3\nGET /a\n  Description\n    Returns all the cats.\n", "      "},
		{"after-a-description-text-and-an-empty-line", "JSIGHT 0.3\nGET /a\n  Description\n    Returns all the cats.\n\n", "  "},
		{"after-a-description-text-of-two-paragraphs", "JSIGHT 0.3\nGET /a\n  Description\n    One.\n\n    Two.\n", "  "},
		{"after-a-description-text-crlf", "JSIGHT 0.3\r\nGET /a\r\n  Description\r\n    Returns all the cats.\r\n", "  "},
		{"after-a-description-text-under-INFO", "JSIGHT 0.3\nINFO\n  Description\n    About this API.\n", "  "},
		{"after-a-description-text-under-TAG", "JSIGHT 0.3\nTAG @t\n  Description\n    About this tag.\n", ""},
		{"after-a-description-in-parentheses", "JSIGHT 0.3\nGET /a\n  Description\n  (\n    Returns all the cats.\n  )\n", "  "},
		{"after-an-annotation", "JSIGHT 0.3\nGET /a // a note\n", "  "},
		{"after-a-block-annotation", "JSIGHT 0.3\nGET /a /* two\n   lines */\n", "  "},
		{"after-a-schema-body", "JSIGHT 0.3\nGET /a\n  200\n    {\"a\": 1}\n", "  "},
		{"after-a-schema-body-with-a-note", "JSIGHT 0.3\nGET /a\n  200\n    {\"a\": 1 // one\n    }\n", "  "},
		{"after-a-regex-body", "JSIGHT 0.3\nGET /a\n  200 regex\n    /ab+/\n", "  "},
		{"after-an-enum-body", "JSIGHT 0.3\nENUM @e\n  [1, 2]\n", ""},
		{"after-a-comment-line", "JSIGHT 0.3\nGET /a\n# a comment\n", "  "},
		{"after-a-block-comment", "JSIGHT 0.3\nGET /a\n###\nblock\n###\n", "  "},
		{"after-a-quoted-parameter", "JSIGHT 0.3\nGET \"/a b\"\n", "  "},
		{"after-an-opening-parenthesis", "JSIGHT 0.3\nURL /a\n(\n", "  "},
		{"after-a-closing-parenthesis", "JSIGHT 0.3\nURL /a\n(\n  GET\n    200 any\n)\n", ""},
		{"after-a-tab-indented-line", "JSIGHT 0.3\nGET /a\n\t200 any\n", "\t"},
	}
}

// keywordLine: a plausible line for every directive kind.
var keywordLine = map[string]string{
	"JSIGHT": "JSIGHT 0.3", "INFO": "INFO", "Title": "Title \"T\"", "Version": "Version 1", "Description": "Description", "SERVER": "SERVER @srv",
	"BaseUrl": "BaseUrl \"http://x\"", "URL": "URL /u", "GET": "GET /g", "POST": "POST /g", "PUT": "PUT /g", "PATCH": "PATCH /g", "DELETE": "DELETE /g",
	"Body": "Body any", "Request": "Request any", "HTTP-response-code": "201 any", "Path": "Path", "Headers": "Headers", "Query": "Query \"q=1\"",
	"TYPE": "TYPE @ty any", "ENUM": "ENUM @en", "MACRO": "MACRO @ma", "PASTE": "PASTE @ma", "INCLUDE": "INCLUDE part.jst", "Protocol": "Protocol json-rpc-2.0",
	"Method": "Method m", "Params": "Params any", "Result": "Result any", "TAG": "TAG @tg", "Tags": "Tags @tg", "OperationId": "OperationId op",
}
