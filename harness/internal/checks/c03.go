package checks

import (
	"fmt"
	"math/rand"
	"strings"

	"verifharness/internal/fw"
	"verifharness/internal/gen"
	"verifharness/internal/model"
	"verifharness/internal/proto"
)

type injected struct {
	class    string
	off      *model.RDir // offending directive
	bodyLine int         // the fault sits on this line of the directive's body (0 = keyword line)
	patterns []string    // the message must contain one of these
	// syntactic: the body is missing in the text; the scanner reports it on the directive's line or at the first
	// non-blank byte that follows
	syntactic bool
	// expansion: the fault is detected while PASTE is expanded (see known finding D18)
	expansion bool
	// atEOF: the faulty directive is the last thing of the root file, which ends without a line break
	atEOF bool
}

type ftree struct {
	roots []*model.RDir
	r     *rand.Rand
}

func (t *ftree) walk(f func(d, parent *model.RDir)) {
	var rec func(d, p *model.RDir)
	rec = func(d, p *model.RDir) {
		f(d, p)
		for _, c := range d.Children {
			rec(c, d)
		}
	}
	for _, d := range t.roots {
		rec(d, nil)
	}
}

func (t *ftree) find(pred func(d, parent *model.RDir) bool) (out []*model.RDir, parents []*model.RDir) {
	t.walk(func(d, p *model.RDir) {
		if pred(d, p) {
			out = append(out, d)
			parents = append(parents, p)
		}
	})
	return
}

func isVerb(k string) bool {
	return k == "GET" || k == "POST" || k == "PUT" || k == "PATCH" || k == "DELETE"
}

func clone(d *model.RDir) *model.RDir {
	c := *d
	c.Params = append([]string(nil), d.Params...)
	c.MustQuote = append([]bool(nil), d.MustQuote...)
	c.BodyLines = append([]string(nil), d.BodyLines...)
	c.Children = nil
	for _, ch := range d.Children {
		c.Children = append(c.Children, clone(ch))
	}
	return &c
}

func (t *ftree) pick(ds []*model.RDir) int { return t.r.Intn(len(ds)) }

// method returns an HTTP method directive, adding a fresh one when the model has none.
func (t *ftree) method() (*model.RDir, *model.RDir) {
	ms, ps := t.find(func(d, p *model.RDir) bool { return isVerb(d.Kind) })
	if len(ms) == 0 {
		m := &model.RDir{Kind: "GET", Keyword: "GET", Params: []string{"/fault/added"}, HasPath: true, Origin: "added"}
		m.Children = append(m.Children, &model.RDir{Kind: "HTTP-response-code", Keyword: "200", Params: []string{"any"}})
		t.roots = append(t.roots, m)
		return m, nil
	}
	i := t.pick(ms)
	return ms[i], ps[i]
}

func (t *ftree) insertAfter(parent, after, nd *model.RDir) {
	list := &t.roots
	if parent != nil {
		list = &parent.Children
	}
	for i, d := range *list {
		if d == after {
			out := append([]*model.RDir(nil), (*list)[:i+1]...)
			out = append(out, nd)
			out = append(out, (*list)[i+1:]...)
			*list = out
			return
		}
	}
	*list = append(*list, nd)
}

// secondTags gives a method that has a Tags directive a second one (a copy of the first, directly after it) and returns it: the
// library takes the tags of an interaction from the first Tags directive only, the later ones still have to be checked.
func (t *ftree) secondTags() *model.RDir {
	ds, parents := t.find(func(d, p *model.RDir) bool { return d.Kind == "Tags" && p != nil && p.Kind != "URL" })
	if len(ds) == 0 {
		return nil
	}
	i := t.pick(ds)
	nd := &model.RDir{Kind: "Tags", Keyword: "Tags", Params: append([]string(nil), ds[i].Params...)}
	t.insertAfter(parents[i], ds[i], nd)
	return nd
}

func child(d *model.RDir, kind string) *model.RDir {
	for _, c := range d.Children {
		if c.Kind == kind {
			return c
		}
	}
	return nil
}

var schemaLines = []string{"{", "  \"k\": 1", "}"}

// ensureMacroUse adds a macro definition and a PASTE of it, so that fault classes about MACRO and PASTE have a site.
func (t *ftree) ensureMacroUse() {
	ds, _ := t.find(func(d, p *model.RDir) bool { return d.Kind == "PASTE" })
	if len(ds) > 0 {
		return
	}
	if t.r.Intn(2) == 0 {
		t.roots = append(t.roots, &model.RDir{Kind: "MACRO", Keyword: "MACRO", Params: []string{"@fm"}, Children: []*model.RDir{{Kind: "TYPE", Keyword: "TYPE", Params: []string{"@infm", "any"}}}},
			&model.RDir{Kind: "PASTE", Keyword: "PASTE", Params: []string{"@fm"}})
		return
	}
	m, _ := t.method()
	t.roots = append(t.roots, &model.RDir{Kind: "MACRO", Keyword: "MACRO", Params: []string{"@fm"}, Children: []*model.RDir{{Kind: "HTTP-response-code", Keyword: "297", Params: []string{"any"}}}})
	m.Children = append(m.Children, &model.RDir{Kind: "PASTE", Keyword: "PASTE", Params: []string{"@fm"}})
}

type faultFn func(t *ftree) *injected

var notUnique = []string{"the directive has already been defined"}
var dupName = []string{"has already been declared before"}
var reqParam = []string{"required parameter(s) not specified"}
var annForbidden = []string{"the annotation is not allowed for this directive"}

func dupRoot(kind, class string) faultFn {
	return func(t *ftree) *injected {
		ds, _ := t.find(func(d, p *model.RDir) bool { return d.Kind == kind && p == nil })
		var orig *model.RDir
		if len(ds) == 0 {
			switch kind {
			case "TYPE":
				orig = &model.RDir{Kind: "TYPE", Keyword: "TYPE", Params: []string{"@added"}, BodyKind: "schema", BodyLines: schemaLines}
			case "ENUM":
				orig = &model.RDir{Kind: "ENUM", Keyword: "ENUM", Params: []string{"@addedE"}, BodyKind: "enum", BodyLines: []string{"[", "  \"a\"", "]"}}
			case "SERVER":
				orig = &model.RDir{Kind: "SERVER", Keyword: "SERVER", Params: []string{"@addedS"}, Children: []*model.RDir{{Kind: "BaseUrl", Keyword: "BaseUrl", Params: []string{"http://x"}}}}
			case "TAG":
				orig = &model.RDir{Kind: "TAG", Keyword: "TAG", Params: []string{"@addedT"}}
			}
			t.roots = append(t.roots, orig)
		} else {
			orig = ds[t.pick(ds)]
		}
		c := clone(orig)
		c.Origin = "fault"
		// the second occurrence comes later in the document
		idx := 0
		for i, d := range t.roots {
			if d == orig {
				idx = i
			}
		}
		at := idx + 1 + t.r.Intn(len(t.roots)-idx)
		out := append([]*model.RDir(nil), t.roots[:at]...)
		out = append(out, c)
		t.roots = append(out, t.roots[at:]...)
		return &injected{class: class, off: c, patterns: dupName}
	}
}

func secondChild(parentKinds []string, kind, class string, pats []string, mk func() *model.RDir) faultFn {
	return func(t *ftree) *injected {
		ps, _ := t.find(func(d, p *model.RDir) bool {
			for _, k := range parentKinds {
				if d.Kind == k || (k == "VERB" && isVerb(d.Kind)) {
					return true
				}
			}
			return false
		})
		if len(ps) == 0 {
			if parentKinds[0] != "VERB" && parentKinds[0] != "HTTP-response-code" {
				return nil
			}
			m, _ := t.method()
			ps = []*model.RDir{m}
			if parentKinds[0] == "HTTP-response-code" {
				ps = []*model.RDir{child(m, "HTTP-response-code")}
				if ps[0] == nil {
					return nil
				}
			}
		}
		p := ps[t.pick(ps)]
		first := child(p, kind)
		if first == nil {
			first = mk()
			if first == nil {
				return nil
			}
			// keep children that must stay last (responses) behind
			p.Children = append([]*model.RDir{first}, p.Children...)
		}
		c := clone(first)
		c.Origin = "fault"
		t.insertAfter(p, first, c)
		return &injected{class: class, off: c, patterns: pats}
	}
}

func missingParam(kind, class string) faultFn {
	return func(t *ftree) *injected {
		if kind == "PASTE" {
			t.ensureMacroUse()
		}
		ds, _ := t.find(func(d, p *model.RDir) bool { return d.Kind == kind })
		// named entities that something else refers to would leave a second fault behind (an undefined reference):
		// the nameless directive is a fresh one
		switch kind {
		case "TYPE":
			ds = []*model.RDir{{Kind: "TYPE", Keyword: "TYPE", Params: []string{"@fresh"}, BodyKind: "schema", BodyLines: schemaLines}}
		case "ENUM":
			ds = []*model.RDir{{Kind: "ENUM", Keyword: "ENUM", Params: []string{"@freshE"}, BodyKind: "enum", BodyLines: []string{"[", "  \"a\"", "]"}}}
		case "TAG":
			ds = []*model.RDir{{Kind: "TAG", Keyword: "TAG", Params: []string{"@freshT"}}}
		case "MACRO":
			ds = []*model.RDir{{Kind: "MACRO", Keyword: "MACRO", Params: []string{"@freshM"}, Children: []*model.RDir{{Kind: "TYPE", Keyword: "TYPE", Params: []string{"@inFresh", "any"}}}}}
		}
		if kind == "TYPE" || kind == "ENUM" || kind == "TAG" || kind == "MACRO" {
			at := 1 + t.r.Intn(len(t.roots))
			out := append([]*model.RDir(nil), t.roots[:at]...)
			out = append(out, ds[0])
			t.roots = append(out, t.roots[at:]...)
		}
		if kind == "Tags" && t.r.Intn(2) == 0 {
			if d := t.secondTags(); d != nil {
				ds = []*model.RDir{d}
			}
		}
		if len(ds) == 0 {
			return nil
		}
		d := ds[t.pick(ds)]
		if kind == "TYPE" { // keep the notation, drop the name
			d.Params = d.Params[1:]
		} else {
			d.Params = nil
		}
		d.MustQuote = nil
		inj := &injected{class: class, off: d, patterns: reqParam}
		if kind == "PASTE" {
			inj.expansion = true
		}
		return inj
	}
}

func forbiddenAnnotation(kind string) faultFn {
	return func(t *ftree) *injected {
		if kind == "MACRO" || kind == "PASTE" {
			t.ensureMacroUse()
		}
		want := kind
		parentKind := ""
		if kind == "Body-in-Request" {
			want, parentKind = "Body", "Request"
			// make sure there is a Request written with a Body directive
			if ds, _ := t.find(func(d, p *model.RDir) bool { return d.Kind == "Body" && p != nil && p.Kind == "Request" }); len(ds) == 0 {
				m, _ := t.method()
				if child(m, "Request") == nil {
					m.Children = append([]*model.RDir{{Kind: "Request", Keyword: "Request", Children: []*model.RDir{{Kind: "Body", Keyword: "Body", Params: []string{"any"}}}}}, m.Children...)
				}
			}
		}
		ds, _ := t.find(func(d, p *model.RDir) bool {
			return d.Kind == want && (parentKind == "" || (p != nil && p.Kind == parentKind))
		})
		if kind == "Tags" && t.r.Intn(2) == 0 {
			if d := t.secondTags(); d != nil {
				ds = []*model.RDir{d}
			}
		}
		if len(ds) == 0 {
			return nil
		}
		d := ds[t.pick(ds)]
		d.Annotation = "not allowed here"
		inj := &injected{class: "forbidden-annotation:" + kind, off: d, patterns: annForbidden}
		if kind == "PASTE" {
			inj.expansion = true
		}
		return inj
	}
}

func faultTable() map[string]faultFn {
	tb := map[string]faultFn{
		"duplicate-type":   dupRoot("TYPE", "duplicate-type"),
		"duplicate-enum":   dupRoot("ENUM", "duplicate-enum"),
		"duplicate-server": dupRoot("SERVER", "duplicate-server"),
		"duplicate-tag":    dupRoot("TAG", "duplicate-tag"),
		"duplicate-macro": func(t *ftree) *injected {
			m1 := &model.RDir{Kind: "MACRO", Keyword: "MACRO", Params: []string{"@dupm"}, Children: []*model.RDir{{Kind: "TYPE", Keyword: "TYPE", Params: []string{"@inm1", "any"}}}}
			m2 := clone(m1)
			m2.Children[0].Params[0] = "@inm2"
			t.roots = append(t.roots, m1)
			at := 1 + t.r.Intn(len(t.roots))
			out := append([]*model.RDir(nil), t.roots[:at]...)
			out = append(out, m2)
			t.roots = append(out, t.roots[at:]...)
			// the second in document order is at fault
			off := m1
			if at < len(t.roots)-0 {
				for _, d := range t.roots {
					if d == m1 {
						off = m2
						break
					}
					if d == m2 {
						off = m1
						break
					}
				}
			}
			return &injected{class: "duplicate-macro", off: off, patterns: dupName}
		},
		"duplicate-operationid": func(t *ftree) *injected {
			a, _ := t.method()
			b := &model.RDir{Kind: "POST", Keyword: "POST", Params: []string{"/fault/opid"}, HasPath: true,
				Children: []*model.RDir{{Kind: "OperationId", Keyword: "OperationId", Params: []string{"sameOp"}}, {Kind: "HTTP-response-code", Keyword: "200", Params: []string{"any"}}}}
			if o := child(a, "OperationId"); o != nil {
				o.Params = []string{"sameOp"}
			} else {
				a.Children = append([]*model.RDir{{Kind: "OperationId", Keyword: "OperationId", Params: []string{"sameOp"}}}, a.Children...)
			}
			t.roots = append(t.roots, b)
			return &injected{class: "duplicate-operationid", off: b.Children[0], patterns: []string{"the OperationId \"sameOp\" has already been defined"}}
		},
		"duplicate-http-interaction": func(t *ftree) *injected {
			m, p := t.method()
			c := clone(m)
			c.Origin = "fault"
			if p == nil || p.Kind != "URL" {
				t.roots = append(t.roots, c)
			} else {
				p.Children = append(p.Children, c)
			}
			return &injected{class: "duplicate-http-interaction", off: c, patterns: []string{"this method has already been defined in the resource"}}
		},
		"duplicate-rpc-interaction": func(t *ftree) *injected {
			ms, ps := t.find(func(d, p *model.RDir) bool { return d.Kind == "Method" })
			if len(ms) == 0 {
				u := &model.RDir{Kind: "URL", Keyword: "URL", Params: []string{"/fault/rpc"}, Children: []*model.RDir{
					{Kind: "Protocol", Keyword: "Protocol", Params: []string{"json-rpc-2.0"}},
					{Kind: "Method", Keyword: "Method", Params: []string{"twice"}}}}
				t.roots = append(t.roots, u)
				ms, ps = []*model.RDir{u.Children[1]}, []*model.RDir{u}
			}
			i := t.pick(ms)
			c := clone(ms[i])
			ps[i].Children = append(ps[i].Children, c)
			return &injected{class: "duplicate-rpc-interaction", off: c, patterns: []string{"this method has already been defined in the resource"}}
		},
		"similar-paths": func(t *ftree) *injected {
			a := &model.RDir{Kind: "GET", Keyword: "GET", Params: []string{"/fsim/{one}"}, HasPath: true, Children: []*model.RDir{{Kind: "HTTP-response-code", Keyword: "200", Params: []string{"any"}}}}
			switch t.r.Intn(4) {
			case 0: // the first path belongs to a JSON-RPC resource
				a = &model.RDir{Kind: "URL", Keyword: "URL", Params: []string{"/fsim/{one}"}, Children: []*model.RDir{
					{Kind: "Protocol", Keyword: "Protocol", Params: []string{"json-rpc-2.0"}},
					{Kind: "Method", Keyword: "Method", Params: []string{"ping"}}}}
			case 1: // an URL group
				a = &model.RDir{Kind: "URL", Keyword: "URL", Params: []string{"/fsim/{one}"}, Children: []*model.RDir{
					{Kind: "DELETE", Keyword: "DELETE", Children: []*model.RDir{{Kind: "HTTP-response-code", Keyword: "204", Params: []string{"empty"}}}}}}
			case 2: // a deeper path with the parameter in the middle
				a = &model.RDir{Kind: "GET", Keyword: "GET", Params: []string{"/fsim/{one}/deep/er"}, HasPath: true, Children: []*model.RDir{{Kind: "HTTP-response-code", Keyword: "200", Params: []string{"any"}}}}
			}
			b := &model.RDir{Kind: "GET", Keyword: "GET", Params: []string{"/fsim/{two}/x"}, HasPath: true, Children: []*model.RDir{{Kind: "HTTP-response-code", Keyword: "200", Params: []string{"any"}}}}
			switch t.r.Intn(3) {
			case 0:
				b = &model.RDir{Kind: "URL", Keyword: "URL", Params: []string{"/fsim/{two}"}, Children: []*model.RDir{{Kind: "POST", Keyword: "POST", Children: []*model.RDir{{Kind: "HTTP-response-code", Keyword: "200", Params: []string{"any"}}}}}}
			case 1:
				b = &model.RDir{Kind: "URL", Keyword: "URL", Params: []string{"/fsim/{two}"}, Children: []*model.RDir{
					{Kind: "Protocol", Keyword: "Protocol", Params: []string{"json-rpc-2.0"}},
					{Kind: "Method", Keyword: "Method", Params: []string{"pong"}}}}
			}
			at := 1 + t.r.Intn(len(t.roots))
			out := append([]*model.RDir(nil), t.roots[:at]...)
			out = append(out, a)
			t.roots = append(out, t.roots[at:]...)
			t.roots = append(t.roots, b)
			return &injected{class: "similar-paths", off: b, patterns: []string{"the ambiguous paths are not allowed"}}
		},
		"duplicated-path-parameter": func(t *ftree) *injected {
			b := &model.RDir{Kind: "GET", Keyword: "GET", Params: []string{"/fdup/{id}/x/{id}"}, HasPath: true, Children: []*model.RDir{{Kind: "HTTP-response-code", Keyword: "200", Params: []string{"any"}}}}
			if t.r.Intn(2) == 0 {
				b = &model.RDir{Kind: "URL", Keyword: "URL", Params: []string{"/fdup/{id}/{id}"}, Children: []*model.RDir{{Kind: "GET", Keyword: "GET", Children: []*model.RDir{{Kind: "HTTP-response-code", Keyword: "200", Params: []string{"any"}}}}}}
			}
			t.roots = append(t.roots, b)
			return &injected{class: "duplicated-path-parameter", off: b, patterns: []string{"the parameter of the path is duplicated"}}
		},
		"second-title": secondChild([]string{"INFO"}, "Title", "second-title", notUnique, func() *model.RDir {
			return &model.RDir{Kind: "Title", Keyword: "Title", Params: []string{"T"}}
		}),
		"second-version": secondChild([]string{"INFO"}, "Version", "second-version", notUnique, func() *model.RDir {
			return &model.RDir{Kind: "Version", Keyword: "Version", Params: []string{"1"}}
		}),
		"second-description-info": secondChild([]string{"INFO"}, "Description", "second-description-info", notUnique, func() *model.RDir {
			return &model.RDir{Kind: "Description", Keyword: "Description", BodyKind: "text", BodyLines: []string{"words"}}
		}),
		"second-description-method": secondChild([]string{"VERB"}, "Description", "second-description-method", notUnique, func() *model.RDir {
			return &model.RDir{Kind: "Description", Keyword: "Description", BodyKind: "text", BodyLines: []string{"words"}}
		}),
		"second-description-tag": secondChild([]string{"TAG"}, "Description", "second-description-tag", notUnique, func() *model.RDir {
			return &model.RDir{Kind: "Description", Keyword: "Description", BodyKind: "text", BodyLines: []string{"words"}}
		}),
		"second-query": secondChild([]string{"VERB"}, "Query", "second-query", notUnique, func() *model.RDir {
			return &model.RDir{Kind: "Query", Keyword: "Query", Params: []string{"q=1"}, BodyKind: "schema", BodyLines: []string{"{", "  \"q\": 1", "}"}}
		}),
		"second-request-body":     secondChild([]string{"Request"}, "Body", "second-request-body", notUnique, func() *model.RDir { return nil }),
		"second-request-headers":  secondChild([]string{"Request"}, "Headers", "second-request-headers", notUnique, func() *model.RDir { return nil }),
		"second-response-headers": secondChild([]string{"HTTP-response-code"}, "Headers", "second-response-headers", notUnique, func() *model.RDir { return nil }),
		"second-baseurl":          secondChild([]string{"SERVER"}, "BaseUrl", "second-baseurl", []string{"The directive BaseUrl has already been defined before"}, func() *model.RDir { return nil }),
		"second-protocol":         secondChild([]string{"URL"}, "Protocol", "second-protocol", notUnique, func() *model.RDir { return nil }),
		"undefined-type-parameter": func(t *ftree) *injected {
			m, _ := t.method()
			rs := &model.RDir{Kind: "HTTP-response-code", Keyword: "299", Params: []string{"@nowhere"}}
			if t.r.Intn(2) == 0 {
				rs.Params = []string{"[@nowhere]"}
			}
			m.Children = append(m.Children, rs)
			return &injected{class: "undefined-type-parameter", off: rs, patterns: []string{"not found", "does not exist"}}
		},
		"undefined-type-body": func(t *ftree) *injected {
			// every way a schema can name a user type, in every kind of directive that holds a schema
			forms := []struct {
				lines []string
				line  int
			}{
				{[]string{"{", "  \"ok\": 1,", "  \"bad\": @nowhere", "}"}, 3},
				{[]string{"{", "  \"ok\": 1,", "  \"bad\": 1 // {type: \"@nowhere\"}", "}"}, 3},
				{[]string{"{ // {allOf: \"@nowhere\"}", "  \"ok\": 1", "}"}, 1},
				{[]string{"{", "  \"ok\": 1,", "  \"bad\": 1 // {or: [\"@nowhere\", \"string\"]}", "}"}, 3},
				{[]string{"{", "  \"ok\": 1,", "  \"bad\": {} // {additionalProperties: \"@nowhere\"}", "}"}, 3},
				{[]string{"{", "  \"ok\": 1,", "  @nowhere: 1", "}"}, 3},
				{[]string{"{", "  \"ok\": 1,", "  \"bad\": [", "    @nowhere", "  ]", "}"}, 4},
				{[]string{"{", "  \"ok\": 1,", "  \"bad\": @nowhere | @nowhere2", "}"}, 3},
				{[]string{"{", "  \"ok\": 1,", "  \"bad\": 1 // {or: [{type: \"@nowhere\"}, {type: \"string\"}]}", "}"}, 3},
			}
			f := forms[t.r.Intn(len(forms))]
			pat := []string{"not found", "does not exist"}
			switch t.r.Intn(4) {
			case 1: // body of a response
				m, _ := t.method()
				rs := &model.RDir{Kind: "HTTP-response-code", Keyword: "299", BodyKind: "schema", BodyLines: f.lines}
				m.Children = append(m.Children, rs)
				return &injected{class: "undefined-type-body", off: rs, bodyLine: f.line, patterns: pat}
			case 2: // Headers of a response
				m, _ := t.method()
				rs := &model.RDir{Kind: "HTTP-response-code", Keyword: "298"}
				h := &model.RDir{Kind: "Headers", Keyword: "Headers", BodyKind: "schema", BodyLines: f.lines}
				rs.Children = []*model.RDir{h, {Kind: "Body", Keyword: "Body", Params: []string{"any"}}}
				m.Children = append(m.Children, rs)
				return &injected{class: "undefined-type-body", off: h, bodyLine: f.line, patterns: pat}
			case 3: // Query of a method that has none
				m, _ := t.method()
				if child(m, "Query") == nil {
					q := &model.RDir{Kind: "Query", Keyword: "Query", Params: []string{"ok=1"}, BodyKind: "schema", BodyLines: f.lines}
					m.Children = append([]*model.RDir{q}, m.Children...)
					return &injected{class: "undefined-type-body", off: q, bodyLine: f.line, patterns: pat}
				}
			}
			d := &model.RDir{Kind: "TYPE", Keyword: "TYPE", Params: []string{"@faulty"}, BodyKind: "schema", BodyLines: f.lines}
			at := 1 + t.r.Intn(len(t.roots))
			out := append([]*model.RDir(nil), t.roots[:at]...)
			out = append(out, d)
			t.roots = append(out, t.roots[at:]...)
			return &injected{class: "undefined-type-body", off: d, bodyLine: f.line, patterns: pat}
		},
		"undefined-enum": func(t *ftree) *injected {
			d := &model.RDir{Kind: "TYPE", Keyword: "TYPE", Params: []string{"@faultyE"}, BodyKind: "schema", BodyLines: []string{"{", "  \"bad\": \"a\" // {enum: @noenum}", "}"}}
			t.roots = append(t.roots, d)
			return &injected{class: "undefined-enum", off: d, bodyLine: 2, patterns: []string{"not found", "does not exist", "Enum rule"}}
		},
		"undefined-tag": func(t *ftree) *injected {
			m, _ := t.method()
			name := "@notag"
			if t.r.Intn(2) == 0 {
				// a name that is not declared but exists as the path tag of an interaction written before (or after) this one
				name = "@pathtagonly"
				pm := &model.RDir{Kind: "GET", Keyword: "GET", Params: []string{"/pathtagonly/x"}, HasPath: true, Origin: "added"}
				pm.Children = append(pm.Children, &model.RDir{Kind: "HTTP-response-code", Keyword: "200", Params: []string{"any"}})
				if t.r.Intn(3) != 0 {
					// right after JSIGHT: before every other interaction
					out := append([]*model.RDir(nil), t.roots[:1]...)
					out = append(out, pm)
					t.roots = append(out, t.roots[1:]...)
				} else {
					t.roots = append(t.roots, pm)
				}
			}
			tg := &model.RDir{Kind: "Tags", Keyword: "Tags", Params: []string{name}}
			old := child(m, "Tags")
			if old == nil && t.r.Intn(3) == 0 {
				// give the method a valid Tags directive first (if the document declares a tag): the fault then sits in a second one
				for _, rt := range t.roots {
					if rt.Kind == "TAG" && len(rt.Params) > 0 {
						old = &model.RDir{Kind: "Tags", Keyword: "Tags", Params: []string{rt.Params[0]}}
						m.Children = append([]*model.RDir{old}, m.Children...)
						break
					}
				}
			}
			switch {
			case old != nil && t.r.Intn(2) == 0:
				// a second Tags directive of the same method (the library takes the tags of an interaction from the first one only)
				t.insertAfter(m, old, tg)
			case old != nil:
				old.Params = append(old.Params, name)
				tg = old
			default:
				m.Children = append([]*model.RDir{tg}, m.Children...)
			}
			return &injected{class: "undefined-tag", off: tg, patterns: []string{"tag not found"}}
		},
		"undefined-macro": func(t *ftree) *injected {
			m, _ := t.method()
			p := &model.RDir{Kind: "PASTE", Keyword: "PASTE", Params: []string{"@nomacro"}}
			if t.r.Intn(2) == 0 {
				t.roots = append(t.roots, p)
			} else {
				m.Children = append(m.Children, p)
			}
			return &injected{class: "undefined-macro", off: p, patterns: []string{"macro not found"}, expansion: true}
		},
		"missing-body-description": func(t *ftree) *injected {
			m, _ := t.method()
			d := &model.RDir{Kind: "Description", Keyword: "Description"}
			if old := child(m, "Description"); old != nil {
				old.BodyKind, old.BodyLines = "", nil
				d = old
			} else {
				m.Children = append([]*model.RDir{d}, m.Children...)
			}
			return &injected{class: "missing-body-description", off: d, patterns: []string{"the description cannot be empty"}, syntactic: true}
		},
		"missing-body-info": func(t *ftree) *injected {
			ds, _ := t.find(func(d, p *model.RDir) bool { return d.Kind == "INFO" })
			var d *model.RDir
			if len(ds) == 0 {
				d = &model.RDir{Kind: "INFO", Keyword: "INFO"}
				t.roots = append(t.roots[:1], append([]*model.RDir{d}, t.roots[1:]...)...)
			} else {
				d = ds[0]
				d.Children = nil
			}
			return &injected{class: "missing-body-info", off: d, patterns: []string{"the INFO directive cannot be empty"}}
		},
		"missing-body-macro": func(t *ftree) *injected {
			d := &model.RDir{Kind: "MACRO", Keyword: "MACRO", Params: []string{"@emptym"}}
			t.roots = append(t.roots, d)
			return &injected{class: "missing-body-macro", off: d, patterns: []string{"the macros cannot be empty"}}
		},
		"missing-body-request": func(t *ftree) *injected {
			m, _ := t.method()
			rq := child(m, "Request")
			if rq == nil {
				rq = &model.RDir{Kind: "Request", Keyword: "Request"}
				m.Children = append([]*model.RDir{rq}, m.Children...)
			}
			rq.Params, rq.BodyKind, rq.BodyLines = nil, "", nil
			rq.Children = []*model.RDir{{Kind: "Headers", Keyword: "Headers", BodyKind: "schema", BodyLines: []string{"{", "  \"h\": \"v\"", "}"}}}
			return &injected{class: "missing-body-request", off: rq, patterns: []string{"undefined request body for resource"}}
		},
		"missing-body-response": func(t *ftree) *injected {
			m, _ := t.method()
			// every class of response code, also those of which HTTP says that they carry no body: the language still wants one stated
			code := []string{"298", "100", "101", "199", "204", "304", "205", "300", "418", "500", "599"}[t.r.Intn(11)]
			rs := &model.RDir{Kind: "HTTP-response-code", Keyword: code, Children: []*model.RDir{{Kind: "Headers", Keyword: "Headers", BodyKind: "schema", BodyLines: []string{"{", "  \"h\": \"v\"", "}"}}}}
			m.Children = append(m.Children, rs)
			return &injected{class: "missing-body-response", off: rs, patterns: []string{"undefined response body for resource"}}
		},
		"jsight-missing": func(t *ftree) *injected {
			t.roots = t.roots[1:]
			if len(t.roots) == 0 {
				return nil
			}
			return &injected{class: "jsight-missing", off: t.roots[0], patterns: []string{"The first directive in the document must be JSIGHT"}}
		},
		"jsight-not-first": func(t *ftree) *injected {
			if len(t.roots) < 2 {
				return nil
			}
			j := t.roots[0]
			at := 1 + t.r.Intn(len(t.roots)-1)
			out := append([]*model.RDir(nil), t.roots[1:at+1]...)
			out = append(out, j)
			t.roots = append(out, t.roots[at+1:]...)
			return &injected{class: "jsight-not-first", off: t.roots[0], patterns: []string{"The first directive in the document must be JSIGHT"}}
		},
		"jsight-repeated": func(t *ftree) *injected {
			j := clone(t.roots[0])
			at := 1 + t.r.Intn(len(t.roots))
			out := append([]*model.RDir(nil), t.roots[:at]...)
			out = append(out, j)
			t.roots = append(out, t.roots[at:]...)
			return &injected{class: "jsight-repeated", off: j, patterns: []string{"The directive JSIGHT has already been specified before", "the directive is not allowed in included files"}}
		},
		"jsight-wrong-version": func(t *ftree) *injected {
			t.roots[0].Params = []string{[]string{"0.2", "1.0", "0.30", "x"}[t.r.Intn(4)]}
			return &injected{class: "jsight-wrong-version", off: t.roots[0], patterns: []string{"The specified JSight version is not supported"}}
		},
	}
	for _, k := range []string{"SERVER", "TYPE", "ENUM", "MACRO", "PASTE", "Title", "Version", "BaseUrl", "Method", "Protocol", "TAG", "Tags", "OperationId", "JSIGHT"} {
		tb["missing-parameter:"+k] = missingParam(k, "missing-parameter:"+k)
	}
	for _, k := range []string{"INFO", "Title", "Version", "Description", "BaseUrl", "URL", "Query", "Request", "Headers", "Path", "Protocol", "MACRO", "PASTE", "Tags", "OperationId", "JSIGHT", "Body-in-Request", "Params", "Result"} {
		tb["forbidden-annotation:"+k] = forbiddenAnnotation(k)
	}
	// a method without its path that has a Path directive: the path is missing at the method
	tb["missing-parameter:method-path-with-Path-child"] = func(t *ftree) *injected {
		verb := []string{"GET", "POST", "PUT", "PATCH", "DELETE"}[t.r.Intn(5)]
		m := &model.RDir{Kind: verb, Keyword: verb, Origin: "added"}
		m.Children = []*model.RDir{{Kind: "Path", Keyword: "Path", BodyKind: "schema", BodyLines: []string{"{", "  \"id\": 1", "}"}},
			{Kind: "HTTP-response-code", Keyword: "200", Params: []string{"any"}}}
		at := 1 + t.r.Intn(len(t.roots))
		out := append([]*model.RDir(nil), t.roots[:at]...)
		out = append(out, m)
		t.roots = append(out, t.roots[at:]...)
		return &injected{class: "missing-parameter:method-path-with-Path-child", off: m, patterns: []string{"path not found"}}
	}
	// a path with a repeated or an empty {parameter}, described by a Path directive (at the method, at the URL, at a method under
	// the URL): the fault is in the path, i.e. on the directive the path is written at
	for _, form := range []string{"method", "url", "method-under-url"} {
		for _, fault := range []string{"duplicated", "empty"} {
			form, fault := form, fault
			class := "path-parameter-" + fault + ":" + form + "-with-Path-child"
			tb[class] = func(t *ftree) *injected {
				path := "/fpp/{id}/x/{id}"
				pat := "the parameter of the path is duplicated"
				if fault == "empty" {
					path, pat = "/fpp/{id}/x/{}", "empty PATH parameter"
				}
				pd := &model.RDir{Kind: "Path", Keyword: "Path", BodyKind: "schema", BodyLines: []string{"{", "  \"id\": 1", "}"}}
				code := &model.RDir{Kind: "HTTP-response-code", Keyword: "200", Params: []string{"any"}}
				var b *model.RDir
				switch form {
				case "method":
					b = &model.RDir{Kind: "GET", Keyword: "GET", Params: []string{path}, HasPath: true, Children: []*model.RDir{pd, code}}
				case "url":
					b = &model.RDir{Kind: "URL", Keyword: "URL", Params: []string{path}, Children: []*model.RDir{pd, {Kind: "GET", Keyword: "GET", Children: []*model.RDir{code}}}}
				default:
					b = &model.RDir{Kind: "URL", Keyword: "URL", Params: []string{path}, Children: []*model.RDir{{Kind: "GET", Keyword: "GET", Children: []*model.RDir{pd, code}}}}
				}
				t.roots = append(t.roots, b)
				return &injected{class: class, off: b, patterns: []string{pat}}
			}
		}
	}
	// a directive without its body as the very last thing of a file that ends without a line break
	for _, k := range []string{"ENUM", "TYPE", "ENUM-nameless"} {
		kind := k
		tb["missing-body-at-end-of-file:"+kind] = func(t *ftree) *injected {
			d := &model.RDir{Kind: strings.TrimSuffix(kind, "-nameless"), Keyword: strings.TrimSuffix(kind, "-nameless"), Params: []string{"@atEOF"}}
			if kind == "ENUM-nameless" {
				d.Params = nil
			}
			t.roots = append(t.roots, d)
			return &injected{class: "missing-body-at-end-of-file:" + kind, off: d, atEOF: true, syntactic: true,
				patterns: []string{"body cannot be empty", "body is empty", "invalid end of file", "Unexpected end of file", "not specified", "cannot be empty"}}
		}
	}
	for _, k := range []string{"Path", "Query", "Headers", "TYPE", "ENUM"} {
		kind := k
		tb["missing-body-syntactic:"+kind] = func(t *ftree) *injected {
			ds, _ := t.find(func(d, p *model.RDir) bool {
				return d.Kind == kind && d.BodyKind != ""
			})
			if len(ds) == 0 {
				return nil
			}
			d := ds[t.pick(ds)]
			d.BodyKind, d.BodyLines = "", nil
			return &injected{class: "missing-body-syntactic:" + kind, off: d, syntactic: true,
				patterns: []string{"invalid", "Invalid", "body cannot be empty", "body is empty", "Unexpected end of file", "cannot be empty", "not specified", "incorrect context for the directive"}}
		}
	}
	return tb
}

// C03 – a single known fault is rejected at the fault.
func C03(c *fw.Ctx) {
	c.Level = "fault_enumeration"
	perClass := c.Pick(120, 2500)
	table := faultTable()
	var classes []string
	for k := range table {
		classes = append(classes, k)
	}
	sortStrings(classes)
	c.Rule(fmt.Sprintf("%d fault classes (duplicates, similar/duplicated path parameters, second single-occurrence directives, undefined type/enum/tag/macro, "+
		"missing required parameter, missing body, forbidden annotation, JSIGHT missing/repeated/not first/wrong version) x %d seeded (model, site, layout) "+
		"combinations each; exactly one fault is injected into the directive tree of a valid model, which is then rendered in a random layout "+
		"(faults also end up inside INCLUDEd files and MACRO bodies); oracle = rejected, message of the class, file and line of the offending "+
		"directive as recorded by the renderer; distinct = distinct faulty projects; non-trivial = every case", len(classes), perClass))
	c.Assume("for duplicates the later occurrence is at fault; for syntactically missing bodies the error may sit on the directive's line or on the first non-blank byte after it")
	pool := c.Pool(false, 0)
	type caseInfo struct {
		inj *injected
		rd  *model.Rendered
	}
	pending := map[string]*caseInfo{}
	c.RunJobs(pool, func(emit func(*proto.Job)) {
		for ci, class := range classes {
			r := gen.Rng(c.Seed, c.ID, class)
			made := 0
			for attempt := 0; made < perClass && attempt < perClass*6; attempt++ {
				m := model.Generate(r, model.QuickSize)
				l := model.RandomLayout(r)
				t := &ftree{roots: m.Tree(l), r: r}
				inj := table[class](t)
				if inj == nil {
					continue
				}
				if inj.atEOF {
					l.Macros, l.Includes, l.Comments = false, false, false
				}
				rd := model.RenderTree(t.roots, l)
				if inj.atEOF {
					rd.Files[rd.Root] = []byte(strings.TrimRight(string(rd.Files[rd.Root]), "\r\n \t"))
				}
				made++
				id := fmt.Sprintf("fault/%d-%d", ci, made)
				maxMuLock.Lock()
				pending[id] = &caseInfo{inj, rd}
				maxMuLock.Unlock()
				emit(renderingJob(id, rd))
			}
			if made == 0 {
				c.Inconclusive("no case could be generated for fault class " + class)
			}
		}
	}, func(j *proto.Job, res *proto.Result) {
		if workerProblem(c, res) {
			return
		}
		maxMuLock.Lock()
		ci := pending[j.ID]
		delete(pending, j.ID)
		maxMuLock.Unlock()
		inj, rd := ci.inj, ci.rd
		c.Count(jobKey(j), true)
		// where did the offending directive end up?
		site := "root-file"
		if inj.off.File != rd.Root {
			site = "included-file"
		}
		inMacro := false
		var walk func(d *model.RDir, in bool)
		walk = func(d *model.RDir, in bool) {
			if d == inj.off && in {
				inMacro = true
			}
			for _, ch := range d.Children {
				walk(ch, in || d.Kind == "MACRO")
			}
		}
		for _, d := range rd.Dirs {
			if d.Kind == "MACRO" {
				walk(d, false)
			}
		}
		if inMacro {
			site = "macro-body"
		}
		c.Inc("fault_matrix", inj.class+"|"+site, 1)
		rp := &fw.Replay{Jobs: []*proto.Job{j}, Results: []interface{}{res}, Expected: map[string]interface{}{
			"class": inj.class, "file": inj.off.File, "line": inj.off.Line + inj.bodyLine + inj.off.BodyShift, "files": filesAsStrings(j.Files)}}
		if sig, what := crashSig(res); sig != "" {
			c.Violate(sig, what, rp)
			return
		}
		if res.Accepted {
			c.Violate("fault-accepted:"+inj.class, fmt.Sprintf("a document with an injected %s fault at %s:%d was accepted", inj.class, inj.off.File, inj.off.Line), rp)
			return
		}
		e := res.Err
		okMsg := false
		for _, p := range inj.patterns {
			if strings.Contains(e.Msg, p) {
				okMsg = true
			}
		}
		gotFile := relName(res, e.File)
		wantLine := inj.off.Line + inj.bodyLine
		if inj.bodyLine > 0 {
			wantLine += inj.off.BodyShift
		}
		located := gotFile == inj.off.File && e.Line == wantLine
		if inj.syntactic && !located {
			// The body is missing in the text: the scanner takes what follows for the body (a response code is a
			// well-formed schema). The error sits on the directive's line, or where that attempt fails: inside the text of
			// the directive that follows (with its subtree), or at the end of the file.
			content := j.Files[gotFile]
			if gotFile == inj.off.File && (e.Index == len(content) || e.Line == wantLine) {
				located = true
			}
			// the first non-blank byte after the directive's line (an INCLUDE line, a parenthesis, the next directive)
			if gotFile == inj.off.File && e.Line > wantLine && onlyBlankBetweenLines(content, wantLine, e.Line) {
				located = true
			}
			for i, d := range rd.Dirs {
				if d != inj.off || i+1 >= len(rd.Dirs) {
					continue
				}
				next := rd.Dirs[i+1]
				in := map[*model.RDir]bool{}
				var mark func(x *model.RDir)
				mark = func(x *model.RDir) {
					in[x] = true
					for _, ch := range x.Children {
						mark(ch)
					}
				}
				mark(next)
				// the consumed text ends where the first directive after that subtree begins (per file)
				first := map[string]int{}
				bound := map[string]int{}
				k := i + 1
				for ; k < len(rd.Dirs) && in[rd.Dirs[k]]; k++ {
					f := rd.Dirs[k].File
					if _, ok := first[f]; !ok {
						first[f] = rd.Dirs[k].Line
					}
				}
				for ; k < len(rd.Dirs); k++ {
					f := rd.Dirs[k].File
					if _, ok := bound[f]; !ok {
						bound[f] = rd.Dirs[k].Line
					}
				}
				if lo, ok := first[gotFile]; ok && e.Line >= lo {
					if hi, ok := bound[gotFile]; !ok || e.Line <= hi {
						located = true
					}
				}
				if gotFile == inj.off.File && e.Line > wantLine && e.Line <= next.Line+1 {
					located = true
				}
			}
		}
		if !okMsg {
			// D18: faults met while a macro is expanded are re-reported on the PASTE with the inner error folded into the message
			if (inj.expansion || inMacro) && strings.Contains(e.Msg, "\n") {
				for _, p := range inj.patterns {
					if strings.Contains(e.Msg, p) {
						okMsg = true
					}
				}
			}
		}
		if !okMsg {
			c.Violate("wrong-message:"+inj.class, fmt.Sprintf("%s fault at %s:%d: message %q (at %s:%d)", inj.class, inj.off.File, wantLine, trunc(e.Msg, 160), gotFile, e.Line), rp)
			return
		}
		if !located {
			if (inj.expansion || inMacro) && lineIsPaste(j.Files[gotFile], e.Line) {
				c.Violate("relocated-to-outer-paste:"+classGroup(inj.class), fmt.Sprintf("%s fault at %s:%d is reported on the PASTE at %s:%d", inj.class, inj.off.File, wantLine, gotFile, e.Line), rp)
				return
			}
			c.Violate("wrong-location:"+inj.class, fmt.Sprintf("%s fault at %s:%d is reported at %s:%d (%s)", inj.class, inj.off.File, wantLine, gotFile, e.Line, trunc(e.Msg, 100)), rp)
			return
		}
		c.Inc("located", site, 1)
		if c.NeedSample() && site != "root-file" {
			c.Sample(map[string]interface{}{"class": inj.class, "site": site, "files": filesAsStrings(j.Files), "error": e.Msg, "at": fmt.Sprintf("%s:%d", gotFile, e.Line)})
		}
	})
	c.Finish()
}

func classGroup(class string) string {
	if i := strings.Index(class, ":"); i >= 0 {
		return class[:i]
	}
	return class
}

func splitLines(content []byte) []string {
	s := strings.ReplaceAll(strings.ReplaceAll(string(content), "\r\n", "\n"), "\r", "\n")
	return strings.Split(s, "\n")
}

func lineIsPaste(content []byte, line int) bool {
	ls := splitLines(content)
	return line >= 1 && line <= len(ls) && strings.HasPrefix(strings.TrimSpace(ls[line-1]), "PASTE")
}

// onlyBlankBetweenLines: lines from+1 .. to-1 are blank or comments.
func onlyBlankBetweenLines(content []byte, from, to int) bool {
	ls := splitLines(content)
	for l := from + 1; l < to && l <= len(ls); l++ {
		t := strings.TrimSpace(ls[l-1])
		if t != "" && !strings.HasPrefix(t, "#") {
			return false
		}
	}
	return true
}
