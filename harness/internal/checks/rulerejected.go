package checks

import "fmt"

// ruleRejectedDocs: small documents that are lexically and contextually fine and are rejected by exactly one rule each, one for every
// place of the builder that raises rule errors (the add* functions of every directive kind, the user-type pass, the validation pass).
// The fault stands late in the text, so that cuts, permutations and rewrites have something to work on before it.
func ruleRejectedDocs() map[string][]byte {
	base := "JSIGHT 0.3\nINFO\n  Title \"T\"\nSERVER @s\n  BaseUrl \"http://x\"\nTAG @g\nTYPE @t\n  {\"k\": 1}\nENUM @e\n  [\"a\"]\nURL /a/{id}\n  GET\n    200 @t\n" +
		"GET /z\n  200 any\nURL /rpc\n  Protocol json-rpc-2.0\n  Method m\n    Params\n      {\"p\": 1}\n    Result\n      1\n"
	faults := []string{
		"  Method m\n    Result\n      2\n",
		"  Method n\n    Tags @nope\n    Result\n      2\n",
		"GET /a/{id}\n  200 any\n",
		"GET /b\n  Tags @nope\n  200 any\n",
		"TYPE @t any\n",
		"ENUM @e\n  [1]\n",
		"SERVER @s\n  BaseUrl \"http://y\"\n",
		"TAG @g\n",
		"GET /c\n  200 @nowhere\n",
		"TYPE @u\n  {\"a\": @nowhere}\n",
		"  Method q\n    Params\n      {\"a\": 1}\n    Params\n      {\"b\": 2}\n",
		"URL /rpc2\n  Method x\n    Result\n      1\n",
		"  Method r\n    Result\n      1\n    Result\n      2\n",
		"GET /d\n  Description\n    one\n  Description\n    two\n  200 any\n",
		"GET /e\n  204\n",
		"GET /a/{other}\n  200 any\n",
		"GET /f\n  OperationId op\n  200 any\nGET /g\n  OperationId op\n  200 any\n",
		"GET /q\n  Query \"a=1\"\n    {\"a\": 1}\n  Query \"b=2\"\n    {\"b\": 2}\n  200 any\n",
		"TYPE @v\n  {\"a\": \"zzz\" // {enum: @e}\n  }\n",
		"GET /h/{x}\n  Path\n    {\"x\": 1, \"y\": 2}\n  200 any\n",
		"POST /i\n  Request\n    Headers\n      {\"h\": \"v\"}\n    Headers\n      {\"g\": \"w\"}\n    Body any\n  200 any\n",
		"GET /j\n  200\n    Headers\n      [1]\n    Body any\n",
		"INFO\n  Title \"again\"\n",
		"PASTE @nomacro\n",
		"MACRO @mm\n(\n  200 any\n)\nMACRO @mm\n(\n  201 any\n)\n",
		"TYPE @w\n  { // {allOf: \"@t\"}\n    \"k\": 2\n  }\n",
		"SERVER @s2\n",
		// a Tags directive that no interaction uses (every method of the URL has its own) names a tag that exists only as the path
		// tag of another interaction: not declared, so not found - wherever the other interaction stands
		"GET /cats\n  200 any\nURL /dogs\n  Tags @cats\n  GET\n    Tags @g\n    200 any\n",
		"URL /birds\n  Tags @fish\nGET /fish\n  200 any\n",
	}
	out := map[string][]byte{}
	for i, f := range faults {
		out[fmt.Sprintf("rule-rejected-%02d", i)] = []byte(base + f)
	}
	return out
}
