package checks

import (
	"fmt"
	"strings"

	"verifharness/internal/fw"
	"verifharness/internal/gen"
	"verifharness/internal/model"
	"verifharness/internal/proto"
	"verifharness/internal/ref"
)

var exactTokens = map[string][]model.Token{}

// exactnessJobs renders models and scans every rendered file through the public scanner.
func exactnessJobs(c *fw.Ctx, emit func(*proto.Job)) {
	r := gen.Rng(c.Seed, c.ID, "exact-models")
	n := c.Pick(1200, 25000)
	for i := 0; i < n; i++ {
		m := model.Generate(r, model.FullSize)
		l := model.RandomLayout(gen.Rng(c.Seed, c.ID, "exact-layout", fmt.Sprint(i)))
		rd := m.Render(l)
		for name, content := range rd.Files {
			id := fmt.Sprintf("exact/%d:%s", i, name)
			maxMuLock.Lock()
			exactTokens[id] = rd.Tokens[name]
			maxMuLock.Unlock()
			emit(&proto.Job{ID: id, Root: name, Files: map[string][]byte{name: content}, Scan: true})
		}
	}
}

func normText(s string) string {
	s = strings.ReplaceAll(strings.ReplaceAll(s, "\r\n", "\n"), "\r", "\n")
	var out []string
	for _, ln := range strings.Split(s, "\n") {
		ln = strings.TrimSpace(ln)
		if ln != "" {
			out = append(out, ln)
		}
	}
	return strings.Join(out, "\n")
}

func c12Exact(c *fw.Ctx, j *proto.Job, res *proto.Result) {
	maxMuLock.Lock()
	toks := exactTokens[j.ID]
	delete(exactTokens, j.ID)
	maxMuLock.Unlock()
	content := j.Files[j.Root]
	rp := &fw.Replay{Jobs: []*proto.Job{j}, Results: []interface{}{res}, Expected: toks}
	if !res.Accepted {
		msg := "(none)"
		if res.ScanErr != nil {
			msg = res.ScanErr.Msg
		}
		c.Violate("exact:rendered-file-rejected", "the scanner rejected a rendered file: "+msg, rp)
		return
	}
	typeOf := map[string]string{"regex": "text", "enum": "unknown-lexeme-type"}
	if len(res.Lexemes) != len(toks) {
		c.Violate("exact:lexeme-count", fmt.Sprintf("%d lexemes for %d rendered tokens", len(res.Lexemes), len(toks)), rp)
		return
	}
	c.Inc("exactness", "lexemes_compared", len(toks))
	for i, t := range toks {
		lx := res.Lexemes[i]
		want := t.Type
		if w, ok := typeOf[want]; ok {
			want = w
		}
		if lx.Type != want {
			c.Violate("exact:lexeme-type", fmt.Sprintf("lexeme %d is %s, the document has a %s (%q) there", i, lx.Type, t.Type, trunc(t.Text, 40)), rp)
			return
		}
		switch t.Type {
		case "annotation", "text":
			lo, hi := 0, len(content)-1
			if i > 0 {
				lo = toks[i-1].End + 1
			}
			if i+1 < len(toks) {
				hi = toks[i+1].Begin - 1
			}
			if lx.Begin < lo || lx.End > hi {
				c.Violate("exact:"+t.Type+"-outside-gap", fmt.Sprintf("%s lexeme [%d:%d] leaves the gap [%d:%d] between its neighbours", t.Type, lx.Begin, lx.End, lo, hi), rp)
				return
			}
			if t.Type == "text" && lx.End >= lx.Begin && lx.Begin > 0 && lx.Begin < len(content) {
				// the text of a Description begins on the line after the keyword: not on the keyword's line, and not between the two
				// bytes of that line's CRLF
				between := string(content[lo:lx.Begin])
				if content[lx.Begin-1] == '\r' && content[lx.Begin] == '\n' {
					c.Violate("exact:text-begins-inside-a-line-end", fmt.Sprintf("text lexeme begins at %d, between the CR and the LF that end the keyword's line", lx.Begin), rp)
					return
				}
				if !strings.ContainsAny(between, "\r\n") {
					c.Violate("exact:text-begins-on-the-keyword-line", fmt.Sprintf("text lexeme begins at %d, on the line of its keyword (%q lies between)", lx.Begin, trunc(between, 40)), rp)
					return
				}
			}
			got := ""
			if lx.End >= lx.Begin {
				got = string(content[lx.Begin : lx.End+1])
			}
			g := normText(got)
			if t.Type == "text" && strings.HasPrefix(g, "(") && strings.HasSuffix(g, ")") {
				g = normText(g[1 : len(g)-1])
			}
			if g != normText(t.Text) {
				c.Violate("exact:"+t.Type+"-bytes", fmt.Sprintf("%s lexeme reads %q, the document has %q", t.Type, trunc(got, 80), trunc(t.Text, 80)), rp)
				return
			}
		case "schema", "enum", "regex":
			// a body starts exactly where it was rendered; jsight-schema-core, which measures the body, may take the
			// comments and blanks that follow it into the lexeme – nothing else
			ok := lx.Begin == t.Begin && lx.End >= t.End && lx.End < len(content)
			if ok && lx.End > t.End {
				// the excess is made of the lines that follow (it starts with the line end), never of blanks on the body's last line
				// (schema bodies are measured by jsight-schema-core, which also takes blanks that are followed by comments)
				if c0 := content[t.End+1]; t.Type != "schema" && (c0 == ' ' || c0 == '\t') {
					ok = false
				} else if tr, _ := ref.TriviaOnly(content[t.End+1 : lx.End+1]); !tr {
					ok = false
				}
			}
			if !ok {
				c.Violate("exact:"+t.Type+"-bounds", fmt.Sprintf("%s lexeme %d is [%d:%d], the document has %q at [%d:%d]", t.Type, i, lx.Begin, lx.End, trunc(t.Text, 40), t.Begin, t.End), rp)
				return
			}
		default:
			if lx.Begin != t.Begin || lx.End != t.End {
				c.Violate("exact:"+t.Type+"-bounds", fmt.Sprintf("%s lexeme %d is [%d:%d], the document has %q at [%d:%d]", t.Type, i, lx.Begin, lx.End, trunc(t.Text, 40), t.Begin, t.End), rp)
				return
			}
		}
	}
}
