package checks

import (
	"verifharness/internal/fw"
	"verifharness/internal/proto"
)

// filled in together with the model renderer
func exactnessJobs(c *fw.Ctx, emit func(*proto.Job)) {}

func c12Exact(c *fw.Ctx, j *proto.Job, res *proto.Result) {}
