package checks

import (
	"fmt"
	"strings"

	"verifharness/internal/fw"
	"verifharness/internal/proto"
	"verifharness/internal/ref"
)

func toLex(res *proto.Result) []ref.Lex {
	out := make([]ref.Lex, len(res.Lexemes))
	for i, l := range res.Lexemes {
		out[i] = ref.Lex{Type: l.Type, Begin: l.Begin, End: l.End}
	}
	return out
}

// c12WellFormed judges one scan result.
func c12WellFormed(c *fw.Ctx, j *proto.Job, res *proto.Result, judgeTail bool) {
	content := j.Files[j.Root]
	if res.Panic != nil {
		c.Violate("panic:scan:"+res.Panic.Func+":"+res.Panic.Kind, "scanner panicked: "+res.Panic.Value, replayOf(j, res))
		return
	}
	if res.Fatal != nil {
		c.Violate("fatal:"+res.Fatal.Kind+":"+res.Fatal.Func, "scanner killed the process", replayOf(j, res))
		return
	}
	for _, l := range res.Lexemes {
		if l.ValuePanic != "" {
			c.Violate("lexeme:value-panics", fmt.Sprintf("Value() of lexeme %s [%d:%d] panics: %s", l.Type, l.Begin, l.End, l.ValuePanic), replayOf(j, res))
			return
		}
	}
	if res.ScanErr != nil && (res.ScanErr.Index < 0 || res.ScanErr.Index > len(content)) {
		c.Violate("error:index-outside-file", fmt.Sprintf("scan error at index %d in a file of %d bytes", res.ScanErr.Index, len(content)), replayOf(j, res))
	}
	for _, v := range ref.CheckLexemes(content, toLex(res), res.Accepted, judgeTail) {
		c.Violate("lexemes:"+v[0], v[1], replayOf(j, res))
	}
}

// C12 – the scanner reports exactly the lexemes in the text.
func C12(c *fw.Ctx) {
	c.Rule("well-formedness and coverage-completeness: the hostile byte-string workload (corpus, truncations, stacked mutants, dictionary strings, " +
		"EOL/NUL/UTF-8 variants, all 1- and 2-byte files in the thorough tier) through the public scanner; exactness: documents rendered from " +
		"abstract models in random layouts, whose token map (type, begin, end) is the ground truth; distinct = distinct file bytes; " +
		"non-trivial = the scanner produced at least one lexeme")
	c.Assume("annotation and Description text lexemes are compared after trimming blanks (the language discards them); all other lexemes byte for byte")
	pool := c.Pool(false, 0)
	c.RunJobs(pool, func(emit func(*proto.Job)) {
		e := func(label string, j *proto.Job) {
			if len(j.Files) != 1 && j.Files[j.Root] == nil {
				return
			}
			jj := &proto.Job{ID: label + "/" + j.ID, Root: j.Root, Files: map[string][]byte{j.Root: j.Files[j.Root]}, Scan: true, WantSteps: true}
			emit(jj)
		}
		hostileBytes(c, c.Pick(2, 20), e)
		if !c.Quick() {
			tinyFiles(e)
		}
		exactnessJobs(c, emit)
	}, func(j *proto.Job, res *proto.Result) {
		if workerProblem(c, res) {
			return
		}
		label := j.ID[:strings.Index(j.ID, "/")]
		c.Count(jobKey(j), len(res.Lexemes) > 0)
		c.Inc("streams", label, 1)
		c.Inc("lexemes", "observed", len(res.Lexemes))
		if res.Accepted {
			c.Inc("verdicts", "scanned-to-end", 1)
		} else {
			c.Inc("verdicts", "scan-error", 1)
		}
		c12WellFormed(c, j, res, label == "corpus" || label == "eol" || label == "exact")
		if label == "exact" {
			c12Exact(c, j, res)
		}
		if c.NeedSample() && label == "mutate" && len(res.Lexemes) > 3 {
			c.Sample(map[string]interface{}{"file": sampleDoc(j.Files[j.Root]), "lexemes": res.Lexemes[:4], "total_lexemes": len(res.Lexemes)})
		}
	})
	c.Finish()
}
