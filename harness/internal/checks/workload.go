// Package checks: one file per property. Shared hostile workload lives here.
package checks

import (
	"fmt"
	"math/rand"
	"path/filepath"
	"sort"
	"strings"

	"verifharness/internal/fw"
	"verifharness/internal/gen"
	"verifharness/internal/model"
	"verifharness/internal/proto"
)

var corpusCache []*gen.Project

func Corpus(c *fw.Ctx) []*gen.Project {
	if corpusCache != nil {
		return corpusCache
	}
	ps, err := gen.LoadCorpus(filepath.Join(fw.VerifDir, "corpus"))
	if err != nil || len(ps) < 100 {
		c.Inconclusive(fmt.Sprintf("corpus not loaded: %v (%d projects)", err, len(ps)))
		c.Finish()
	}
	corpusCache = ps
	return ps
}

func cloneFiles(m map[string][]byte) map[string][]byte {
	out := make(map[string][]byte, len(m))
	for k, v := range m {
		out[k] = v
	}
	return out
}

// projectJob builds a job for a project; single-file projects are built in memory unless disk is forced.
func projectJob(id string, p *gen.Project, disk bool) *proto.Job {
	j := &proto.Job{ID: id, Root: p.Root, Files: p.Files}
	if !p.HasInclude() && !disk {
		j.InMemory = true
	}
	return j
}

func singleJob(id string, content []byte, disk bool) *proto.Job {
	return &proto.Job{ID: id, Root: "root.jst", Files: map[string][]byte{"root.jst": content}, InMemory: !disk}
}

// hostileStreams emits the byte-string part of the hostile workload. label is the stream name.
type emitFn func(label string, j *proto.Job)

func hostileBytes(c *fw.Ctx, scale int, emit emitFn) {
	corpus := Corpus(c)
	r := gen.Rng(c.Seed, c.ID, "hostile")
	splice := func() []byte { return corpus[r.Intn(len(corpus))].RootContent() }
	n := 0
	id := func(l string) string { n++; return fmt.Sprintf("%s-%d", l, n) }

	// corpus as is (on disk for include projects)
	for _, p := range corpus {
		emit("corpus", projectJob(id("corpus"), p, false))
	}
	// truncations
	for _, p := range corpus {
		b := p.RootContent()
		if len(b) == 0 {
			continue
		}
		k := 2 * scale
		for i := 0; i < k; i++ {
			q := &gen.Project{Root: p.Root, Files: cloneFiles(p.Files)}
			q.Files[p.Root] = b[:r.Intn(len(b))]
			emit("truncate", projectJob(id("trunc"), q, false))
		}
	}
	// stacked mutations
	for i := 0; i < 24000*scale; i++ {
		p := corpus[r.Intn(len(corpus))]
		q := &gen.Project{Root: p.Root, Files: cloneFiles(p.Files)}
		target := p.Root
		if p.HasInclude() && r.Intn(2) == 0 { // mutate an included file instead
			names := make([]string, 0, len(p.Files))
			for k := range p.Files {
				names = append(names, k)
			}
			sort.Strings(names)
			target = names[r.Intn(len(names))]
		}
		q.Files[target] = gen.Mutate(r, p.Files[target], 1+r.Intn(4), splice)
		emit("mutate", projectJob(id("mut"), q, r.Intn(20) == 0))
	}
	// mutants of rendered abstract models: documents that use every feature of the language in every layout (explicit contexts,
	// MACRO/PASTE, INCLUDE files, CRLF/CR, block annotations), one to three steps away from valid
	mr := gen.Rng(c.Seed, c.ID, "hostile-models")
	for i := 0; i < 1500*scale; i++ {
		m := model.Generate(mr, model.QuickSize)
		rd := m.Render(model.RandomLayout(gen.Rng(c.Seed, c.ID, "hostile-layout", fmt.Sprint(i))))
		names := make([]string, 0, len(rd.Files))
		for k := range rd.Files {
			names = append(names, k)
		}
		sort.Strings(names)
		for v := 0; v < 3; v++ {
			q := &gen.Project{Root: rd.Root, Files: cloneFiles(rd.Files)}
			target := rd.Root
			if len(names) > 1 && r.Intn(2) == 0 {
				target = names[r.Intn(len(names))]
			}
			q.Files[target] = gen.Mutate(r, rd.Files[target], 1+r.Intn(3), splice)
			emit("model-mutant", projectJob(id("mm"), q, false))
		}
	}
	// user types that refer to each other in exponentially many ways: @t<i> refers to @t<i+1> and @t<i+2> - through properties,
	// array items, a union, allOf + property - 12 to 200 types
	for _, n := range []int{12, 24, 30, 36, 50, 200} {
		for kind := 0; kind < 4; kind++ {
			var sb strings.Builder
			sb.WriteString("JSIGHT 0.3\n")
			for i := 0; i < n; i++ {
				switch kind {
				case 0:
					sb.WriteString(fmt.Sprintf("TYPE @t%d\n  {\"a\": @t%d, \"b\": @t%d}\n", i, i+1, i+2))
				case 1:
					sb.WriteString(fmt.Sprintf("TYPE @t%d\n  @t%d | @t%d\n", i, i+1, i+2))
				case 2:
					sb.WriteString(fmt.Sprintf("TYPE @t%d\n  {\"a\": [@t%d], \"b\": @t%d // {optional: true}\n  }\n", i, i+1, i+2))
				case 3:
					sb.WriteString(fmt.Sprintf("TYPE @t%d\n  {\"a\": @t%d | @t%d, \"c\": @t%d}\n", i, i+1, i+2, i+1))
				}
			}
			sb.WriteString(fmt.Sprintf("TYPE @t%d\n  {\"k\": 1}\nTYPE @t%d\n  {\"m\": \"s\"}\nGET /a\n  200 @t0\n", n, n+1))
			emit("type-chain", singleJob(id("tchain"), []byte(sb.String()), false))
		}
	}
	// ladders: @t<i> names @t<i+1> and @t<i+2> in one of ten forms, the place decorated in one of eight ways - rules that make the
	// reference optional, and texts that only look like such rules (in a note, in a key, in a string, with the value false)
	for _, n := range []int{22, 29, 34, 60} {
		for form := 0; form < ladderForms; form++ {
			for deco := 0; deco < ladderDecos; deco++ {
				emit("type-ladder", singleJob(id(fmt.Sprintf("ladder-n%d-f%d-d%d", n, form, deco)), typeLadder(n, form, deco), false))
			}
		}
	}
	// deeply nested schemas: arrays, objects and both, as a TYPE and as a response body, around the limit of 1000 levels and far beyond
	for _, d := range deepNestingDocs() {
		emit("deep-nesting", singleJob(id("deep"), d, false))
	}
	// long runs of one byte value around the limits of the error quote (197..202 bytes) and far beyond, as a whole file, as a line
	// after a valid prologue, inside a parameter and in an included file
	for _, bv := range []byte{0x80, 0xBF, 0xC3, 0xE2, 0xF0, 0xFF, 0x01, ' ', '\t', 'a', '"', '(', '#', '/', '{', '@'} {
		for _, n := range []int{197, 198, 199, 200, 201, 202, 203, 250, 400, 1000, 5000} {
			run := strings.Repeat(string([]byte{bv}), n)
			emit("long-run", singleJob(id("run"), []byte(run), false))
			emit("long-run", singleJob(id("run"), []byte("JSIGHT 0.3\n"+run+"\n"), false))
			emit("long-run", singleJob(id("run"), []byte("JSIGHT 0.3\nGET /"+run+"\n  200 any\n"), false))
			emit("long-run", singleJob(id("run"), []byte("JSIGHT 0.3\nTYPE @t // "+run+"\n"+run), false))
			emit("long-run", &proto.Job{ID: id("run"), Root: "root.jst", Files: map[string][]byte{"root.jst": []byte("JSIGHT 0.3\nINCLUDE p.jst\n"), "p.jst": []byte("TYPE @a any\n" + run + "\n")}})
		}
	}
	// dictionary strings
	for i := 0; i < 8000*scale; i++ {
		var sb strings.Builder
		k := 1 + r.Intn(8)
		for t := 0; t < k; t++ {
			sb.WriteString(gen.Dict[r.Intn(len(gen.Dict))])
			switch r.Intn(4) {
			case 0:
				sb.WriteByte(' ')
			case 1:
				sb.WriteByte('\n')
			}
		}
		emit("dict", singleJob(id("dict"), []byte(sb.String()), false))
	}
	// dictionary strings after a valid prologue (so that later phases are reached)
	prologues := []string{"JSIGHT 0.3\n", "JSIGHT 0.3\nGET /a\n", "JSIGHT 0.3\nURL /a/{id}\n", "JSIGHT 0.3\nTYPE @t\n{}\n", "JSIGHT 0.3\nURL /r\nProtocol json-rpc-2.0\nMethod m\n"}
	for i := 0; i < 6000*scale; i++ {
		var sb strings.Builder
		sb.WriteString(prologues[r.Intn(len(prologues))])
		k := 1 + r.Intn(6)
		for t := 0; t < k; t++ {
			sb.WriteString(gen.Dict[r.Intn(len(gen.Dict))])
			switch r.Intn(3) {
			case 0:
				sb.WriteByte(' ')
			case 1:
				sb.WriteByte('\n')
			}
		}
		emit("prologue-dict", singleJob(id("pdict"), []byte(sb.String()), false))
	}
	// EOL / NUL / invalid UTF-8 variants of corpus files
	for i, p := range corpus {
		if p.HasInclude() || (c.Quick() && i%4 != int(c.Seed)%4) {
			continue
		}
		b := string(p.RootContent())
		emit("eol", singleJob(id("crlf"), []byte(strings.ReplaceAll(b, "\n", "\r\n")), false))
		emit("eol", singleJob(id("cr"), []byte(strings.ReplaceAll(b, "\n", "\r")), false))
		if len(b) > 0 {
			at := r.Intn(len(b))
			emit("nul", singleJob(id("nul"), []byte(b[:at]+"\x00"+b[at:]), false))
			emit("utf8", singleJob(id("utf8"), []byte(b[:at]+"\xff\xfe\xc3"+b[at:]), false))
		}
	}
}

// cycleInContextProjects: include cycles whose second copy runs into something else before it gets to its INCLUDE again - the copy
// stands inside the explicit context the first one has left open (D79). Used by C14 (a recursion error on an INCLUDE line), and by
// the hostile workload, i.e. C01 and the location / trace oracles of C07.
func cycleInContextProjects() []map[string]string {
	return []map[string]string{
		{"root.jst": "JSIGHT 0.3\nINCLUDE a.jst\n", "a.jst": "URL /a\n(\n  GET\n  INCLUDE a.jst\n)\n"},
		{"root.jst": "JSIGHT 0.3\nINCLUDE a.jst\n", "a.jst": "INFO\n(\n  Title \"t\"\n  Version 1\n  INCLUDE a.jst\n)\n"},
		{"root.jst": "JSIGHT 0.3\nINCLUDE a.jst\n", "a.jst": "GET /a\n(\n  200 any\n  Description\n    x\n  INCLUDE a.jst\n)\n"},
		{"root.jst": "JSIGHT 0.3\nINCLUDE a.jst\n", "a.jst": "URL /a\n(\n  GET\n  INCLUDE b.jst\n)\n", "b.jst": "  200 any\n  INCLUDE a.jst\n"},
		{"root.jst": "JSIGHT 0.3\nURL /r\n(\n  INCLUDE a.jst\n)\n", "a.jst": "GET\n  200 any\nTAG @t\nINCLUDE a.jst\n"},
		{"root.jst": "JSIGHT 0.3\nINCLUDE a.jst\n", "a.jst": "SERVER @s\n(\n  BaseUrl \"http://x\"\n  INCLUDE sub/b.jst\n)\n", "sub/b.jst": "# b\nINCLUDE c.jst\n", "sub/c.jst": "INCLUDE b.jst\n"},
		{"root.jst": "JSIGHT 0.3\nINCLUDE a.jst\n", "a.jst": "MACRO @m\n(\n  200 any\n  INCLUDE a.jst\n)\n"},
		{"root.jst": "JSIGHT 0.3\nINCLUDE a.jst\n", "a.jst": "TYPE @t\n  {}\nURL /a\n(\n  GET\n  (\n    INCLUDE a.jst\n  )\n)\n"},
		{"root.jst": "JSIGHT 0.3\nINCLUDE b.jst\n", "b.jst": "URL /b\n(\n  GET\n  INCLUDE c.jst\n)\n", "c.jst": "    200 any\n    Description\n      " + strings.Repeat("long text ", 40) + "\n    INCLUDE b.jst\n"},
		{"root.jst": "JSIGHT 0.3\nTYPE @t any\nINCLUDE p/a.jst\n", "p/a.jst": "GET /a\n(\n  INCLUDE q/b.jst\n)\n", "p/q/b.jst": "200 any\nINCLUDE c.jst\n", "p/q/c.jst": "# c\n\nINCLUDE b.jst\n"},
	}
}

// all 1- and 2-byte files
func tinyFiles(emit emitFn) {
	n := 0
	for a := 0; a < 256; a++ {
		n++
		emit("tiny", singleJob(fmt.Sprintf("tiny1-%d", a), []byte{byte(a)}, false))
		for b := 0; b < 256; b++ {
			emit("tiny", singleJob(fmt.Sprintf("tiny2-%d-%d", a, b), []byte{byte(a), byte(b)}, false))
		}
	}
}

// macroGraphs: every digraph on <=3 macros, with and without root pastes; chains; undefined pastes.
func macroGraphs(c *fw.Ctx, emit emitFn) {
	names := []string{"a", "b", "c"}
	n := 0
	for g := 0; g < 512; g++ {
		for variant := 0; variant < 3; variant++ {
			var sb strings.Builder
			sb.WriteString("JSIGHT 0.3\n")
			for i, m := range names {
				sb.WriteString("MACRO @" + m + "\n(\n  TYPE @t" + m + " any\n")
				for j, t := range names {
					if g&(1<<(uint(i*3+j))) != 0 {
						sb.WriteString("  PASTE @" + t + "\n")
					}
				}
				sb.WriteString(")\n")
			}
			switch variant {
			case 1:
				for _, m := range names {
					sb.WriteString("PASTE @" + m + "\n")
				}
			case 2:
				sb.WriteString("PASTE @" + names[g%3] + "\n")
			}
			n++
			emit("macro-graph", singleJob(fmt.Sprintf("mg-%d-%d", g, variant), []byte(sb.String()), false))
		}
	}
	// chains and long cycles
	for l := 1; l <= 8; l++ {
		for _, closed := range []bool{false, true} {
			for _, used := range []bool{false, true} {
				var sb strings.Builder
				sb.WriteString("JSIGHT 0.3\n")
				for i := 0; i < l; i++ {
					sb.WriteString(fmt.Sprintf("MACRO @m%d\n(\n  TYPE @t%d any\n", i, i))
					if i+1 < l {
						sb.WriteString(fmt.Sprintf("  PASTE @m%d\n", i+1))
					} else if closed {
						sb.WriteString("  PASTE @m0\n")
					}
					sb.WriteString(")\n")
				}
				if used {
					sb.WriteString("PASTE @m0\n")
				}
				emit("macro-chain", singleJob(fmt.Sprintf("mc-%d-%v-%v", l, closed, used), []byte(sb.String()), false))
			}
		}
	}
	for _, d := range []string{
		"JSIGHT 0.3\nPASTE @nope\n",
		"JSIGHT 0.3\nGET /a\n  PASTE @nope\n",
		"JSIGHT 0.3\nMACRO @m\n(\n  PASTE @nope\n)\nPASTE @m\n",
		"JSIGHT 0.3\nMACRO @m\n(\n  PASTE @nope\n)\n",
		"JSIGHT 0.3\nPASTE\n", "JSIGHT 0.3\nMACRO\n", "JSIGHT 0.3\nMACRO @m\n", "JSIGHT 0.3\nMACRO @m\n(\n)\n",
		"JSIGHT 0.3\nMACRO @m\n(\n PASTE @m\n)\n", "MACRO @m\n(\n JSIGHT 0.3\n)\nPASTE @m\n",
		"JSIGHT 0.3\nMACRO @m\n  MACRO @n\n    GET /a\n", "PASTE @m\nMACRO @m\n(\nJSIGHT 0.3\n)\n",
	} {
		n++
		emit("macro-special", singleJob(fmt.Sprintf("ms-%d", n), []byte(d), false))
	}
	// chains of macros each of which pastes the next one k times: the expansion is k^depth copies of the innermost body, from a text
	// of a few hundred bytes; used from the root, from a method, and not used at all
	for _, fan := range []int{2, 3} {
		for _, depth := range []int{4, 8, 12, 16, 20, 24, 28, 32, 40} {
			for _, use := range []string{"root", "method", "unused"} {
				var sb strings.Builder
				sb.WriteString("JSIGHT 0.3\n")
				if use == "method" {
					sb.WriteString("GET /a\n  PASTE @m0\n")
				}
				for i := 0; i < depth; i++ {
					sb.WriteString(fmt.Sprintf("MACRO @m%d\n(\n", i))
					if i == depth-1 {
						sb.WriteString("  200 any\n")
					} else {
						for q := 0; q < fan; q++ {
							sb.WriteString(fmt.Sprintf("  PASTE @m%d\n", i+1))
						}
					}
					sb.WriteString(")\n")
				}
				if use == "root" {
					sb.WriteString("GET /b\n  PASTE @m0\n")
				}
				n++
				emit("macro-fanout", singleJob(fmt.Sprintf("mf-%d-%d-%s", fan, depth, use), []byte(sb.String()), false))
			}
		}
	}
	_ = c
}

// includeGraphs: all digraphs on <=3 files (file i includes a subset), sampled on 4-5 files, plus hostile targets.
func includeGraphs(c *fw.Ctx, sampled int, emit emitFn) {
	names := []string{"root.jst", "b.jst", "sub/c.jst"}
	rel := func(from, to string) string { // targets are relative to the includer's directory
		if strings.HasPrefix(from, "sub/") {
			if strings.HasPrefix(to, "sub/") {
				return strings.TrimPrefix(to, "sub/")
			}
			return "" // cannot be expressed without ".." – skipped
		}
		return to
	}
	for g := 0; g < 512; g++ {
		files := map[string][]byte{}
		for i, f := range names {
			var sb strings.Builder
			if i == 0 {
				sb.WriteString("JSIGHT 0.3\n")
			}
			for j, t := range names {
				if g&(1<<uint(i*3+j)) != 0 {
					if p := rel(f, t); p != "" {
						sb.WriteString("INCLUDE " + p + "\n")
					}
				}
			}
			files[f] = []byte(sb.String())
		}
		emit("include-graph", &proto.Job{ID: fmt.Sprintf("ig-%d", g), Root: "root.jst", Files: files})
	}
	r := gen.Rng(c.Seed, c.ID, "include-graphs")
	for s := 0; s < sampled; s++ {
		k := 4 + r.Intn(2)
		files := map[string][]byte{}
		for i := 0; i < k; i++ {
			var sb strings.Builder
			if i == 0 {
				sb.WriteString("JSIGHT 0.3\n")
			}
			for j := 0; j < k; j++ {
				if r.Intn(4) == 0 {
					sb.WriteString(fmt.Sprintf("INCLUDE f%d.jst\n", j))
				}
			}
			files[fmt.Sprintf("f%d.jst", i)] = []byte(sb.String())
		}
		emit("include-graph-sampled", &proto.Job{ID: fmt.Sprintf("igs-%d", s), Root: "f0.jst", Files: files})
	}
	// acyclic graphs that fan out: a chain of n files each of which includes the next one k times is followed k^n times
	for _, nk := range [][2]int{{10, 2}, {17, 2}, {24, 2}, {40, 2}, {64, 2}, {12, 3}, {30, 3}, {8, 8}, {20, 16}, {3, 100}} {
		n, k := nk[0], nk[1]
		files := map[string][]byte{"root.jst": []byte("JSIGHT 0.3\n" + strings.Repeat("INCLUDE f0.jst\n", k))}
		for i := 0; i < n; i++ {
			body := strings.Repeat(fmt.Sprintf("INCLUDE f%d.jst\n", i+1), k)
			if n == 12 && i%2 == 1 {
				body = fmt.Sprintf("TYPE @t%d any\n", i) + body // (a second inclusion then repeats a declaration: an error, but one that must come)
			}
			files[fmt.Sprintf("f%d.jst", i)] = []byte(body)
		}
		files[fmt.Sprintf("f%d.jst", n)] = []byte("# leaf\n")
		emit("include-fanout", &proto.Job{ID: fmt.Sprintf("ifan-%d-%d", n, k), Root: "root.jst", Files: files})
	}
	// plain chains: every file includes the next one, around the limit of 1000 nested files and far beyond (every directive
	// keeps the trace of its file, copied per file: memory quadratic in the depth)
	for _, n := range []int{100, 999, 1000, 1001, 5000, 30000} {
		files := map[string][]byte{"root.jst": []byte("JSIGHT 0.3\nINCLUDE c0.jst\n")}
		for i := 0; i < n; i++ {
			files[fmt.Sprintf("c%d.jst", i)] = []byte(fmt.Sprintf("TYPE @c%d any\nINCLUDE c%d.jst\n", i, i+1))
		}
		files[fmt.Sprintf("c%d.jst", n)] = []byte("TYPE @last any\n")
		emit("include-chain", &proto.Job{ID: fmt.Sprintf("ichain-%d", n), Root: "root.jst", Files: files})
	}
	targets := []string{"missing.jst", "d", "d/", "\"\"", "/etc/passwd", "..", ".", "../x.jst", "./b.jst", "a\\b.jst", "b.jst extra",
		"b.jst // note", "b.jst\n{}", "b.jst (", "\"b.jst\"", "\"b.jst", "", "b.jst b.jst", "sub/c.jst", "sub", "~", "%2e%2e/x",
		"b.jst\n(\n)", "b.jst #c", "d/../b.jst", "b.jst/", "\x00", "\xff.jst", strings.Repeat("a", 300), strings.Repeat("d/", 200) + "x"}
	for i, t := range targets {
		files := map[string][]byte{
			"root.jst":  []byte("JSIGHT 0.3\nINCLUDE " + t + "\n"),
			"b.jst":     []byte("TYPE @b any\n"),
			"sub/c.jst": []byte("TYPE @c any\n"),
			"../x.jst":  []byte("TYPE @x any\n"),
		}
		emit("include-target", &proto.Job{ID: fmt.Sprintf("it-%d", i), Root: "root.jst", Files: files, Dirs: []string{"d"}})
	}
	for i, fs := range cycleInContextProjects() {
		files := map[string][]byte{}
		for k, v := range fs {
			files[k] = []byte(v)
		}
		emit("include-cycle-in-context", &proto.Job{ID: fmt.Sprintf("icc-%d", i), Root: "root.jst", Files: files})
	}
	// root specials
	emit("root-special", &proto.Job{ID: "root-missing", Root: "nope.jst", Files: map[string][]byte{"other.jst": []byte("x")}})
	emit("root-special", &proto.Job{ID: "root-empty", Root: "root.jst", Files: map[string][]byte{"root.jst": {}}})
	emit("root-special", &proto.Job{ID: "root-empty-mem", Root: "root.jst", Files: map[string][]byte{"root.jst": {}}, InMemory: true})
	emit("root-special", &proto.Job{ID: "root-dir", Root: "d", Files: map[string][]byte{"other.jst": []byte("x")}, Dirs: []string{"d"}})
	emit("root-special", &proto.Job{ID: "root-noname", Root: "", Files: map[string][]byte{"other.jst": []byte("x")}})
	// root files that exist but are no regular files: the build must end with an error, never wait or read on
	for _, sp := range [][2]string{{"pipe", "@@FIFO@@"}, {"zero", "@@SYMLINK:/dev/zero@@"}, {"null", "@@SYMLINK:/dev/null@@"}, {"tty", "@@SYMLINK:/dev/tty@@"},
		{"dangling", "@@SYMLINK:nowhere.jst@@"}, {"selflink", "@@SYMLINK:root.jst@@"}, {"dirlink", "@@SYMLINK:d@@"}, {"link-to-file", "@@SYMLINK:other.jst@@"}} {
		emit("root-special", &proto.Job{ID: "root-" + sp[0], Root: "root.jst", Files: map[string][]byte{"root.jst": []byte(sp[1]), "other.jst": []byte("JSIGHT 0.3\nGET /x\n  200 any\n")}, Dirs: []string{"d"}})
	}
	emit("root-special", &proto.Job{ID: "root-comment-only", Root: "root.jst", Files: map[string][]byte{"root.jst": []byte("# nothing\n")}})
}

func pick(r *rand.Rand, ss []string) string { return ss[r.Intn(len(ss))] }

// deepNestingDocs: schemas nested n levels deep (arrays, objects, alternating), in a TYPE and in a response body.
func deepNestingDocs() [][]byte {
	var out [][]byte
	for _, n := range []int{50, 400, 999, 1000, 1001, 2500, 5200, 12000, 150000, 1000000} {
		for kind := 0; kind < 3; kind++ {
			if n > 12000 && kind == 2 {
				continue
			}
			var open, close strings.Builder
			for i := 0; i < n; i++ {
				switch {
				case kind == 0 || (kind == 2 && i%2 == 0):
					open.WriteString("[")
					close.WriteString("]")
				default:
					open.WriteString("{\"a\":")
					close.WriteString("}")
				}
			}
			body := open.String() + "1" + reverseBrackets(close.String())
			if kind == 0 {
				body = open.String() + reverseBrackets(close.String())
			}
			out = append(out, []byte("JSIGHT 0.3\nTYPE @deep\n  "+body+"\nGET /a\n  200 any\n"))
			out = append(out, []byte("JSIGHT 0.3\nGET /a\n  200\n    "+body+"\n"))
			// the deep value is not the last child of its parent: first of two properties, first of two items, in the middle
			// of three, and one level down
			if n >= 999 {
				for _, wrap := range [][2]string{{"{\"deep\": ", ", \"z\": 1}"}, {"[", ", 1]"}, {"{\"a\": 0, \"deep\": ", ", \"z\": [1]}"}, {"{\"w\": {\"deep\": ", ", \"y\": 2}, \"z\": 1}"}, {"[[", ", 2], 3]"}} {
					out = append(out, []byte("JSIGHT 0.3\nGET /a\n  200\n    "+wrap[0]+body+wrap[1]+"\n"))
				}
				out = append(out, []byte("JSIGHT 0.3\nTYPE @deep\n  {\"deep\": "+body+", \"z\": 1}\nGET /a\n  200 @deep\n"))
			}
		}
	}
	// chains of types that inherit from each other through allOf at the bottom of a deep object: every type below the limit of
	// 1000 levels, the assembled content (types x levels) around and beyond it - D77
	for _, dn := range [][2]int{{900, 6}, {900, 2}, {300, 3}, {300, 4}, {499, 2}, {501, 2}, {100, 12}} {
		d, n := dn[0], dn[1]
		var sb strings.Builder
		sb.WriteString("JSIGHT 0.3\n")
		for i := 0; i < n; i++ {
			sb.WriteString(fmt.Sprintf("TYPE @t%d\n", i))
			sb.WriteString(strings.Repeat("{\"k\":", d) + "\n")
			if i+1 < n {
				sb.WriteString(fmt.Sprintf("{ // {allOf: \"@t%d\"}\n \"leaf%d\": 1 }\n", i+1, i))
			} else {
				sb.WriteString("{\"leaf\":1}")
			}
			sb.WriteString(strings.Repeat("}", d) + "\n")
		}
		out = append(out, []byte(sb.String()+"GET /d\n  200 @t0\n"))
		out = append(out, []byte(sb.String()+"GET /d\n  200\n    {\"in\": { // {allOf: \"@t0\"}\n      \"own\": 1\n    }, \"z\": 2}\n"))
	}
	return out
}

func reverseBrackets(s string) string {
	b := []byte(s)
	for i, j := 0, len(b)-1; i < j; i, j = i+1, j-1 {
		b[i], b[j] = b[j], b[i]
	}
	return string(b)
}
