package checks

import (
	"fmt"
	"strings"

	"verifharness/internal/fw"
	"verifharness/internal/gen"
	"verifharness/internal/model"
	"verifharness/internal/proto"
)

// treeShape: the directive tree after expansion, without positions (kinds, parameters, annotation, explicit flag, body presence, nesting).
func treeShape(nodes []*proto.Node) string {
	var out []string
	var rec func(ns []*proto.Node, depth int)
	rec = func(ns []*proto.Node, depth int) {
		for _, n := range ns {
			out = append(out, fmt.Sprintf("%d|%s|%s|%v|%v|%s|%v", depth, n.Kind, n.Keyword, n.Named, n.Unnamed, n.Annotation, n.HasBody))
			rec(n.Children, depth+1)
		}
	}
	rec(nodes, 0)
	return strings.Join(out, "\n")
}

// macroGraphDoc: macros m0..m(n-1), macro i pastes the macros in edges[i]; used lists the macros pasted from the root.
func macroGraphDoc(n int, edges [][]int, used []int, where string) string {
	var sb strings.Builder
	sb.WriteString("JSIGHT 0.3\n")
	for i := 0; i < n; i++ {
		sb.WriteString(fmt.Sprintf("MACRO @m%d\n(\n  %d any\n", i, 200+i))
		for _, t := range edges[i] {
			sb.WriteString(fmt.Sprintf("  PASTE @m%d\n", t))
		}
		sb.WriteString(")\n")
	}
	switch where {
	case "method":
		sb.WriteString("GET /x\n")
		for _, u := range used {
			sb.WriteString(fmt.Sprintf("  PASTE @m%d\n", u))
		}
		if len(used) == 0 {
			sb.WriteString("  299 any\n")
		}
	default:
		sb.WriteString("GET /x\n  299 any\n")
		// at the root the bodies (response codes) are out of context: wrap the use in a macro pasted in a method
		if len(used) > 0 {
			sb.WriteString("MACRO @top\n(\n")
			for _, u := range used {
				sb.WriteString(fmt.Sprintf("  PASTE @m%d\n", u))
			}
			sb.WriteString(")\nPOST /y\n  PASTE @top\n")
		}
	}
	return sb.String()
}

// reaches: does macro a reach macro b through PASTEs?
func hasCycleFrom(edges [][]int, start int) bool {
	seen := map[int]bool{}
	var dfs func(x int, path map[int]bool) bool
	dfs = func(x int, path map[int]bool) bool {
		if path[x] {
			return true
		}
		if seen[x] {
			return false
		}
		seen[x] = true
		path[x] = true
		for _, y := range edges[x] {
			if dfs(y, path) {
				return true
			}
		}
		delete(path, x)
		return false
	}
	return dfs(start, map[int]bool{})
}

// C10 – PASTE is transparent; cycles and undefined macros are errors.
func C10(c *fw.Ctx) {
	nPairs := c.Pick(3000, 120000)
	c.Rule(fmt.Sprintf("part A: %d seeded models, each rendered once with its directives in place and once with runs of sibling directives moved into "+
		"(nested) MACRO definitions placed before or after their PASTE, plus hand-made documents in which one macro is pasted several times; "+
		"oracle: equal ToJson and equal directive tree after expansion (phase hook). Part B: ALL PASTE graphs on <= 3 macros (each macro pastes any "+
		"subset, 512 graphs) and seeded graphs on 4 macros, each unused, pasted from a method and pasted through another macro; PASTE of an "+
		"undefined macro at the root, in a method and in a macro body; oracle: a macro that reaches itself is rejected with the recursion error "+
		"(never expanded, never a crash), an undefined macro with the not-found error, acyclic graphs are accepted. Part C: seeded flat documents "+
		"(implicit contexts only) in which ANY contiguous range of directives - also one that ends a resource and begins the next, so that the "+
		"pasted body climbs out of the directive that holds the PASTE - becomes a (nested) macro; same oracle as part A; distinct = distinct projects; "+
		"non-trivial = every case", nPairs))
	pool := c.Pool(false, 0)
	type pair struct {
		plain, macro *proto.Result
		files        map[string][]byte
		layout       map[string]string
	}
	pairs := map[string]*pair{}
	type graphCase struct {
		cyclicReachable bool // a cycle exists among the macros (the language rejects it whether it is used or not)
		anyCycle        bool
		doc             string
	}
	graphs := map[string]*graphCase{}
	c.RunJobs(pool, func(emit func(*proto.Job)) {
		r := gen.Rng(c.Seed, c.ID, "models")
		for i := 0; i < nPairs; i++ {
			m := model.Generate(r, model.QuickSize)
			lr := gen.Rng(c.Seed, c.ID, "layout", fmt.Sprint(i))
			l1 := model.RandomLayout(lr)
			l1.Macros, l1.Includes = false, false
			l2 := *l1
			l1.R = gen.Rng(c.Seed, c.ID, "structure", fmt.Sprint(i)) // the same structural choices (URL grouping ...) in both forms
			l2.R = gen.Rng(c.Seed, c.ID, "structure", fmt.Sprint(i))
			l2.Macros = true
			l2.Includes = i%4 == 0
			rd1, rd2 := m.Render(l1), m.Render(&l2)
			hasMacro := false
			for _, d := range rd2.Dirs {
				if d.Kind == "MACRO" {
					hasMacro = true
				}
			}
			if !hasMacro {
				continue
			}
			id := fmt.Sprintf("%d", i)
			maxMuLock.Lock()
			pairs[id] = &pair{files: rd2.Files, layout: layoutKey(&l2)}
			maxMuLock.Unlock()
			j1 := renderingJob("plain/"+id, rd1)
			j1.Ops, j1.WantPhases = []string{"json"}, true
			j2 := renderingJob("macro/"+id, rd2)
			j2.Ops, j2.WantPhases = []string{"json"}, true
			emit(j1)
			emit(j2)
		}
		// one macro pasted several times
		for k := 2; k <= 5; k++ {
			for variant := 0; variant < 3; variant++ {
				var a, b strings.Builder
				a.WriteString("JSIGHT 0.3\n")
				b.WriteString("JSIGHT 0.3\n")
				run := "    200 any // ok\n    404\n      Headers\n        {\"X-E\": \"v\"}\n      Body empty\n"
				macroBody := "  200 any // ok\n  404\n    Headers\n      {\"X-E\": \"v\"}\n    Body empty\n"
				if variant == 0 {
					b.WriteString("MACRO @common\n(\n" + macroBody + ")\n")
				}
				for q := 0; q < k; q++ {
					a.WriteString(fmt.Sprintf("URL /r%d\n  GET // get %d\n%s", q, q, run))
					b.WriteString(fmt.Sprintf("URL /r%d\n  GET // get %d\n    PASTE @common\n", q, q))
				}
				if variant != 0 {
					b.WriteString("MACRO @common\n(\n" + macroBody + ")\n")
				}
				id := fmt.Sprintf("multi-%d-%d", k, variant)
				maxMuLock.Lock()
				pairs[id] = &pair{files: map[string][]byte{"root.jst": []byte(b.String())}, layout: map[string]string{"hand-made": "macro pasted " + fmt.Sprint(k) + " times"}}
				maxMuLock.Unlock()
				j1 := singleJob("plain/"+id, []byte(a.String()), false)
				j1.Ops, j1.WantPhases = []string{"json"}, true
				j2 := singleJob("macro/"+id, []byte(b.String()), false)
				j2.Ops, j2.WantPhases = []string{"json"}, true
				emit(j1)
				emit(j2)
			}
		}
		// a macro that holds a method with its Path directive, pasted under several URLs (and pasted twice under one method's siblings)
		for k := 2; k <= 4; k++ {
			for variant := 0; variant < 3; variant++ {
				var a, b strings.Builder
				a.WriteString("JSIGHT 0.3\n")
				b.WriteString("JSIGHT 0.3\n")
				run := "  GET // shared\n    Path\n    {\n      \"id\": 1 // {min: 1}\n    }\n    200 any\n"
				macroBody := run
				def := "MACRO @withPath\n(\n" + macroBody + ")\n"
				if variant == 0 {
					b.WriteString(def)
				}
				for q := 0; q < k; q++ {
					a.WriteString(fmt.Sprintf("URL /p%d/{id}\n%s", q, run))
					b.WriteString(fmt.Sprintf("URL /p%d/{id}\n  PASTE @withPath\n", q))
					if variant == 2 {
						a.WriteString(fmt.Sprintf("TYPE @sep%d any\n", q))
						b.WriteString(fmt.Sprintf("TYPE @sep%d any\n", q))
					}
				}
				if variant != 0 {
					b.WriteString(def)
				}
				id := fmt.Sprintf("multipath-%d-%d", k, variant)
				maxMuLock.Lock()
				pairs[id] = &pair{files: map[string][]byte{"root.jst": []byte(b.String())}, layout: map[string]string{"hand-made": "macro with method+Path pasted under " + fmt.Sprint(k) + " URLs"}}
				maxMuLock.Unlock()
				j1 := singleJob("plain/"+id, []byte(a.String()), false)
				j1.Ops, j1.WantPhases = []string{"json"}, true
				j2 := singleJob("macro/"+id, []byte(b.String()), false)
				j2.Ops, j2.WantPhases = []string{"json"}, true
				emit(j1)
				emit(j2)
			}
		}
		// few directives through very many PASTE steps: a doubling chain of D macros on top of a chain of W macros that each paste the
		// next one; 2^D directives come out of about 2^D * (W+2) PASTE steps (more than a million), the in-place form is 2^D lines
		heavy := [][2]int{{12, 300}, {10, 1100}}
		if !c.Quick() {
			heavy = append(heavy, [2]int{14, 70}, [2]int{16, 16}, [2]int{8, 4200})
		}
		for _, dw := range heavy {
			D, W := dw[0], dw[1]
			var a, b strings.Builder
			a.WriteString("JSIGHT 0.3\nGET /a\n")
			for i := 0; i < 1<<uint(D); i++ {
				a.WriteString("  404 any\n")
			}
			b.WriteString(fmt.Sprintf("JSIGHT 0.3\nGET /a\n  PASTE @d%d\n", D))
			for k := D; k >= 1; k-- {
				b.WriteString(fmt.Sprintf("MACRO @d%d\n(\n  PASTE @d%d\n  PASTE @d%d\n)\n", k, k-1, k-1))
			}
			b.WriteString(fmt.Sprintf("MACRO @d0\n(\n  PASTE @w%d\n)\n", W))
			for k := W; k >= 1; k-- {
				b.WriteString(fmt.Sprintf("MACRO @w%d\n(\n  PASTE @w%d\n)\n", k, k-1))
			}
			b.WriteString("MACRO @w0\n(\n  404 any\n)\n")
			id := fmt.Sprintf("heavy-%d-%d", D, W)
			maxMuLock.Lock()
			pairs[id] = &pair{files: map[string][]byte{"root.jst": []byte(b.String())}, layout: map[string]string{"hand-made": fmt.Sprintf("%d directives through about %d PASTE steps", 1<<uint(D), (1<<uint(D))*(W+2))}}
			maxMuLock.Unlock()
			j1 := singleJob("plain/"+id, []byte(a.String()), false)
			j1.Ops = []string{"json"}
			j2 := singleJob("macro/"+id, []byte(b.String()), false)
			j2.Ops = []string{"json"}
			emit(j1)
			emit(j2)
		}
		// part C: macro bodies that are not runs of siblings (see c10free.go)
		fr := gen.Rng(c.Seed, c.ID, "free")
		for i := 0; i < c.Pick(3000, 100000); i++ {
			plain, macro, nm, ok := freePair(fr)
			if !ok {
				continue
			}
			id := fmt.Sprintf("free-%d", i)
			maxMuLock.Lock()
			pairs[id] = &pair{files: map[string][]byte{"root.jst": []byte(macro)}, layout: map[string]string{"family": "free-form macro bodies", "macros": fmt.Sprint(nm), "in-place form": plain}}
			maxMuLock.Unlock()
			j1 := singleJob("plain/"+id, []byte(plain), false)
			j1.Ops, j1.WantPhases = []string{"json"}, true
			j2 := singleJob("macro/"+id, []byte(macro), false)
			j2.Ops, j2.WantPhases = []string{"json"}, true
			emit(j1)
			emit(j2)
		}
		// part B: graphs
		emitGraph := func(id string, n int, edges [][]int) {
			anyCycle := false
			for s := 0; s < n; s++ {
				if hasCycleFrom(edges, s) {
					anyCycle = true
				}
			}
			for _, where := range []string{"unused", "method", "through-macro"} {
				var used []int
				if where != "unused" {
					for u := 0; u < n; u++ {
						used = append(used, u)
					}
				}
				doc := macroGraphDoc(n, edges, used, map[string]string{"unused": "method", "method": "method", "through-macro": "macro"}[where])
				gid := "graph/" + id + "/" + where
				maxMuLock.Lock()
				graphs[gid] = &graphCase{anyCycle: anyCycle, doc: doc}
				maxMuLock.Unlock()
				emit(singleJob(gid, []byte(doc), false))
			}
		}
		for g := 0; g < 512; g++ {
			edges := make([][]int, 3)
			for i := 0; i < 3; i++ {
				for k := 0; k < 3; k++ {
					if g&(1<<uint(i*3+k)) != 0 {
						edges[i] = append(edges[i], k)
					}
				}
			}
			emitGraph(fmt.Sprintf("all3-%d", g), 3, edges)
		}
		gr := gen.Rng(c.Seed, c.ID, "graphs")
		for s := 0; s < c.Pick(600, 70000); s++ {
			n := 4
			edges := make([][]int, n)
			for i := 0; i < n; i++ {
				for k := 0; k < n; k++ {
					if gr.Intn(5) == 0 {
						edges[i] = append(edges[i], k)
					}
				}
			}
			emitGraph(fmt.Sprintf("s4-%d", s), n, edges)
		}
		// long cycles and chains
		for l := 1; l <= 8; l++ {
			for _, closed := range []bool{false, true} {
				edges := make([][]int, l)
				for i := 0; i+1 < l; i++ {
					edges[i] = []int{i + 1}
				}
				if closed {
					edges[l-1] = append(edges[l-1], 0)
				}
				emitGraph(fmt.Sprintf("ring-%d-%v", l, closed), l, edges)
			}
		}
		for i, d := range []string{
			"JSIGHT 0.3\nPASTE @nope\n",
			"JSIGHT 0.3\nGET /a\n  PASTE @nope\n  200 any\n",
			"JSIGHT 0.3\nMACRO @m\n(\n  PASTE @nope\n)\nGET /a\n  PASTE @m\n",
			"JSIGHT 0.3\nMACRO @m\n(\n  200 any\n)\nGET /a\n  PASTE @M\n",
			"JSIGHT 0.3\nGET /a\n  PASTE @m\nMACRO @n\n(\n  200 any\n)\n",
		} {
			gid := fmt.Sprintf("undefined/%d", i)
			maxMuLock.Lock()
			graphs[gid] = &graphCase{doc: d}
			maxMuLock.Unlock()
			emit(singleJob(gid, []byte(d), false))
		}
	}, func(j *proto.Job, res *proto.Result) {
		if workerProblem(c, res) {
			return
		}
		if strings.HasPrefix(j.ID, "graph/") || strings.HasPrefix(j.ID, "undefined/") {
			maxMuLock.Lock()
			g := graphs[j.ID]
			maxMuLock.Unlock()
			c.Count(jobKey(j), true)
			rp := replayOf(j, res)
			if sig, what := crashSig(res); sig != "" {
				c.Violate(sig, what, rp)
				return
			}
			switch {
			case strings.HasPrefix(j.ID, "undefined/"):
				c.Inc("part_b", "undefined-macro", 1)
				if res.Accepted || res.Err == nil || !strings.Contains(res.Err.Msg, "macro not found") {
					c.Violate("undefined-macro:not-rejected", fmt.Sprintf("PASTE of an undefined macro: accepted=%v err=%v", res.Accepted, res.Err), rp)
				}
			case g.anyCycle:
				c.Inc("part_b", "cyclic-graph", 1)
				if res.Accepted || res.Err == nil {
					c.Violate("cycle:accepted", "a macro that reaches itself was accepted:\n"+g.doc, rp)
				} else if !strings.Contains(res.Err.Msg, "recursion") {
					c.Violate("cycle:wrong-error", fmt.Sprintf("a macro cycle is reported as %q", trunc(res.Err.Msg, 120)), rp)
				}
			default:
				c.Inc("part_b", "acyclic-graph", 1)
				if !res.Accepted {
					c.Violate("acyclic:rejected", fmt.Sprintf("an acyclic macro graph was rejected: %q", trunc(res.Err.Msg, 120)), rp)
				}
			}
			return
		}
		id := j.ID[strings.Index(j.ID, "/")+1:]
		maxMuLock.Lock()
		p := pairs[id]
		if strings.HasPrefix(j.ID, "plain/") {
			p.plain = res
		} else {
			p.macro = res
		}
		done := p.plain != nil && p.macro != nil
		maxMuLock.Unlock()
		if !done {
			return
		}
		c.Count(jobKey(&proto.Job{Root: "root.jst", Files: p.files}), true)
		c.Inc("part_a", "pairs", 1)
		if strings.HasPrefix(id, "heavy-") {
			c.Inc("part_a", "pairs-with-more-than-a-million-paste-steps", 1)
		}
		if strings.HasPrefix(id, "free-") {
			c.Inc("part_c", "pairs", 1)
			if p.plain.Accepted {
				c.Inc("part_c", "in-place-form-accepted", 1)
			}
		}
		rp := &fw.Replay{Jobs: []*proto.Job{{ID: "macro-form", Root: "root.jst", Files: p.files, Ops: []string{"json"}}}, Results: []interface{}{p.plain, p.macro},
			Expected: map[string]interface{}{"files": filesAsStrings(p.files), "layout": p.layout}}
		for _, r := range []*proto.Result{p.plain, p.macro} {
			if sig, what := crashSig(r); sig != "" {
				c.Violate(sig, what, rp)
				return
			}
		}
		if !p.plain.Accepted {
			return // judged by C02
		}
		if !p.macro.Accepted {
			c.Violate("macro-form-rejected", fmt.Sprintf("the in-place form is accepted, the macro form is rejected: %q at %s:%d", trunc(p.macro.Err.Msg, 140), relName(p.macro, p.macro.Err.File), p.macro.Err.Line), rp)
			return
		}
		a, b := findOut(p.plain, "json"), findOut(p.macro, "json")
		if sig, what := onlyOneSerialises(a, b); sig != "" {
			c.Violate("macro-form-not-serialisable", "the in-place form has a catalog, the macro form is accepted but has none: "+what, rp)
			return
		}
		if a == nil || b == nil || a.Bytes == nil || b.Bytes == nil {
			return
		}
		if string(a.Bytes) != string(b.Bytes) {
			if exampleOnlyDiff(a.Bytes, b.Bytes, p.files) {
				c.Violate("catalog-changed:"+sigRegexExample, "macro form: only regex-type examples differ", rp)
			} else {
				c.Violate("catalog-changed", "the macro form gives another catalog: "+firstDiff(string(a.Bytes), string(b.Bytes)), rp)
			}
			return
		}
		if treeShape(p.plain.Expand) != treeShape(p.macro.Expand) {
			c.Violate("tree-changed", "the directive tree after expansion differs from the in-place form", rp)
		}
		if c.NeedSample() && len(p.files) == 1 {
			c.Sample(map[string]interface{}{"macro_form": sampleDoc(p.files["root.jst"]), "layout": p.layout})
		}
	})
	if c.Hist("part_a")["pairs"] < 200 {
		c.Inconclusive("fewer than 200 macro/in-place pairs were compared")
	}
	c.Finish()
}
