package checks

import (
	"fmt"
	"sort"
	"strings"
	"sync"

	"verifharness/internal/fw"
	"verifharness/internal/proc"
	"verifharness/internal/proto"
)

// Scaling monitor ("within time proportional to the input"). The scanner's work is counted exactly through the step hook (C01);
// what comes after the scanner - rule checks, type compilation, expansion, serialisation - has no step counter, so its cost is
// observed as CPU time of the worker process (getrusage around the call; not wall-clock time, and one job per process) on
// families of documents that repeat one construct n and 4n times. Linear work gives a ratio of 4, quadratic 16, cubic 64.
// Verdict, with wide margins: the larger document needs more than 8 CPU-seconds (it is at most a few hundred KiB), or it
// needs more than 4 CPU-seconds and more than 24 times what the smaller one needs (worse than n^2.3). The smaller of two
// measurements counts.
type scaleFamily struct {
	name string
	n    int // the smaller size; the larger is 4n
	gen  func(n int) (root string, files map[string][]byte)
}

func single(f func(w func(string, ...interface{}), n int)) func(int) (string, map[string][]byte) {
	return func(n int) (string, map[string][]byte) {
		var b strings.Builder
		b.WriteString("JSIGHT 0.3\n")
		f(func(s string, a ...interface{}) { fmt.Fprintf(&b, s, a...) }, n)
		return b.String(), nil
	}
}

type wf = func(string, ...interface{})

func scalingFamilies() []scaleFamily {
	fams := []scaleFamily{
		{"types", 2000, single(func(w wf, n int) {
			for i := 0; i < n; i++ {
				w("TYPE @t%d\n{\"a\":%d}\n", i, i)
			}
		})},
		{"type-chain", 250, single(func(w wf, n int) {
			for i := 0; i < n; i++ {
				if i+1 < n {
					w("TYPE @t%d\n{\"a\":@t%d}\n", i, i+1)
				} else {
					w("TYPE @t%d\n{\"a\":1}\n", i)
				}
			}
		})},
		{"type-chain-below-the-limit", 85, single(func(w wf, n int) {
			for i := 0; i < n; i++ {
				if i+1 < n {
					w("TYPE @t%d\n{\"a\":@t%d}\n", i, i+1)
				} else {
					w("TYPE @t%d\n{\"a\":1}\n", i)
				}
			}
		})},
		{"type-chain-optional", 250, single(func(w wf, n int) {
			for i := 0; i < n; i++ {
				if i+1 < n {
					w("TYPE @t%d\n{\n  \"a\":@t%d // {optional: true}\n}\n", i, i+1)
				} else {
					w("TYPE @t%d\n{\"a\":1}\n", i)
				}
			}
		})},
		{"type-chain-array", 250, single(func(w wf, n int) {
			for i := 0; i < n; i++ {
				if i+1 < n {
					w("TYPE @t%d\n[@t%d]\n", i, i+1)
				} else {
					w("TYPE @t%d\n{\"a\":1}\n", i)
				}
			}
		})},
		{"type-chain-array-below-the-limit", 85, single(func(w wf, n int) {
			for i := 0; i < n; i++ {
				if i+1 < n {
					w("TYPE @t%d\n[@t%d]\n", i, i+1)
				} else {
					w("TYPE @t%d\n{\"a\":1}\n", i)
				}
			}
		})},
		{"allOf-chain", 80, single(func(w wf, n int) {
			for i := 0; i < n; i++ {
				if i+1 < n {
					w("TYPE @t%d\n{ // {allOf: \"@t%d\"}\n \"a%d\":1\n}\n", i, i+1, i)
				} else {
					w("TYPE @t%d\n{\"z\":1}\n", i)
				}
			}
		})},
		{"allOf-chain-below-the-limit", 34, single(func(w wf, n int) {
			for i := 0; i < n; i++ {
				if i+1 < n {
					w("TYPE @t%d\n{ // {allOf: \"@t%d\"}\n \"a%d\":1\n}\n", i, i+1, i)
				} else {
					w("TYPE @t%d\n{\"z\":1}\n", i)
				}
			}
		})},
		{"type-star", 2000, single(func(w wf, n int) { // every type names one hub type
			w("TYPE @hub\n{\"h\":1}\n")
			for i := 0; i < n; i++ {
				w("TYPE @t%d\n{\"a\":@hub}\n", i)
			}
		})},
		{"type-fan", 2000, single(func(w wf, n int) { // one type names all the others
			for i := 0; i < n; i++ {
				w("TYPE @t%d\n{\"a\":%d}\n", i, i)
			}
			w("TYPE @all\n{\n")
			for i := 0; i < n; i++ {
				w("  \"p%d\": @t%d,\n", i, i)
			}
			w("  \"z\":1\n}\n")
		})},
		{"types-used-in-a-body", 2000, single(func(w wf, n int) {
			for i := 0; i < n; i++ {
				w("TYPE @t%d\n{\"a\":%d}\n", i, i)
			}
			w("GET /x\n 200\n  {\n")
			for i := 0; i < n; i++ {
				w("   \"p%d\": @t%d,\n", i, i)
			}
			w("   \"z\":1\n  }\n")
		})},
		{"types-and-bodies", 500, single(func(w wf, n int) { // n types and n bodies that use none of them
			for i := 0; i < n; i++ {
				w("TYPE @t%d\n{\"a\":%d}\n", i, i)
			}
			for i := 0; i < n; i++ {
				w("GET /b%d\n 200\n  {\"k\":%d}\n", i, i)
			}
		})},
		{"types-and-queries", 500, single(func(w wf, n int) {
			for i := 0; i < n; i++ {
				w("TYPE @t%d\n{\"a\":%d}\n", i, i)
			}
			for i := 0; i < n; i++ {
				w("GET /b%d\n Query \"q=1\"\n  {\"q\":%d}\n 200 any\n", i, i)
			}
		})},
		{"one-type-used-by-many", 2000, single(func(w wf, n int) {
			w("TYPE @t\n{\"a\":1}\n")
			for i := 0; i < n; i++ {
				w("GET /e%d\n 200 @t\n", i)
			}
		})},
		{"regex-types", 2000, single(func(w wf, n int) {
			for i := 0; i < n; i++ {
				w("TYPE @r%d regex\n/a%d[a-z]+/\n", i, i)
			}
		})},
		{"enums", 2000, single(func(w wf, n int) {
			for i := 0; i < n; i++ {
				w("ENUM @e%d\n[\"a\",\"b\"]\n", i)
			}
		})},
		{"enum-values", 4000, single(func(w wf, n int) {
			w("ENUM @e\n[\n")
			for i := 0; i < n; i++ {
				w(" \"v%d\",\n", i)
			}
			w(" \"z\"\n]\n")
		})},
		{"enum-used-by-many", 2000, single(func(w wf, n int) {
			w("ENUM @e\n[\"a\"]\n")
			for i := 0; i < n; i++ {
				w("GET /e%d\n 200\n  {\n   \"x\":\"a\" // {enum: @e}\n  }\n", i)
			}
		})},
		{"methods", 2000, single(func(w wf, n int) {
			for i := 0; i < n; i++ {
				w("GET /p%d\n 200 any\n", i)
			}
		})},
		{"methods-with-parameter", 2000, single(func(w wf, n int) {
			for i := 0; i < n; i++ {
				w("GET /p%d/{id}\n 200 any\n", i)
			}
		})},
		{"similar-paths", 2000, single(func(w wf, n int) {
			for i := 0; i < n; i++ {
				w("GET /a/{p}/b%d\n 200 any\n", i)
			}
		})},
		{"urls", 2000, single(func(w wf, n int) {
			for i := 0; i < n; i++ {
				w("URL /a%d\n GET\n  200 any\n POST\n  200 any\n", i)
			}
		})},
		{"url-path-definitions", 1000, single(func(w wf, n int) {
			for i := 0; i < n; i++ {
				w("URL /a%d/{id}\n Path\n  {\"id\": %d}\n GET\n  200 any\n", i, i)
			}
		})},
		{"tags-on-one-method", 2000, single(func(w wf, n int) {
			for i := 0; i < n; i++ {
				w("TAG @g%d\n", i)
			}
			w("GET /x\n Tags")
			for i := 0; i < n; i++ {
				w(" @g%d", i)
			}
			w("\n 200 any\n")
		})},
		{"tags", 2000, single(func(w wf, n int) {
			for i := 0; i < n; i++ {
				w("TAG @g%d\nGET /x%d\n Tags @g%d\n 200 any\n", i, i, i)
			}
		})},
		{"one-tag-on-many", 2000, single(func(w wf, n int) {
			w("TAG @g\n")
			for i := 0; i < n; i++ {
				w("GET /x%d\n Tags @g\n 200 any\n", i)
			}
		})},
		{"servers", 2000, single(func(w wf, n int) {
			for i := 0; i < n; i++ {
				w("SERVER @s%d\n BaseUrl \"http://x%d\"\n", i, i)
			}
		})},
		{"macros", 2000, single(func(w wf, n int) {
			for i := 0; i < n; i++ {
				w("MACRO @m%d\n(\n GET /m%d\n  200 any\n)\nPASTE @m%d\n", i, i, i)
			}
		})},
		{"pastes-of-one-macro", 2000, single(func(w wf, n int) {
			w("MACRO @m\n(\n 200 any\n)\n")
			for i := 0; i < n; i++ {
				w("GET /p%d\n PASTE @m\n", i)
			}
		})},
		{"macro-chain", 500, single(func(w wf, n int) {
			for i := 0; i < n; i++ {
				if i+1 < n {
					w("MACRO @m%d\n(\n PASTE @m%d\n)\n", i, i+1)
				} else {
					w("MACRO @m%d\n(\n 200 any\n)\n", i)
				}
			}
			w("GET /x\n PASTE @m0\n")
		})},
		{"response-codes", 2000, single(func(w wf, n int) {
			w("GET /x\n")
			for i := 0; i < n; i++ {
				w(" %d any\n", 100+i%500)
			}
		})},
		{"wide-object", 4000, single(func(w wf, n int) {
			w("GET /x\n 200\n  {\n")
			for i := 0; i < n; i++ {
				w("   \"p%d\": %d,\n", i, i)
			}
			w("   \"z\":1\n  }\n")
		})},
		{"wide-array", 4000, single(func(w wf, n int) {
			w("GET /x\n 200\n  [\n")
			for i := 0; i < n; i++ {
				w("   %d,\n", i)
			}
			w("   1\n  ]\n")
		})},
		{"objects-with-rules", 2000, single(func(w wf, n int) {
			w("GET /x\n 200\n  {\n")
			for i := 0; i < n; i++ {
				w("   \"p%d\": %d, // {min: 0, optional: true} - note %d\n", i, i, i)
			}
			w("   \"z\":1\n  }\n")
		})},
		{"union-of-many", 1000, single(func(w wf, n int) {
			for i := 0; i < n; i++ {
				w("TYPE @t%d\n%d\n", i, i)
			}
			w("GET /x\n 200\n  {\"u\": @t0")
			for i := 1; i < n; i++ {
				w(" | @t%d", i)
			}
			w("}\n")
		})},
		{"or-rule-of-many", 1000, single(func(w wf, n int) {
			for i := 0; i < n; i++ {
				w("TYPE @t%d\n%d\n", i, i)
			}
			w("GET /x\n 200\n  {\n   \"u\": 1 // {or: [\"@t0\"")
			for i := 1; i < n; i++ {
				w(", \"@t%d\"", i)
			}
			w("]}\n  }\n")
		})},
		{"allOf-of-many", 500, single(func(w wf, n int) {
			for i := 0; i < n; i++ {
				w("TYPE @t%d\n{\"a%d\":%d}\n", i, i, i)
			}
			w("GET /x\n 200\n  { // {allOf: [\"@t0\"")
			for i := 1; i < n; i++ {
				w(", \"@t%d\"", i)
			}
			w("]}\n  }\n")
		})},
		{"path-parameters", 1000, single(func(w wf, n int) {
			w("GET ")
			for i := 0; i < n; i++ {
				w("/{p%d}", i)
			}
			w("\n 200 any\n")
		})},
		{"path-parameters-defined", 1000, single(func(w wf, n int) {
			w("URL ")
			for i := 0; i < n; i++ {
				w("/{p%d}", i)
			}
			w("\n Path\n  {\n")
			for i := 0; i < n; i++ {
				if i > 0 {
					w(",\n")
				}
				w("   \"p%d\": %d", i, i)
			}
			w("\n  }\n GET\n  200 any\n")
		})},
		{"description-lines", 10000, single(func(w wf, n int) {
			w("INFO\n Title \"x\"\n Description\n")
			for i := 0; i < n; i++ {
				w("  line %d of the text\n", i)
			}
		})},
		{"comment-lines", 8000, single(func(w wf, n int) {
			for i := 0; i < n; i++ {
				w("# comment %d\n", i)
			}
			w("GET /x\n 200 any\n")
		})},
		{"comment-blocks", 4000, single(func(w wf, n int) {
			for i := 0; i < n; i++ {
				w("###\n block %d\n###\n", i)
			}
			w("GET /x\n 200 any\n")
		})},
		{"annotations", 4000, single(func(w wf, n int) {
			for i := 0; i < n; i++ {
				w("GET /x%d // annotation %d\n 200 any /* note\n %d */\n", i, i, i)
			}
		})},
		{"explicit-contexts", 2000, single(func(w wf, n int) {
			for i := 0; i < n; i++ {
				w("URL /x%d\n(\n GET\n (\n  200 any\n )\n)\n", i)
			}
		})},
		{"queries", 2000, single(func(w wf, n int) {
			for i := 0; i < n; i++ {
				w("GET /q%d\n Query \"a=1\"\n  {\"a\":1}\n 200 any\n", i)
			}
		})},
		{"headers", 1000, single(func(w wf, n int) {
			for i := 0; i < n; i++ {
				w("POST /q%d\n Request\n  Headers\n   {\"H\":\"v\"}\n  Body any\n 200\n  Headers\n   {\"H\":\"v\"}\n  Body any\n", i)
			}
		})},
		{"json-rpc-methods", 1000, single(func(w wf, n int) {
			w("URL /rpc\n Protocol json-rpc-2.0\n")
			for i := 0; i < n; i++ {
				w(" Method m%d\n  Params\n   {\"a\":1}\n  Result\n   {\"b\":2}\n", i)
			}
		})},
		{"long-line", 20000, single(func(w wf, n int) {
			w("GET /x // %s\n 200 any\n", strings.Repeat("a", n))
		})},
		{"long-string-value", 20000, single(func(w wf, n int) {
			w("GET /x\n 200\n  {\"a\": \"%s\"}\n", strings.Repeat("s", n))
		})},
		{"blank-lines", 20000, single(func(w wf, n int) {
			w("GET /x\n%s 200 any\n", strings.Repeat(" \n", n))
		})},
		{"nested-objects", 200, single(func(w wf, n int) {
			w("GET /x\n 200\n  %s1%s\n", strings.Repeat("{\"a\":", n), strings.Repeat("}", n))
		})},
		{"included-files", 600, func(n int) (string, map[string][]byte) {
			files := map[string][]byte{}
			var b strings.Builder
			b.WriteString("JSIGHT 0.3\n")
			for i := 0; i < n; i++ {
				fmt.Fprintf(&b, "INCLUDE f%d.jst\n", i)
				files[fmt.Sprintf("f%d.jst", i)] = []byte(fmt.Sprintf("GET /i%d\n 200 any\n", i))
			}
			return b.String(), files
		}},
		{"one-file-included-often", 1000, func(n int) (string, map[string][]byte) {
			var b strings.Builder
			b.WriteString("JSIGHT 0.3\n")
			for i := 0; i < n; i++ {
				fmt.Fprintf(&b, "GET /i%d\n INCLUDE r.jst\n", i)
			}
			return b.String(), map[string][]byte{"r.jst": []byte("200 any\n")}
		}},
		{"include-chain", 200, func(n int) (string, map[string][]byte) {
			files := map[string][]byte{}
			for i := 0; i < n; i++ {
				s := fmt.Sprintf("GET /c%d\n 200 any\n", i)
				if i+1 < n {
					s += fmt.Sprintf("INCLUDE f%d.jst\n", i+1)
				}
				files[fmt.Sprintf("f%d.jst", i)] = []byte(s)
			}
			return "JSIGHT 0.3\nINCLUDE f0.jst\n", files
		}},
	}
	return fams
}

// linearFamilies: documents that grow only in text the scanner (and the schema scanner) reads once - lines of a Description,
// comments, annotations, blanks, one long line or string, the values of one enum, the items or properties of one array or object.
// For these the margin is narrower: more than 2 CPU-seconds and more than 10 times the smaller document.
var linearFamilies = map[string]bool{"description-lines": true, "comment-lines": true, "comment-blocks": true, "annotations": true, "blank-lines": true,
	"long-line": true, "long-string-value": true, "enum-values": true, "wide-array": true, "wide-object": true, "objects-with-rules": true}

type scaleObs struct {
	bytes [2]int
	build [2]int64 // smallest CPU time seen, microseconds; -1 = not measured
	ops   [2]int64
	class [2]string // accepted | error class
}

// scalingMonitor runs every family at n and 4n (twice each) and judges the CPU time of the build (ops == nil) or of the
// accessor calls (ops given).
func scalingMonitor(c *fw.Ctx, pool *proc.Pool, ops []string) {
	fams := scalingFamilies()
	var mu sync.Mutex
	obs := map[string]*scaleObs{}
	jobs := map[string]*proto.Job{}
	for _, f := range fams {
		obs[f.name] = &scaleObs{build: [2]int64{-1, -1}, ops: [2]int64{-1, -1}}
	}
	c.RunJobs(pool, func(emit func(*proto.Job)) {
		for rep := 0; rep < 2; rep++ {
			for _, f := range fams {
				for k, n := range []int{f.n, 4 * f.n} {
					root, files := f.gen(n)
					j := &proto.Job{ID: fmt.Sprintf("scaling/%s/%d/%d", f.name, k, rep), Root: "root.jst", Files: map[string][]byte{"root.jst": []byte(root)}, Ops: ops, HashOnly: true}
					if files == nil {
						j.InMemory = true
					}
					for name, b := range files {
						j.Files[name] = b
					}
					mu.Lock()
					jobs[fmt.Sprintf("%s/%d", f.name, k)] = j
					mu.Unlock()
					emit(j)
				}
			}
		}
	}, func(j *proto.Job, res *proto.Result) {
		parts := strings.Split(j.ID, "/")
		name, k := parts[1], int(parts[2][0]-'0')
		if workerProblem(c, res) {
			return
		}
		c.Count(jobKey(j), true)
		if sig, what := crashSig(res); sig != "" {
			c.Violate(sig, what, replayOf(j, res))
			return
		}
		mu.Lock()
		defer mu.Unlock()
		o := obs[name]
		size := 0
		for _, b := range j.Files {
			size += len(b)
		}
		o.bytes[k] = size
		if o.build[k] < 0 || res.BuildCPU < o.build[k] {
			o.build[k] = res.BuildCPU
		}
		if o.ops[k] < 0 || res.OpsCPU < o.ops[k] {
			o.ops[k] = res.OpsCPU
		}
		switch {
		case res.Accepted:
			o.class[k] = "accepted"
		case res.Err != nil:
			o.class[k] = errKey(res.Err.Msg)
		}
	})
	table := map[string]interface{}{}
	names := make([]string, 0, len(obs))
	for n := range obs {
		names = append(names, n)
	}
	sort.Strings(names)
	measured := 0
	for _, name := range names {
		o := obs[name]
		t := o.build
		what := "build"
		if ops != nil {
			t = o.ops
			what = "accessor calls " + strings.Join(ops, "+")
		}
		if t[0] < 0 || t[1] < 0 {
			continue
		}
		measured++
		ratio := float64(t[1]) / float64(max64(t[0], 1000)) // below a millisecond the smaller measurement is noise
		table[name] = map[string]interface{}{"bytes": o.bytes, "cpu_ms": []float64{float64(t[0]) / 1000, float64(t[1]) / 1000}, "ratio_for_4x": fmt.Sprintf("%.1f", ratio), "verdicts": o.class}
		// every family is a legal document; the long chains of types are the only ones the library may refuse (its limits)
		for k := 0; k < 2; k++ {
			if o.class[k] != "accepted" && !strings.Contains(name, "chain") && name != "type-fan" { // (one type that names 8000 others is beyond the limit on reached types, 4096)
				c.Violate("scaling:legal-document-rejected:"+name, fmt.Sprintf("%s repeated %d times (%d bytes) is a legal document and was rejected: %s", name, famN(fams, name)*[]int{1, 4}[k], o.bytes[k], o.class[k]), replayOf(jobs[fmt.Sprintf("%s/%d", name, k)], nil))
			}
		}
		if ops != nil && (o.class[0] != "accepted" || o.class[1] != "accepted") {
			continue
		}
		switch {
		case linearFamilies[name] && t[1] > 2e6 && ratio > 10:
			c.Violate("superlinear:"+name, fmt.Sprintf("%s: 4 times the input (%d -> %d bytes) took %.0f times the CPU time (%.3f s -> %.2f s); this family is lexical work only, which is linear on the unchanged tree (ratio 3 to 6)", what, o.bytes[0], o.bytes[1], ratio, float64(t[0])/1e6, float64(t[1])/1e6), replayOf(jobs[name+"/1"], nil))
		case t[1] > 8e6:
			c.Violate("superlinear:"+name, fmt.Sprintf("%s of %d bytes (%s repeated %d times) took %.1f CPU-seconds; a quarter of it took %.2f", what, o.bytes[1], name, 4*famN(fams, name), float64(t[1])/1e6, float64(t[0])/1e6), replayOf(jobs[name+"/1"], nil))
		case t[1] > 4e6 && ratio > 24:
			c.Violate("superlinear:"+name, fmt.Sprintf("%s: 4 times the input (%d -> %d bytes) took %.0f times the CPU time (%.3f s -> %.2f s)", what, o.bytes[0], o.bytes[1], ratio, float64(t[0])/1e6, float64(t[1])/1e6), replayOf(jobs[name+"/1"], nil))
		}
	}
	c.Extra("scaling_families", table)
	if measured < len(fams)*3/4 {
		c.Inconclusive(fmt.Sprintf("only %d of %d scaling families were measured", measured, len(fams)))
	}
}

func famN(fams []scaleFamily, name string) int {
	for _, f := range fams {
		if f.name == name {
			return f.n
		}
	}
	return 0
}

func max64(a, b int64) int64 {
	if a > b {
		return a
	}
	return b
}
