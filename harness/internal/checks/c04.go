package checks

import (
	"fmt"
	"strings"
	"unicode/utf8"

	"verifharness/internal/fw"
	"verifharness/internal/proto"
	"verifharness/internal/ref"
)

func findOut(res *proto.Result, op string) *proto.Output {
	for i := range res.Outputs {
		if res.Outputs[i].Op == op {
			return &res.Outputs[i]
		}
	}
	return nil
}

// outProblem classifies an accessor that did not return bytes. key names the failing accessor class for known findings.
func outProblem(o *proto.Output) (sig, what string) {
	switch {
	case o == nil:
		return "harness:no-output", "accessor was not run"
	case o.Panic != nil:
		return "panic:" + o.Op + ":" + o.Panic.Func + ":" + o.Panic.Kind, "panic in " + o.Op + ": " + o.Panic.Value + "; stack: " + strings.Join(o.Panic.Stack, " < ")
	case o.Err != "":
		return "error:" + o.Op + ":" + errKey(o.Err), o.Op + " returned an error after a successful build: " + o.Err
	}
	return "", ""
}

// C04 – an accepted project serialises to well-formed JDoc Exchange JSON.
func C04(c *fw.Ctx) {
	c.Rule("corpus, 1-2 step mutants of corpus files, and a targeted generator (Path/regex/comment-only bodies, undefined types and enums, " +
		"rule-example mismatches, invalid regexes, invalid UTF-8, all notations, json-rpc, tags, servers); every accepted build is serialised with " +
		"ToJson and ToJsonIndent and validated; every project outside the mutant stream is built a second time and the two accessors are called " +
		"concurrently on that one catalog (first use of every lazily built part is contended, delays at the yield hooks), same oracle; distinct = distinct project bytes; non-trivial = the build was accepted")
	c.Assume("the shape validator was written from the JDoc Exchange 2.0.0 layout (harness/internal/ref/jdoc.go)")
	pool := c.Pool(false, 0)
	kinds := map[string]int{}
	pvContent := map[string]string{} // "<n>-<level>/direct|through-type" -> compact pathVariables content of the first interaction
	c.RunJobs(pool, func(emit func(*proto.Job)) {
		for i, d := range deepNestingDocs() {
			emit(&proto.Job{ID: fmt.Sprintf("deep-nesting/deep-%d", i), Root: "root.jst", Files: map[string][]byte{"root.jst": d}, InMemory: true, Ops: []string{"json", "jsonindent"}})
		}
		acceptedWorkload(c, c.Pick(2, 30), func(label string, j *proto.Job) {
			j.ID = label + "/" + j.ID
			j.Ops = []string{"json", "jsonindent"}
			emit(j)
			if label != "light-mutant" {
				// the same project once more, with the two accessors called at the same time on the one catalog: what they return
				// must not depend on who gets to the lazily built parts (allOf expansion, examples) first
				jp := *j
				jp.ID = "parallel-" + j.ID
				jp.ParallelOps = true
				emit(&jp)
			}
		})
	}, func(j *proto.Job, res *proto.Result) {
		if workerProblem(c, res) {
			return
		}
		label := j.ID[:strings.Index(j.ID, "/")]
		c.Count(jobKey(j), res.Accepted)
		c.Inc("streams", label, 1)
		if res.Fatal != nil && res.Fatal.Stage == "build" {
			// the process died while the project was being built: that is C01's matter, no accessor was ever called
			c.Count(jobKey(j), false)
			c.Inc("verdicts", "died-during-the-build(judged by C01)", 1)
			return
		}
		if res.Fatal != nil {
			// the worker died or hung while building or while serialising/exporting: either way the accessor never returned
			c.Violate("fatal:"+res.Fatal.Kind+":"+res.Fatal.Func, "the worker process died or hung during the job: "+firstLines(res.Fatal.Stderr, 5), replayOf(j, res))
			return
		}
		if sig, _ := crashSig(res); sig != "" {
			c.Inc("verdicts", "build-crash(judged by C01)", 1)
			return
		}
		if !res.Accepted {
			c.Inc("verdicts", "rejected", 1)
			return
		}
		c.Inc("verdicts", "accepted", 1)
		c.Inc("accepted_by_stream", label, 1)
		js, ji := findOut(res, "json"), findOut(res, "jsonindent")
		for _, o := range []*proto.Output{js, ji} {
			if sig, what := outProblem(o); sig != "" {
				c.Violate(sig, what, replayOf(j, res))
				return
			}
		}
		if !utf8.Valid(js.Bytes) {
			c.Violate("output:invalid-utf8", "ToJson returned bytes that are not valid UTF-8", replayOf(j, res))
			return
		}
		v1, err := ref.ParseJSON(js.Bytes)
		if err != nil {
			c.Violate("output:not-json", "ToJson is not JSON: "+err.Error(), replayOf(j, res))
			return
		}
		v2, err := ref.ParseJSON(ji.Bytes)
		if err != nil {
			c.Violate("output:indent-not-json", "ToJsonIndent is not JSON: "+err.Error(), replayOf(j, res))
			return
		}
		if ref.Compact(v1) != ref.Compact(v2) {
			c.Violate("output:indent-differs", "ToJson and ToJsonIndent differ beyond whitespace", replayOf(j, res))
			return
		}
		rep := ref.ValidateShape(v1)
		c.Inc("schema_nodes", "validated", rep.Nodes)
		c.Inc("schema_nodes", "examples_parsed_as_json", rep.Examples)
		for k, n := range rep.BadExamples {
			c.Inc("examples_that_are_not_json(observation)", k, n)
		}
		maxMuLock.Lock()
		for k, n := range rep.NodeKinds {
			kinds[k] += n
		}
		maxMuLock.Unlock()
		for _, e := range rep.Errors {
			rule := e[:strings.Index(e, ":")]
			c.Violate("shape:"+rule, e, replayOf(j, res))
		}
		// path variables described through a user type are the path variables described in place
		if label == "path-vars" {
			id := j.ID[strings.Index(j.ID, "/")+1:]
			form, key := "direct", strings.TrimPrefix(id, "direct-")
			if strings.HasPrefix(id, "through-type-") {
				form, key = "through-type", strings.TrimPrefix(id, "through-type-")
			}
			content := ""
			if top, ok := v1.(*ref.Obj); ok {
				if ia := top.Obj("interactions"); ia != nil && len(ia.Keys) > 0 {
					if it, _ := ia.M[ia.Keys[0]].(*ref.Obj); it != nil {
						if pv := it.Obj("pathVariables"); pv != nil {
							if sc := pv.Obj("schema"); sc != nil {
								content = ref.Compact(sc.M["content"])
							}
						}
					}
				}
			}
			maxMuLock.Lock()
			pvContent[key+"/"+form] = content
			a, okA := pvContent[key+"/direct"]
			b, okB := pvContent[key+"/through-type"]
			maxMuLock.Unlock()
			if okA && okB {
				c.Inc("inheritance", "path_variables_through_a_type_compared", 1)
				if a != b {
					c.Violate("shape:path-variables-through-a-type", "the path variables described through a user type differ from the same properties written in the Path body: "+firstDiff(a, b), replayOf(j, res))
				}
			}
		}
		// an inheriting object carries what it inherits (objects carry children)
		ar := ref.AllOfInheritance(v1)
		c.Inc("inheritance", "objects_with_allOf_judged", ar.Objects)
		c.Inc("inheritance", "of_these_nested_in_another_object", ar.Nested)
		c.Inc("inheritance", "inherited_keys_found", ar.Keys)
		for _, e := range ar.Errors {
			c.Violate("shape:allOf-children-missing", e, replayOf(j, res))
		}
		if c.NeedSample() && label == "targeted" {
			c.Sample(map[string]interface{}{"document": sampleDoc(j.Files[j.Root]), "json_len": js.Len, "schema_nodes": rep.Nodes})
		}
	})
	c.Extra("node_kinds", kinds)
	if c.Hist("verdicts")["accepted"] < 500 {
		c.Inconclusive("fewer than 500 accepted builds were serialised")
	}
	// the cost of writing the catalog on documents that repeat one construct n and 4n times (scaling.go)
	// a pair of which only one side has a catalog cannot be compared: the number is part of the evidence (a renderer fault that makes
	// one form illegal would otherwise pass unnoticed), and more than a quarter of the pairs is no verdict
	{
		sides := map[string]int{}
		maxMuLock.Lock()
		for k := range pvContent {
			sides[k[:strings.LastIndex(k, "/")]]++
		}
		maxMuLock.Unlock()
		single := 0
		for _, n := range sides {
			if n == 1 {
				single++
			}
		}
		c.Inc("inheritance", "path_variable_pairs_with_only_one_side_accepted", single)
		if len(sides) > 0 && single*4 > len(sides) {
			c.Inconclusive(fmt.Sprintf("%d of %d path-variable pairs have only one accepted side", single, len(sides)))
		}
	}
	scalingMonitor(c, c.Pool(false, 8), []string{"json", "jsonindent"})
	c.Finish()
}
