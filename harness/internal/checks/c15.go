package checks

import (
	"fmt"
	"regexp"
	"sort"
	"strings"

	"verifharness/internal/fw"
	"verifharness/internal/gen"
	"verifharness/internal/model"
	"verifharness/internal/proto"
	"verifharness/internal/ref"
)

type topBlock struct {
	from, to int // byte range
	kind     string
	name     string // first parameter
	methods  int    // interactions declared in the block
}

// topBlocks delimits the root directives with their subtrees (reference automaton over the public lexeme stream).
// ok is false for documents that are out of the statement's scope (root-level PASTE, implicit-context MACRO) or unusual.
func topBlocks(d *lexDoc) (blocks []topBlock, ok bool) {
	toks, idx := toCtxTokens(d)
	v := ref.RunContext(toks)
	if !v.OK || len(v.Nodes) == 0 {
		return nil, false
	}
	for n, ti := range v.Nodes {
		if v.Parents[n] != -1 {
			continue
		}
		t := toks[ti]
		if t.Kind == "PASTE" || (t.Kind == "MACRO" && !t.Explicit) || t.Include {
			return nil, false
		}
		l := d.lex[idx[ti]]
		line := d.lineOf(l.Begin)
		if strings.TrimSpace(string(d.content[d.lines[line]:l.Begin])) != "" {
			return nil, false
		}
		b := topBlock{from: d.lines[line], kind: t.Kind}
		if idx[ti]+1 < len(d.lex) && d.lex[idx[ti]+1].Type == "property" {
			b.name = strings.Trim(d.text(d.lex[idx[ti]+1]), "\"")
		}
		blocks = append(blocks, b)
	}
	for _, t := range toks {
		if t.Include {
			return nil, false
		}
	}
	for i := range blocks {
		if i+1 < len(blocks) {
			blocks[i].to = blocks[i+1].from
		} else {
			blocks[i].to = len(d.content)
		}
	}
	if blocks[0].from != 0 {
		// leading comments stay in front
	}
	// a root block that ends inside an explicit context of an earlier root cannot occur (roots have no parent); count the
	// interactions per block
	for _, l := range d.lex {
		if l.Type != "keyword" {
			continue
		}
		kw := d.text(l)
		if ref.IsMethodKind(kw) || kw == "Method" {
			for i := range blocks {
				if l.Begin >= blocks[i].from && l.Begin < blocks[i].to {
					blocks[i].methods++
				}
			}
		}
	}
	if blocks[0].kind != "JSIGHT" {
		return nil, false
	}
	return blocks, true
}

func permutations(n int, limit int, r interface{ Perm(int) []int }) [][]int {
	if n <= 5 {
		var out [][]int
		var rec func(cur []int, used []bool)
		rec = func(cur []int, used []bool) {
			if len(cur) == n {
				out = append(out, append([]int(nil), cur...))
				return
			}
			for i := 0; i < n; i++ {
				if !used[i] {
					used[i] = true
					rec(append(cur, i), used)
					used[i] = false
				}
			}
		}
		rec(nil, make([]bool, n))
		if len(out) > limit {
			// keep a spread
			step := len(out) / limit
			var sel [][]int
			for i := 0; i < len(out) && len(sel) < limit; i += step {
				sel = append(sel, out[i])
			}
			return sel
		}
		return out
	}
	var out [][]int
	for i := 0; i < limit; i++ {
		out = append(out, r.Perm(n))
	}
	return out
}

// sectionKeys returns the keys of a top-level section in order.
func sectionKeys(top *ref.Obj, name string) []string {
	o := top.Obj(name)
	if o == nil {
		return nil
	}
	return o.Keys
}

// C15 – order of independent top-level blocks.
func C15(c *fw.Ctx) {
	limit := c.Pick(6, 120)
	c.Rule(fmt.Sprintf("inputs: accepted single-file LF corpus documents and rendered models without a root-level PASTE or an implicit-context MACRO, 72 documents with three resources whose paths share parameterised prefixes and whose Path directives describe each {parameter} once, and documents whose blocks are MACRO definitions that paste each other (all acyclic graphs on 3 macros, seeded ones on 4); blocks = root "+
		"directives with their subtrees (reference automaton over the public lexeme stream), JSIGHT pinned first; all permutations for <= 5 blocks (at most "+
		"%d per document), seeded permutations otherwise; oracle: the permuted document is accepted, every section holds the same entries with the "+
		"same content (interaction lists of a tag as sets), and the order of userTypes, userEnums, servers, explicit tags, interactions and of the "+
		"interactions inside each tag follows the new text order; distinct = distinct permuted documents; non-trivial = a permutation that moves a block", limit))
	pool := c.Pool(false, 0)
	corpus := Corpus(c)
	docs := map[string]*lexDoc{}
	c.RunJobs(pool, func(emit func(*proto.Job)) {
		add := func(name string, content []byte) {
			if strings.Contains(string(content), "\r") {
				return
			}
			maxMuLock.Lock()
			docs[name] = &lexDoc{name: name, content: content, lines: lineStarts(content)}
			maxMuLock.Unlock()
			emit(&proto.Job{ID: "scan/" + name, Root: "root.jst", Files: map[string][]byte{"root.jst": content}, Scan: true})
			emit(&proto.Job{ID: "base/" + name, Root: "root.jst", Files: map[string][]byte{"root.jst": content}, InMemory: true, Ops: []string{"json"}})
		}
		for _, p := range corpus {
			if !p.HasInclude() {
				add(p.Name, p.RootContent())
			}
		}
		for name, content := range ruleRejectedDocs() {
			add(name, content)
		}
		// MACRO blocks are top-level blocks too: every acyclic PASTE graph on 3 macros and seeded ones on 4 (a macro reached twice, through
		// two others or directly), pasted from a method; the permutations put every definition before and after its uses
		gr := gen.Rng(c.Seed, c.ID, "macro-graphs")
		ng := 0
		addGraph := func(n int, edges [][]int) {
			for s := 0; s < n; s++ {
				if hasCycleFrom(edges, s) {
					return
				}
			}
			var used []int
			for u := 0; u < n; u++ {
				used = append(used, u)
			}
			ng++
			add(fmt.Sprintf("macro-graph-%d", ng), []byte(macroGraphDoc(n, edges, used[:1+ng%n], "method")))
		}
		for g := 0; g < 512; g++ {
			edges := make([][]int, 3)
			for i := 0; i < 3; i++ {
				for k := 0; k < 3; k++ {
					if g&(1<<uint(i*3+k)) != 0 {
						edges[i] = append(edges[i], k)
					}
				}
			}
			addGraph(3, edges)
		}
		for s := 0; s < c.Pick(300, 6000); s++ {
			edges := make([][]int, 4)
			for i := 0; i < 4; i++ {
				for k := 0; k < 4; k++ {
					if i != k && gr.Intn(3) == 0 {
						edges[i] = append(edges[i], k)
					}
				}
				if gr.Intn(4) == 0 && len(edges[i]) > 0 {
					edges[i] = append(edges[i], edges[i][0]) // the same macro pasted twice by one macro
				}
			}
			addGraph(4, edges)
		}
		// resources whose paths share parameterised prefixes, each {parameter} described by the Path directive of one of them (or of
		// none): which block comes first decides who registers the parameter and who only refers to it
		paths := []string{"/s/{a}", "/s/{a}/i/{b}", "/s/{a}/i/{b}/k/{c}"}
		schemaOf := [][]string{
			{"\"a\": 1 // {or: [\"integer\", \"string\"]}", "\"b\": \"x\" // {enum: @pe}", "\"c\": 5 // {type: \"@pt\"}"},
			{"\"a\": \"v\" // {or: [{type: \"string\", maxLength: 9}, {type: \"integer\", min: 0}]}", "\"b\": 2.5 // {precision: 1}", "\"c\": \"2021-01-02\" // {type: \"date\"}"},
			{"\"a\": 1 // {min: 1}", "\"b\": @pt | @ps", "\"c\": \"x@y.z\" // {type: \"email\", optional: true}"},
		}
		np := 0
		for da := 0; da <= 3; da++ { // the block that describes {a} (3 = none)
			for db := 1; db <= 3; db++ {
				for dc := 2; dc <= 3; dc++ {
					for v, sch := range schemaOf {
						var sb strings.Builder
						sb.WriteString("JSIGHT 0.3\n")
						for bi, p := range paths {
							var props []string
							for pi, owner := range []int{da, db, dc} {
								if owner == bi {
									props = append(props, "      "+sch[pi])
								}
							}
							sb.WriteString("URL " + p + "\n")
							if len(props) > 0 {
								sb.WriteString("  Path\n    {\n" + strings.Join(props, ",\n") + "\n    }\n")
							}
							sb.WriteString("  GET\n    200 any\n")
							if bi == 1 {
								sb.WriteString("  DELETE\n    204 empty\n")
							}
						}
						sb.WriteString("TYPE @pt\n  12\nTYPE @ps\n  \"s\"\nENUM @pe\n  [\"x\", \"y\"]\n")
						np++
						_ = v
						add(fmt.Sprintf("shared-prefix-%d", np), []byte(sb.String()))
					}
				}
			}
		}
		// projects around the limits of the library (type references: 2^20 steps of the walk along all chains, 2^24 for the squares of
		// the numbers of reached types): whether a project is within a limit must not depend on the order of its TYPE blocks
		for _, n := range []int{24, 25, 26, 27, 28, 29} {
			add(fmt.Sprintf("limit-ladder-%d", n), typeLadder(n, 0, 0))
		}
		for _, n := range []int{17, 18, 19, 20, 21} {
			var sb strings.Builder
			sb.WriteString("JSIGHT 0.3\n")
			for i := 1; i <= n; i++ {
				if i < n {
					sb.WriteString(fmt.Sprintf("TYPE @d%d\n  {\"a\": @d%d, \"b\": @d%d}\n", i, i+1, i+1))
				} else {
					sb.WriteString(fmt.Sprintf("TYPE @d%d\n  {\"z\": 1}\n", i))
				}
			}
			add(fmt.Sprintf("limit-doubling-chain-%d", n), []byte(sb.String()+"GET /a\n  200 @d1\n"))
		}
		for _, n := range []int{355, 362, 366, 370, 380} {
			var sb strings.Builder
			sb.WriteString("JSIGHT 0.3\n")
			for i := 1; i <= n; i++ {
				if i < n {
					sb.WriteString(fmt.Sprintf("TYPE @c%d\n  {\"a\": @c%d}\n", i, i+1))
				} else {
					sb.WriteString(fmt.Sprintf("TYPE @c%d\n  {\"z\": 1}\n", i))
				}
			}
			add(fmt.Sprintf("limit-chain-%d", n), []byte(sb.String()+"GET /a\n  200 any\n"))
		}
		r := gen.Rng(c.Seed, c.ID, "models")
		for i := 0; i < c.Pick(300, 6000); i++ {
			m := model.Generate(r, model.FullSize)
			l := model.RandomLayout(r)
			l.Includes, l.Macros, l.EOL = false, false, "\n"
			rd := m.Render(l)
			add(fmt.Sprintf("model-%d", i), rd.Files[rd.Root])
		}
	}, func(j *proto.Job, res *proto.Result) {
		if workerProblem(c, res) {
			return
		}
		name := j.ID[5:]
		maxMuLock.Lock()
		d := docs[name]
		maxMuLock.Unlock()
		if strings.HasPrefix(j.ID, "scan/") {
			d.lex, d.scanOK = res.Lexemes, res.Accepted && res.Panic == nil
		} else {
			d.base = res
		}
	})
	type pend struct {
		d      *lexDoc
		blocks []topBlock
		perm   []int
		base   *ref.Obj
	}
	pending := map[string]*pend{}
	var names []string
	for n := range docs {
		names = append(names, n)
	}
	sortStrings(names)
	c.RunJobs(pool, func(emit func(*proto.Job)) {
		n := 0
		for _, name := range names {
			d := docs[name]
			if !d.scanOK || d.base == nil || d.base.Panic != nil || d.base.Fatal != nil {
				continue
			}
			var bv interface{} = (*ref.Obj)(nil)
			if d.base.Accepted {
				js := findOut(d.base, "json")
				if js == nil || js.Bytes == nil {
					continue
				}
				var err error
				if bv, err = ref.ParseJSON(js.Bytes); err != nil {
					continue
				}
			} else if d.base.Err == nil {
				continue
			}
			// (a rejected original gets here only if the scanner accepts its text and the reference automaton finds its blocks
			// well nested: it was rejected by a rule, not by the lexical or the context layer)
			blocks, ok := topBlocks(d)
			if !ok || len(blocks) < 3 {
				c.Inc("documents", "out-of-scope-or-too-few-blocks", 1)
				continue
			}
			c.Inc("documents", "permuted", 1)
			if !d.base.Accepted {
				c.Inc("documents", "permuted-rejected-original", 1)
			}
			r := gen.Rng(c.Seed, c.ID, "perm", name)
			lim := limit
			if strings.HasPrefix(name, "limit-") && lim > 12 {
				lim = 12 // these projects cost seconds each: 16 of them x 120 orders made the thorough tier take 20 minutes
			}
			for _, p := range permutations(len(blocks)-1, lim, r) {
				moved := false
				for i, x := range p {
					if i != x {
						moved = true
					}
				}
				if !moved {
					continue
				}
				var sb strings.Builder
				sb.Write(d.content[:blocks[0].from])
				writeBlock := func(b topBlock) {
					s := string(d.content[b.from:b.to])
					sb.WriteString(s)
					if !strings.HasSuffix(s, "\n") {
						sb.WriteString("\n")
					}
				}
				writeBlock(blocks[0])
				for _, x := range p {
					writeBlock(blocks[x+1])
				}
				n++
				id := fmt.Sprintf("perm/%d", n)
				maxMuLock.Lock()
				pending[id] = &pend{d, blocks, p, bv.(*ref.Obj)}
				maxMuLock.Unlock()
				emit(&proto.Job{ID: id, Root: "root.jst", Files: map[string][]byte{"root.jst": []byte(sb.String())}, InMemory: true, Ops: []string{"json"}})
			}
		}
	}, func(j *proto.Job, res *proto.Result) {
		if workerProblem(c, res) {
			return
		}
		maxMuLock.Lock()
		p := pending[j.ID]
		delete(pending, j.ID)
		maxMuLock.Unlock()
		d := p.d
		c.Count(jobKey(j), true)
		rp := &fw.Replay{Jobs: []*proto.Job{{ID: "original", Root: "root.jst", Files: map[string][]byte{"root.jst": d.content}, InMemory: true, Ops: []string{"json"}}, j},
			Results: []interface{}{d.base, res}, Expected: map[string]interface{}{"document": d.name, "permutation": p.perm}}
		if sig, what := crashSig(res); sig != "" {
			c.Violate(sig, what, rp)
			return
		}
		if !d.base.Accepted {
			// a document rejected by a rule (not by the scanner) stays rejected however its blocks are ordered
			if res.Accepted {
				c.Violate("rejected-becomes-accepted", fmt.Sprintf("%s is rejected (%q) but permutation %v of its blocks is accepted: the verdict depends on the order of the blocks", d.name, trunc(d.base.Err.Msg, 120), p.perm), rp)
			}
			return
		}
		if !res.Accepted {
			c.Violate("permuted-rejected:"+strings.ReplaceAll(errKey(res.Err.Msg), " ", "-"), fmt.Sprintf("permutation %v of the blocks of %s is rejected: %q at line %d", p.perm, d.name, trunc(res.Err.Msg, 140), res.Err.Line), rp)
			return
		}
		js := findOut(res, "json")
		if sig, what := outProblem(js); sig != "" {
			// the original was serialised (its catalog is p.base): "a catalog with the same entries" needs a catalog
			c.Violate("permuted-not-serialisable:"+sig, fmt.Sprintf("permutation %v of the blocks of %s is accepted but has no catalog: %s", p.perm, d.name, what), rp)
			return
		}
		if js.Bytes == nil {
			return
		}
		nv, err := ref.ParseJSON(js.Bytes)
		if err != nil {
			c.Violate("permuted-not-serialisable:not-json", fmt.Sprintf("permutation %v of the blocks of %s: ToJson is not JSON: %v", p.perm, d.name, err), rp)
			return
		}
		nt, bt := nv.(*ref.Obj), p.base
		// 1. same entries with the same content, order-insensitively for the ordered sections and tag interaction lists
		if ca, cb := canonUnordered(bt), canonUnordered(nt); ca != cb {
			if ref.OnlyExamplesDiffer([]byte(ca), []byte(cb)) && regexExamplesEquivalent(bt, nt) {
				// The example of a regex type is "some string that matches": which one a reference shows depends on how many
				// examples were drawn before, i.e. on the order of the declarations. Both strings match the pattern: same content.
				c.Inc("order_checks", "regex-examples-differ-but-match", 1)
			} else if exampleOnlyDiff([]byte(ca), []byte(cb), j.Files) {
				c.Violate("catalog-changed:"+sigRegexExample, "permutation of "+d.name+": only regex-type examples differ", rp)
				return
			} else {
				c.Violate("content-changed", fmt.Sprintf("permutation %v of %s changes the content of the catalog: %s", p.perm, d.name, firstDiff(ca, cb)), rp)
				return
			}
		}
		// 2. order follows the text
		order := []int{0}
		for _, x := range p.perm {
			order = append(order, x+1)
		}
		expectNames := func(kind string) []string {
			var out []string
			for _, bi := range order {
				if p.blocks[bi].kind == kind {
					out = append(out, p.blocks[bi].name)
				}
			}
			return out
		}
		checkSeq := func(section string, want, got []string) {
			// got may hold more entries (e.g. path tags); the relative order of the wanted names must match
			pos := map[string]int{}
			for i, k := range got {
				pos[k] = i
			}
			last := -1
			for _, w := range want {
				pi, ok := pos[w]
				if !ok {
					continue
				}
				if pi < last {
					c.Violate("order:"+section, fmt.Sprintf("permutation %v of %s: %s are in the order %v, the text has %v", p.perm, d.name, section, got, want), rp)
					return
				}
				last = pi
			}
		}
		checkSeq("userTypes", expectNames("TYPE"), sectionKeys(nt, "userTypes"))
		checkSeq("userEnums", expectNames("ENUM"), sectionKeys(nt, "userEnums"))
		checkSeq("servers", expectNames("SERVER"), sectionKeys(nt, "servers"))
		checkSeq("tags", expectNames("TAG"), sectionKeys(nt, "tags"))
		// interactions: the base order is the old text order; blocks own consecutive runs
		baseInter := sectionKeys(bt, "interactions")
		total := 0
		for _, b := range p.blocks {
			total += b.methods
		}
		if total == len(baseInter) {
			start := map[int]int{}
			at := 0
			for i, b := range p.blocks {
				start[i] = at
				at += b.methods
			}
			var want []string
			for _, bi := range order {
				want = append(want, baseInter[start[bi]:start[bi]+p.blocks[bi].methods]...)
			}
			got := sectionKeys(nt, "interactions")
			if strings.Join(want, "\n") != strings.Join(got, "\n") {
				c.Violate("order:interactions", fmt.Sprintf("permutation %v of %s: interactions are %v, the text order gives %v", p.perm, d.name, got, want), rp)
				return
			}
			c.Inc("order_checks", "interactions", 1)
			// inside each tag: the filter of the new interaction order
			if tags := nt.Obj("tags"); tags != nil {
				posI := map[string]int{}
				for i, k := range got {
					posI[k] = i
				}
				for _, tn := range tags.Keys {
					t := tags.Obj(tn)
					for _, g := range t.Arr("interactionGroups") {
						last := -1
						for _, x := range g.(*ref.Obj).Arr("interactions") {
							pi := posI[x.(string)]
							if pi < last {
								c.Violate("order:tag-interactions", fmt.Sprintf("permutation %v of %s: tag %s lists its interactions out of text order", p.perm, d.name, tn), rp)
								return
							}
							last = pi
						}
					}
				}
				c.Inc("order_checks", "tag-interactions", 1)
			}
		}
		if c.NeedSample() && len(p.perm) >= 4 {
			c.Sample(map[string]interface{}{"document": d.name, "permutation": p.perm, "permuted": sampleDoc(j.Files["root.jst"])})
		}
	})
	c.Finish()
}

// canonUnordered serialises a catalog with the ordered sections sorted by key and tag interaction lists sorted.
func canonUnordered(top *ref.Obj) string {
	var canon func(path string, v interface{}) interface{}
	canon = func(path string, v interface{}) interface{} {
		switch x := v.(type) {
		case *ref.Obj:
			o := &ref.Obj{M: map[string]interface{}{}}
			keys := append([]string(nil), x.Keys...)
			sort.Strings(keys) // field order never matters for the comparison of content
			for _, k := range keys {
				o.Keys = append(o.Keys, k)
				o.M[k] = canon(path+"/"+k, x.M[k])
			}
			return o
		case []interface{}:
			out := make([]interface{}, len(x))
			for i := range x {
				out[i] = canon(path+"[]", x[i])
			}
			if strings.HasSuffix(path, "/interactionGroups[]/interactions") {
				sort.Slice(out, func(a, b int) bool { return fmt.Sprint(out[a]) < fmt.Sprint(out[b]) })
			}
			return out
		}
		return v
	}
	return ref.Compact(canon("", top))
}

// regexExamplesEquivalent: walking both catalogs in parallel, every pair of differing strings inside examples consists of two
// strings that match the pattern of one regex user type (or of the regex schema the example belongs to).
func regexExamplesEquivalent(a, b *ref.Obj) bool {
	var patterns []string
	if ut := a.Obj("userTypes"); ut != nil {
		for _, k := range ut.Keys {
			if sc := ut.Obj(k).Obj("schema"); sc != nil {
				if n, _ := sc.Str("notation"); n == "regex" {
					if p, ok := sc.Str("content"); ok {
						patterns = append(patterns, p)
					}
				}
			}
		}
	}
	match := func(x, y string, extra []string) bool {
		if x == y {
			return true
		}
		for _, p := range append(extra, patterns...) {
			re, err := regexp.Compile("^(?:" + p + ")$")
			if err == nil && re.MatchString(x) && re.MatchString(y) {
				return true
			}
		}
		return false
	}
	var cmpVal func(x, y interface{}) bool
	cmpVal = func(x, y interface{}) bool {
		switch xv := x.(type) {
		case *ref.Obj:
			yv, ok := y.(*ref.Obj)
			if !ok || len(xv.Keys) != len(yv.Keys) {
				return false
			}
			for _, k := range xv.Keys {
				if !cmpVal(xv.M[k], yv.M[k]) {
					return false
				}
			}
			return true
		case []interface{}:
			yv, ok := y.([]interface{})
			if !ok || len(xv) != len(yv) {
				return false
			}
			for i := range xv {
				if !cmpVal(xv[i], yv[i]) {
					return false
				}
			}
			return true
		case string:
			ys, ok := y.(string)
			return ok && match(xv, ys, nil)
		}
		return fmt.Sprint(x) == fmt.Sprint(y)
	}
	var walk func(x, y interface{}) bool
	walk = func(x, y interface{}) bool {
		switch xv := x.(type) {
		case *ref.Obj:
			yv, ok := y.(*ref.Obj)
			if !ok {
				return false
			}
			for _, k := range xv.Keys {
				if k == "example" {
					xs, ok1 := xv.M[k].(string)
					ys, ok2 := yv.M[k].(string)
					if !ok1 || !ok2 {
						return false
					}
					if xs == ys {
						continue
					}
					if n, _ := xv.Str("notation"); n == "regex" {
						p, _ := xv.Str("content")
						if !match(xs, ys, []string{p}) {
							return false
						}
						continue
					}
					px, e1 := ref.ParseJSON([]byte(xs))
					py, e2 := ref.ParseJSON([]byte(ys))
					if e1 != nil || e2 != nil || !cmpVal(px, py) {
						return false
					}
					continue
				}
				if !walk(xv.M[k], yv.M[k]) {
					return false
				}
			}
			return true
		case []interface{}:
			yv, ok := y.([]interface{})
			if !ok || len(xv) != len(yv) {
				return false
			}
			for i := range xv {
				if !walk(xv[i], yv[i]) {
					return false
				}
			}
			return true
		}
		return true
	}
	// compare section by section by key (the order of the sections' entries differs by design)
	return walk(sortedCopy(a), sortedCopy(b))
}

func sortedCopy(top *ref.Obj) interface{} {
	v, _ := ref.ParseJSON([]byte(canonUnordered(top)))
	return v
}
