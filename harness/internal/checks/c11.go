package checks

import (
	"fmt"
	"sort"
	"strings"

	"verifharness/internal/fw"
	"verifharness/internal/gen"
	"verifharness/internal/proto"
	"verifharness/internal/ref"
)

type ctxForm struct {
	name    string
	tok     ref.CtxToken
	head    string // keyword + parameters (one line)
	body    string // body lines that follow (may be empty)
	noParen bool   // the form has no explicit variant
}

func ctxForms() []ctxForm {
	f := []ctxForm{
		{name: "JSIGHT", head: "JSIGHT 0.3"},
		{name: "INFO", head: "INFO"},
		{name: "Title", head: "Title \"t\""},
		{name: "Version", head: "Version 1"},
		{name: "Description", head: "Description", body: "  some text", noParen: true},
		{name: "SERVER", head: "SERVER @s"},
		{name: "BaseUrl", head: "BaseUrl \"http://x\""},
		{name: "URL", head: "URL /p"},
		{name: "Body", head: "Body any"},
		{name: "Request", head: "Request any"},
		{name: "HTTP-response-code", head: "200 any"},
		{name: "Path", head: "Path", body: "{\"id\":1}"},
		{name: "Headers", head: "Headers", body: "{\"h\":\"v\"}"},
		{name: "Query", head: "Query \"q=1\"", body: "{\"q\":1}"},
		{name: "TYPE", head: "TYPE @t any"},
		{name: "ENUM", head: "ENUM @e", body: "[1]"},
		{name: "MACRO", head: "MACRO @m"},
		{name: "PASTE", head: "PASTE @m"},
		{name: "INCLUDE", head: "INCLUDE empty.jst"},
		{name: "Protocol", head: "Protocol json-rpc-2.0"},
		{name: "Method", head: "Method mm"},
		{name: "Params", head: "Params", body: "{\"p\":1}"},
		{name: "Result", head: "Result", body: "{\"r\":1}"},
		{name: "TAG", head: "TAG @g"},
		{name: "Tags", head: "Tags @g"},
		{name: "OperationId", head: "OperationId op"},
	}
	for _, m := range []string{"GET", "POST", "PUT", "PATCH", "DELETE"} {
		f = append(f, ctxForm{name: m, head: m}, ctxForm{name: m + "+path", head: m + " /m"})
	}
	for i := range f {
		k := f[i].name
		f[i].tok = ref.CtxToken{Kind: strings.TrimSuffix(k, "+path"), HasPath: strings.HasSuffix(k, "+path"), Include: k == "INCLUDE"}
	}
	return f
}

type ctxTokenR struct {
	form     *ctxForm
	explicit bool
	close    bool
}

func (t ctxTokenR) tok() ref.CtxToken {
	if t.close {
		return ref.CtxToken{Close: true}
	}
	k := t.form.tok
	k.Explicit = t.explicit
	return k
}

func (t ctxTokenR) label() string {
	if t.close {
		return ")"
	}
	if t.explicit {
		return t.form.name + "("
	}
	return t.form.name
}

// renderCtx writes the sequence one token per line group and returns the 1-based line of each token's keyword
// (for ")" the line of the parenthesis) and, for explicit tokens, the line of the "(".
func renderCtx(seq []ctxTokenR) (doc string, kwLine, parenLine []int) {
	var sb strings.Builder
	line := 1
	for _, t := range seq {
		kwLine = append(kwLine, line)
		pl := 0
		if t.close {
			sb.WriteString(")\n")
			line++
		} else {
			sb.WriteString(t.form.head + "\n")
			line++
			if t.explicit {
				pl = line
				sb.WriteString("(\n")
				line++
			}
			if t.form.body != "" {
				sb.WriteString(t.form.body + "\n")
				line += 1 + strings.Count(t.form.body, "\n")
			}
		}
		parenLine = append(parenLine, pl)
	}
	return sb.String(), kwLine, parenLine
}

func ctxAlphabet() []ctxTokenR {
	forms := ctxForms()
	var al []ctxTokenR
	for i := range forms {
		al = append(al, ctxTokenR{form: &forms[i]})
		if !forms[i].noParen {
			al = append(al, ctxTokenR{form: &forms[i], explicit: true})
		}
	}
	al = append(al, ctxTokenR{close: true})
	return al
}

func ctxErrClass(msg string) string {
	switch {
	case strings.HasPrefix(msg, "incorrect context for the directive"):
		return "incorrect-context"
	case strings.HasPrefix(msg, "nothing to close with this closing parenthesis"):
		return "nothing-to-close"
	case strings.HasPrefix(msg, "this opening parenthesis is not closed"):
		return "not-closed"
	}
	return ""
}

type flatNode struct {
	kind   string
	begin  int
	parent int // begin of the parent, -1 for root
}

func flatten(nodes []*proto.Node, out *[]flatNode) {
	for _, n := range nodes {
		p := -1
		if !n.ParentIsNil {
			p = n.ParentBegin
		}
		*out = append(*out, flatNode{n.Kind, n.Begin, p})
		flatten(n.Children, out)
	}
}

// C11 – nesting follows the context table.
func C11(c *fw.Ctx) {
	al := ctxAlphabet()
	c.SetExhaustive(true)
	nRandom := c.Pick(20000, 400000)
	c.Rule(fmt.Sprintf("tokens = %d (36 directive forms: 31 kinds, the five HTTP methods with and without a path; each implicit or followed by '(' "+
		"except Description; plus ')'); ALL sequences of length <= 3 (%d) and %d seeded random sequences of length 4-8; each kind has one "+
		"lexically valid canonical rendering so that the first error, if any, is the context error; oracle = reference automaton "+
		"(harness/internal/ref/context.go); distinct = distinct token sequences; non-trivial = every sequence (each decides one verdict)",
		len(al), len(al)+len(al)*len(al)+len(al)*len(al)*len(al), nRandom))
	c.Assume("the context table in the reference was transcribed from the JSight API 0.3 language description",
		"INCLUDE is rendered as the inclusion of an empty file; 'INCLUDE f (' must be rejected with a structured error")
	pool := c.Pool(false, 0)
	triples := newStrSet()
	type pending struct {
		seq []ctxTokenR
	}
	emitSeq := func(emit func(*proto.Job), seq []ctxTokenR, id string) {
		doc, _, _ := renderCtx(seq)
		hasInclude := false
		for _, t := range seq {
			if !t.close && t.form.name == "INCLUDE" {
				hasInclude = true
			}
		}
		j := &proto.Job{ID: id, Root: "root.jst", Files: map[string][]byte{"root.jst": []byte(doc)}, WantPhases: true, InMemory: !hasInclude}
		if hasInclude {
			j.Files["empty.jst"] = []byte{}
		}
		emit(j)
	}
	decode := func(id string) []ctxTokenR {
		var seq []ctxTokenR
		for _, s := range strings.Split(id[strings.Index(id, "/")+1:], ",") {
			var k int
			fmt.Sscan(s, &k)
			seq = append(seq, al[k])
		}
		return seq
	}
	c.RunJobs(pool, func(emit func(*proto.Job)) {
		n := len(al)
		for a := 0; a < n; a++ {
			emitSeq(emit, []ctxTokenR{al[a]}, fmt.Sprintf("exh/%d", a))
			for b := 0; b < n; b++ {
				emitSeq(emit, []ctxTokenR{al[a], al[b]}, fmt.Sprintf("exh/%d,%d", a, b))
				for d := 0; d < n; d++ {
					emitSeq(emit, []ctxTokenR{al[a], al[b], al[d]}, fmt.Sprintf("exh/%d,%d,%d", a, b, d))
				}
			}
		}
		r := gen.Rng(c.Seed, c.ID, "long")
		for i := 0; i < nRandom; i++ {
			l := 4 + r.Intn(5)
			var ids []string
			var seq []ctxTokenR
			// bias towards sequences that stay legal for a while: start from a legal root
			var toks []ref.CtxToken
			for k := 0; k < l; k++ {
				x := r.Intn(n)
				if r.Intn(4) != 0 {
					// prefer a token that keeps the prefix legal (a prefix is legal if the only objection is "not closed")
					for try := 0; try < 40; try++ {
						y := r.Intn(n)
						v := ref.RunContext(append(append([]ref.CtxToken(nil), toks...), al[y].tok()))
						if v.OK || v.Class == "not-closed" {
							x = y
							break
						}
					}
				}
				ids = append(ids, fmt.Sprint(x))
				seq = append(seq, al[x])
				toks = append(toks, al[x].tok())
			}
			emitSeq(emit, seq, "rnd/"+strings.Join(ids, ","))
		}
	}, func(j *proto.Job, res *proto.Result) {
		if workerProblem(c, res) {
			return
		}
		seq := decode(j.ID)
		var toks []ref.CtxToken
		var labels []string
		for _, t := range seq {
			toks = append(toks, t.tok())
			labels = append(labels, t.label())
		}
		key := strings.Join(labels, " ")
		c.Count(key, true)
		v := ref.RunContext(toks)
		_, kwLine, parenLine := renderCtx(seq)
		rp := func() *fw.Replay {
			return &fw.Replay{Jobs: []*proto.Job{j}, Results: []interface{}{res}, Expected: map[string]interface{}{"sequence": labels, "reference": v}}
		}
		if sig, what := crashSig(res); sig != "" {
			c.Violate(sig, "sequence ["+key+"]: "+what, rp())
			return
		}
		if !res.ScanDone && res.Err == nil {
			c.Inconclusive("no error and no scan-phase snapshot: the phase hook did not fire")
			return
		}
		class := ""
		if res.Err != nil && !res.ScanDone {
			// only errors of the scan phase are judged here; a context error raised while a PASTE is expanded belongs to C10
			class = ctxErrClass(res.Err.Msg)
		}
		if v.OK {
			c.Inc("verdicts", "reference-accepts", 1)
			if class != "" {
				c.Violate("context:rejected-legal-sequence:"+class, fmt.Sprintf("sequence [%s] is legal but the build says %q (line %d)", key, res.Err.Msg, res.Err.Line), rp())
				return
			}
			if !res.ScanDone {
				// a scan-phase error that is not a context error: the canonical renderings should not produce one
				msg := "(no error)"
				if res.Err != nil {
					msg = res.Err.Msg
				}
				c.Violate("context:unexpected-scan-error", fmt.Sprintf("sequence [%s]: scan phase failed with %q", key, msg), rp())
				return
			}
			// compare the tree
			var flat []flatNode
			flatten(res.Scan, &flat)
			sort.Slice(flat, func(a, b int) bool { return flat[a].begin < flat[b].begin })
			if len(flat) != len(v.Nodes) {
				c.Violate("context:tree-size", fmt.Sprintf("sequence [%s]: %d directives expected in the tree, %d found", key, len(v.Nodes), len(flat)), rp())
				return
			}
			idx := map[int]int{}
			for i, f := range flat {
				idx[f.begin] = i
			}
			for i, f := range flat {
				want := v.Parents[i]
				got := -1
				if f.parent >= 0 {
					g, ok := idx[f.parent]
					if !ok {
						got = -2
					} else {
						got = g
					}
				}
				wantKind := toks[v.Nodes[i]].Kind
				if f.kind != wantKind || got != want {
					c.Violate("context:wrong-parent", fmt.Sprintf("sequence [%s]: directive %d (%s) should hang under node %d, implementation has %s under %d", key, i, wantKind, want, f.kind, got), rp())
					return
				}
				if want >= 0 {
					triples.add(toks[v.Nodes[want]].Kind + ">" + wantKind + fmt.Sprint(toks[v.Nodes[want]].Explicit))
				} else {
					triples.add("root>" + wantKind)
				}
			}
			return
		}
		c.Inc("verdicts", "reference-rejects:"+v.Class, 1)
		if res.ScanDone || res.Err == nil {
			c.Violate("context:accepted-illegal-sequence:"+v.Class, fmt.Sprintf("sequence [%s] must be rejected (%s at token %d) but was accepted", key, v.Class, v.ErrAt), rp())
			return
		}
		switch v.Class {
		case "include-with-parenthesis":
			if res.Err.Line != parenLine[v.ErrAt] {
				c.Violate("context:error-line", fmt.Sprintf("sequence [%s]: '(' after INCLUDE is on line %d, error says line %d (%s)", key, parenLine[v.ErrAt], res.Err.Line, res.Err.Msg), rp())
			}
		default:
			if class != v.Class {
				c.Violate("context:wrong-class:"+v.Class, fmt.Sprintf("sequence [%s]: expected %s at token %d, got %q (line %d)", key, v.Class, v.ErrAt, res.Err.Msg, res.Err.Line), rp())
				return
			}
			if v.Class != "not-closed" && res.Err.Line != kwLine[v.ErrAt] {
				c.Violate("context:error-line", fmt.Sprintf("sequence [%s]: offending token %d is on line %d, error says line %d", key, v.ErrAt, kwLine[v.ErrAt], res.Err.Line), rp())
			}
		}
		if c.NeedSample() && len(seq) == 3 && v.Class == "incorrect-context" && v.ErrAt == 2 {
			doc, _, _ := renderCtx(seq)
			c.Sample(map[string]interface{}{"sequence": labels, "document": doc, "reference": v.Class, "at_token": v.ErrAt, "observed": res.Err.Msg, "line": res.Err.Line})
		}
	})
	c.Extra("attachment_triples_seen", triples.len())
	c.Finish()
}
