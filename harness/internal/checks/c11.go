package checks

import (
	"fmt"
	"sort"
	"strings"

	"verifharness/internal/fw"
	"verifharness/internal/gen"
	"verifharness/internal/proto"
	"verifharness/internal/ref"
)

type ctxForm struct {
	name    string
	tok     ref.CtxToken
	head    string   // keyword + parameters (one line)
	body    string   // body lines that follow (may be empty)
	noParen bool     // the form has no explicit variant
	alts    []string // other spellings of the head line (the first one is head)
}

// headAt: the spelling used at a place (salt) of a sequence.
func (f *ctxForm) headAt(salt int) string {
	if len(f.alts) == 0 {
		return f.head
	}
	return f.alts[salt%len(f.alts)]
}

func ctxForms() []ctxForm {
	f := []ctxForm{
		{name: "JSIGHT", head: "JSIGHT 0.3"},
		{name: "INFO", head: "INFO"},
		{name: "Title", head: "Title \"t\""},
		{name: "Version", head: "Version 1"},
		{name: "Description", head: "Description", body: "  some text", noParen: true},
		{name: "SERVER", head: "SERVER @s"},
		{name: "BaseUrl", head: "BaseUrl \"http://x\""},
		{name: "URL", head: "URL /p"},
		{name: "Body", head: "Body any"},
		{name: "Request", head: "Request any"},
		{name: "HTTP-response-code", head: "200 any"},
		{name: "Path", head: "Path", body: "{\"id\":1}"},
		{name: "Headers", head: "Headers", body: "{\"h\":\"v\"}"},
		{name: "Query", head: "Query \"q=1\"", body: "{\"q\":1}"},
		{name: "TYPE", head: "TYPE @t any"},
		{name: "ENUM", head: "ENUM @e", body: "[1]"},
		{name: "MACRO", head: "MACRO @m"},
		{name: "PASTE", head: "PASTE @m"},
		{name: "INCLUDE", head: "INCLUDE empty.jst"},
		{name: "Protocol", head: "Protocol json-rpc-2.0"},
		{name: "Method", head: "Method mm"},
		{name: "Params", head: "Params", body: "{\"p\":1}"},
		{name: "Result", head: "Result", body: "{\"r\":1}"},
		{name: "TAG", head: "TAG @g"},
		{name: "Tags", head: "Tags @g"},
		{name: "OperationId", head: "OperationId op"},
	}
	for _, m := range []string{"GET", "POST", "PUT", "PATCH", "DELETE"} {
		f = append(f, ctxForm{name: m, head: m}, ctxForm{name: m + "+path", head: m + " /m"})
	}
	// other spellings of the same directive line: what stands on the line does not change where the directive may stand
	alts := map[string][]string{
		"HTTP-response-code": {"200 any", "200 @t", "200 \"@t\"", "200 [@t]", "200 \"[@t]\"", "200 empty", "201 \"any\"", "404 any // note", "200 \"[@t]\" // note"},
		"Request":            {"Request any", "Request @t", "Request \"[@t]\"", "Request [@t]", "Request empty", "Request \"@t\""},
		"Body":               {"Body any", "Body @t", "Body \"[@t]\"", "Body [@t]", "Body \"any\"", "Body empty // note"},
		"TYPE":               {"TYPE @t any", "TYPE @t \"any\"", "TYPE @t empty", "TYPE \"@t\" any"},
		"URL":                {"URL /p", "URL \"/p\"", "URL /p // note"},
		"SERVER":             {"SERVER @s", "SERVER \"@s\"", "SERVER @s // note"},
		"TAG":                {"TAG @g", "TAG \"@g\"", "TAG @g /* note */"},
		"Tags":               {"Tags @g", "Tags @g @h", "Tags \"@g\""},
		"Method":             {"Method mm", "Method \"mm\"", "Method mm // note"},
	}
	for i := range f {
		f[i].alts = alts[f[i].name]
		if strings.HasSuffix(f[i].name, "+path") {
			m := strings.TrimSuffix(f[i].name, "+path")
			f[i].alts = []string{m + " /m", m + " \"/m\"", m + " /m // note", m + " /m /* note */"}
		}
	}
	for i := range f {
		k := f[i].name
		f[i].tok = ref.CtxToken{Kind: strings.TrimSuffix(k, "+path"), HasPath: strings.HasSuffix(k, "+path"), Include: k == "INCLUDE"}
	}
	return f
}

type ctxTokenR struct {
	form     *ctxForm
	explicit bool
	close    bool
	open     bool // a "(" line of its own
}

func (t ctxTokenR) tok() ref.CtxToken {
	if t.close {
		return ref.CtxToken{Close: true}
	}
	if t.open {
		return ref.CtxToken{Open: true}
	}
	k := t.form.tok
	k.Explicit = t.explicit
	return k
}

func (t ctxTokenR) label() string {
	if t.close {
		return ")"
	}
	if t.open {
		return "("
	}
	if t.explicit {
		return t.form.name + "("
	}
	return t.form.name
}

// renderCtx writes the sequence one token per line group and returns the 1-based line of each token's keyword
// (for ")" the line of the parenthesis) and, for explicit tokens, the line of the "(".
func renderCtx(seq []ctxTokenR) (doc string, kwLine, parenLine []int) {
	var sb strings.Builder
	line := 1
	for pos, t := range seq {
		kwLine = append(kwLine, line)
		pl := 0
		if t.close {
			// a closing parenthesis may carry blanks and a comment on its line (also when it ends a Description text)
			sb.WriteString([]string{")", ") # end", ")   ", ")\t# c", ")", ") # a #b"}[pos%6] + "\n")
			line++
		} else if t.open {
			sb.WriteString("(\n")
			line++
		} else {
			sb.WriteString(t.form.headAt(pos*5+len(seq)*3) + "\n")
			line++
			if t.explicit {
				pl = line
				sb.WriteString("(\n")
				line++
			}
			if t.form.body != "" {
				sb.WriteString(t.form.body + "\n")
				line += 1 + strings.Count(t.form.body, "\n")
			}
		}
		parenLine = append(parenLine, pl)
	}
	return sb.String(), kwLine, parenLine
}

func ctxAlphabet() []ctxTokenR {
	forms := ctxForms()
	var al []ctxTokenR
	for i := range forms {
		al = append(al, ctxTokenR{form: &forms[i]})
		if !forms[i].noParen {
			al = append(al, ctxTokenR{form: &forms[i], explicit: true})
		}
	}
	al = append(al, ctxTokenR{close: true})
	al = append(al, ctxTokenR{open: true})
	return al
}

func ctxErrClass(msg string) string {
	switch {
	case strings.HasPrefix(msg, "incorrect context for the directive"):
		return "incorrect-context"
	case strings.HasPrefix(msg, "nothing to close with this closing parenthesis"):
		return "nothing-to-close"
	case strings.HasPrefix(msg, "this opening parenthesis is not closed"):
		return "not-closed"
	}
	return ""
}

type flatNode struct {
	kind   string
	begin  int
	parent int // begin of the parent, -1 for root
}

func flatten(nodes []*proto.Node, out *[]flatNode) {
	for _, n := range nodes {
		p := -1
		if !n.ParentIsNil {
			p = n.ParentBegin
		}
		*out = append(*out, flatNode{n.Kind, n.Begin, p})
		flatten(n.Children, out)
	}
}

// C11 – nesting follows the context table.
func C11(c *fw.Ctx) {
	al := ctxAlphabet()
	c.SetExhaustive(true)
	nRandom := c.Pick(20000, 400000)
	c.Rule(fmt.Sprintf("tokens = %d (36 directive forms: 31 kinds, the five HTTP methods with and without a path; each implicit or followed by '(' "+
		"except Description; plus ')' and a '(' on a line of its own, which belongs to the directive before it if that has none yet and is an "+
		"error otherwise); ALL sequences of length <= 3 (%d) and %d seeded random sequences of length 4-8; each kind has one "+
		"lexically valid canonical rendering so that the first error, if any, is the context error; oracle = reference automaton "+
		"(harness/internal/ref/context.go); distinct = distinct token sequences; non-trivial = every sequence (each decides one verdict)",
		len(al), len(al)+len(al)*len(al)+len(al)*len(al)*len(al), nRandom))
	c.Assume("the context table in the reference was transcribed from the JSight API 0.3 language description",
		"INCLUDE is rendered as the inclusion of an empty file; 'INCLUDE f (' must be rejected with a structured error")
	pool := c.Pool(false, 0)
	triples := newStrSet()
	type pending struct {
		seq []ctxTokenR
	}
	emitSeq := func(emit func(*proto.Job), seq []ctxTokenR, id string) {
		for i, t := range seq {
			// a "(" line right after a Description is part of its text, not a parenthesis: not a sequence of the alphabet
			if t.open && i > 0 && !seq[i-1].close && !seq[i-1].open && seq[i-1].form.noParen {
				return
			}
		}
		doc, _, _ := renderCtx(seq)
		hasInclude := false
		for _, t := range seq {
			if !t.close && !t.open && t.form.name == "INCLUDE" {
				hasInclude = true
			}
		}
		j := &proto.Job{ID: id, Root: "root.jst", Files: map[string][]byte{"root.jst": []byte(doc)}, WantPhases: true, InMemory: !hasInclude}
		if hasInclude {
			j.Files["empty.jst"] = []byte{}
		}
		emit(j)
	}
	decode := func(id string) []ctxTokenR {
		var seq []ctxTokenR
		for _, s := range strings.Split(id[strings.Index(id, "/")+1:], ",") {
			var k int
			fmt.Sscan(s, &k)
			seq = append(seq, al[k])
		}
		return seq
	}
	c.RunJobs(pool, func(emit func(*proto.Job)) {
		n := len(al)
		for a := 0; a < n; a++ {
			emitSeq(emit, []ctxTokenR{al[a]}, fmt.Sprintf("exh/%d", a))
			for b := 0; b < n; b++ {
				emitSeq(emit, []ctxTokenR{al[a], al[b]}, fmt.Sprintf("exh/%d,%d", a, b))
				for d := 0; d < n; d++ {
					emitSeq(emit, []ctxTokenR{al[a], al[b], al[d]}, fmt.Sprintf("exh/%d,%d,%d", a, b, d))
				}
			}
		}
		// climb and close: A, B, an explicit C that is legal after them (it may have to climb out of B, or out of A as well, to
		// find its parent), optionally one child of C, the ")", and then every D: after the parenthesis the context is C's
		// *parent* - not the place C was met in (enumerated over all A, B, C; D: every directive the reference accepts there and
		// every 25th / fifth it refuses; quick: A without parentheses)
		closeIdx := -1
		for i, t := range al {
			if t.close {
				closeIdx = i
			}
		}
		climbs := 0
		for a := 0; a < n; a++ {
			if al[a].close || al[a].open || (c.Quick() && al[a].explicit) {
				continue
			}
			for b := 0; b < n; b++ {
				if al[b].close || al[b].open || al[b].explicit {
					continue
				}
				for ci := 0; ci < n; ci++ {
					if !al[ci].explicit {
						continue
					}
					pre := []ref.CtxToken{al[a].tok(), al[b].tok(), al[ci].tok()}
					if v := ref.RunContext(pre); !(v.OK || v.Class == "not-closed") {
						continue
					}
					for d := 0; d < n; d++ {
						if al[d].close || al[d].open || (c.Quick() && d%3 != (a+b+ci)%3) {
							continue
						}
						full := append(append([]ref.CtxToken(nil), pre...), al[closeIdx].tok(), al[d].tok())
						v := ref.RunContext(full)
						if !(v.OK || v.Class == "not-closed") && (a+b+ci+d)%c.Pick(25, 5) != 0 {
							continue
						}
						climbs++
						emitSeq(emit, []ctxTokenR{al[a], al[b], al[ci], al[closeIdx], al[d]}, fmt.Sprintf("climb/%d,%d,%d,%d,%d", a, b, ci, closeIdx, d))
					}
				}
			}
		}
		c.Inc("families", "climb-and-close", climbs)
		r := gen.Rng(c.Seed, c.ID, "long")
		for i := 0; i < nRandom; i++ {
			l := 4 + r.Intn(5)
			var ids []string
			var seq []ctxTokenR
			// bias towards sequences that stay legal for a while: start from a legal root
			var toks []ref.CtxToken
			for k := 0; k < l; k++ {
				x := r.Intn(n)
				if r.Intn(4) != 0 {
					// prefer a token that keeps the prefix legal (a prefix is legal if the only objection is "not closed")
					for try := 0; try < 40; try++ {
						y := r.Intn(n)
						v := ref.RunContext(append(append([]ref.CtxToken(nil), toks...), al[y].tok()))
						if v.OK || v.Class == "not-closed" {
							x = y
							break
						}
					}
				}
				ids = append(ids, fmt.Sprint(x))
				seq = append(seq, al[x])
				toks = append(toks, al[x].tok())
			}
			emitSeq(emit, seq, "rnd/"+strings.Join(ids, ","))
		}
	}, func(j *proto.Job, res *proto.Result) {
		if workerProblem(c, res) {
			return
		}
		seq := decode(j.ID)
		var toks []ref.CtxToken
		var labels []string
		for _, t := range seq {
			toks = append(toks, t.tok())
			labels = append(labels, t.label())
		}
		key := strings.Join(labels, " ")
		c.Count(key, true)
		v := ref.RunContext(toks)
		_, kwLine, parenLine := renderCtx(seq)
		rp := func() *fw.Replay {
			return &fw.Replay{Jobs: []*proto.Job{j}, Results: []interface{}{res}, Expected: map[string]interface{}{"sequence": labels, "reference": v}}
		}
		if sig, what := crashSig(res); sig != "" {
			c.Violate(sig, "sequence ["+key+"]: "+what, rp())
			return
		}
		if !res.ScanDone && res.Err == nil {
			c.Inconclusive("no error and no scan-phase snapshot: the phase hook did not fire")
			return
		}
		class := ""
		if res.Err != nil && !res.ScanDone {
			// only errors of the scan phase are judged here; a context error raised while a PASTE is expanded belongs to C10
			class = ctxErrClass(res.Err.Msg)
		}
		if v.OK {
			c.Inc("verdicts", "reference-accepts", 1)
			if class != "" {
				c.Violate("context:rejected-legal-sequence:"+class, fmt.Sprintf("sequence [%s] is legal but the build says %q (line %d)", key, res.Err.Msg, res.Err.Line), rp())
				return
			}
			if !res.ScanDone {
				// a scan-phase error that is not a context error: the canonical renderings should not produce one
				msg := "(no error)"
				if res.Err != nil {
					msg = res.Err.Msg
				}
				c.Violate("context:unexpected-scan-error", fmt.Sprintf("sequence [%s]: scan phase failed with %q", key, msg), rp())
				return
			}
			// compare the tree
			var flat []flatNode
			flatten(res.Scan, &flat)
			sort.Slice(flat, func(a, b int) bool { return flat[a].begin < flat[b].begin })
			if len(flat) != len(v.Nodes) {
				c.Violate("context:tree-size", fmt.Sprintf("sequence [%s]: %d directives expected in the tree, %d found", key, len(v.Nodes), len(flat)), rp())
				return
			}
			idx := map[int]int{}
			for i, f := range flat {
				idx[f.begin] = i
			}
			for i, f := range flat {
				want := v.Parents[i]
				got := -1
				if f.parent >= 0 {
					g, ok := idx[f.parent]
					if !ok {
						got = -2
					} else {
						got = g
					}
				}
				wantKind := toks[v.Nodes[i]].Kind
				if f.kind != wantKind || got != want {
					c.Violate("context:wrong-parent", fmt.Sprintf("sequence [%s]: directive %d (%s) should hang under node %d, implementation has %s under %d", key, i, wantKind, want, f.kind, got), rp())
					return
				}
				if want >= 0 {
					triples.add(toks[v.Nodes[want]].Kind + ">" + wantKind + fmt.Sprint(toks[v.Nodes[want]].Explicit))
				} else {
					triples.add("root>" + wantKind)
				}
			}
			// The tree is built a second time when macros are expanded. Without MACRO and PASTE the expansion changes nothing:
			// the second tree (phase snapshot "expand", present when the phases up to there succeeded) must nest the same way.
			hasMacro := false
			for _, t := range toks {
				if t.Kind == "MACRO" || t.Kind == "PASTE" {
					hasMacro = true
				}
			}
			if !hasMacro && res.Expand != nil {
				var flat2 []flatNode
				flatten(res.Expand, &flat2)
				sort.Slice(flat2, func(a, b int) bool { return flat2[a].begin < flat2[b].begin })
				if len(flat2) == len(v.Nodes) {
					idx2 := map[int]int{}
					for i, f := range flat2 {
						idx2[f.begin] = i
					}
					for i, f := range flat2 {
						got := -1
						if f.parent >= 0 {
							g, ok := idx2[f.parent]
							if !ok {
								got = -2
							} else {
								got = g
							}
						}
						if got != v.Parents[i] {
							c.Violate("context:expanded-tree-wrong-parent", fmt.Sprintf("sequence [%s]: after the expansion pass directive %d (%s) hangs under node %d, the context table puts it under %d", key, i, f.kind, got, v.Parents[i]), rp())
							return
						}
					}
					c.Inc("verdicts", "expanded-tree-compared", 1)
				}
			}
			return
		}
		c.Inc("verdicts", "reference-rejects:"+v.Class, 1)
		if res.ScanDone || res.Err == nil {
			c.Violate("context:accepted-illegal-sequence:"+v.Class, fmt.Sprintf("sequence [%s] must be rejected (%s at token %d) but was accepted", key, v.Class, v.ErrAt), rp())
			return
		}
		switch v.Class {
		case "include-with-parenthesis":
			if res.Err.Line != parenLine[v.ErrAt] {
				c.Violate("context:error-line", fmt.Sprintf("sequence [%s]: '(' after INCLUDE is on line %d, error says line %d (%s)", key, parenLine[v.ErrAt], res.Err.Line, res.Err.Msg), rp())
			}
		default:
			if class != v.Class {
				c.Violate("context:wrong-class:"+v.Class, fmt.Sprintf("sequence [%s]: expected %s at token %d, got %q (line %d)", key, v.Class, v.ErrAt, res.Err.Msg, res.Err.Line), rp())
				return
			}
			if v.Class != "not-closed" && res.Err.Line != kwLine[v.ErrAt] {
				// A directive is checked against the context table when the next keyword (or ")" or the end) arrives, a parenthesis at
				// once: when the offending directive is directly followed by a surplus "(", that parenthesis is met first. Both are
				// errors of the text; either location is truthful.
				alt := -1
				if e := v.ErrAt; e < len(toks) && !toks[e].Close && !toks[e].Open {
					switch {
					case toks[e].Explicit && e+1 < len(toks) && toks[e+1].Open:
						alt = e + 1
					case !toks[e].Explicit && e+2 < len(toks) && toks[e+1].Open && toks[e+2].Open:
						alt = e + 2
					}
				}
				if alt < 0 || res.Err.Line != kwLine[alt] {
					c.Violate("context:error-line", fmt.Sprintf("sequence [%s]: offending token %d is on line %d, error says line %d", key, v.ErrAt, kwLine[v.ErrAt], res.Err.Line), rp())
				}
			}
		}
		if c.NeedSample() && len(seq) == 3 && v.Class == "incorrect-context" && v.ErrAt == 2 {
			doc, _, _ := renderCtx(seq)
			c.Sample(map[string]interface{}{"sequence": labels, "document": doc, "reference": v.Class, "at_token": v.ErrAt, "observed": res.Err.Msg, "line": res.Err.Line})
		}
	})
	c11MultiFile(c, al)
	c.Extra("attachment_triples_seen", triples.len())
	c.Finish()
}

type mfItem struct {
	tok   int // index into the sequence, or -1
	child *mfFile
}

type mfFile struct {
	id    int
	name  string
	items []mfItem
}

type mfTokPos struct {
	file            string
	kwLine, parLine int
	begin           int
}

// c11MultiFile: seeded sequences spread over nested INCLUDE files; the reference additionally demands that an explicit
// context is closed in the file that opened it.
func c11MultiFile(c *fw.Ctx, al []ctxTokenR) {
	var forms []ctxTokenR
	for _, t := range al {
		if t.open {
			continue // the multi-file family keeps to the tokens of the context table
		}
		if t.close || (t.form.name != "INCLUDE" && t.form.name != "JSIGHT") { // JSIGHT is forbidden in included files by another rule
			forms = append(forms, t)
		}
	}
	n := c.Pick(15000, 300000)
	pool := c.Pool(false, 0)
	type mfCase struct {
		seq    []ctxTokenR
		events []ref.CtxEvent
		pos    []mfTokPos // per sequence token
		evTok  []int      // event -> sequence token (or -1)
		evFile []string   // event -> file name (for EndFile events: the file that ends)
		files  map[string][]byte
	}
	cases := map[string]*mfCase{}
	c.RunJobs(pool, func(emit func(*proto.Job)) {
		r := gen.Rng(c.Seed, c.ID, "multifile")
		for i := 0; i < n; i++ {
			l := 3 + r.Intn(7)
			var seq []ctxTokenR
			var toks []ref.CtxToken
			for k := 0; k < l; k++ {
				x := r.Intn(len(forms))
				if r.Intn(5) != 0 {
					for try := 0; try < 40; try++ {
						y := r.Intn(len(forms))
						v := ref.RunContext(append(append([]ref.CtxToken(nil), toks...), forms[y].tok()))
						if v.OK || v.Class == "not-closed" {
							x = y
							break
						}
					}
				}
				seq = append(seq, forms[x])
				toks = append(toks, forms[x].tok())
			}
			// structure
			nfile := 0
			var split func(lo, hi, level int) *mfFile
			split = func(lo, hi, level int) *mfFile {
				f := &mfFile{id: nfile, name: fmt.Sprintf("f%d.jst", nfile)}
				if nfile == 0 {
					f.name = "root.jst"
				}
				nfile++
				for i := lo; i < hi; {
					if level < 3 && r.Intn(3) == 0 && !(level == 0 && i == lo && false) {
						j := i + 1 + r.Intn(hi-i)
						if j > hi {
							j = hi
						}
						if !(level == 0 && i == lo && j == hi && false) {
							f.items = append(f.items, mfItem{tok: -1, child: split(i, j, level+1)})
							i = j
							continue
						}
					}
					f.items = append(f.items, mfItem{tok: i})
					i++
				}
				if r.Intn(6) == 0 && level < 3 { // an included file without any directive
					f.items = append(f.items, mfItem{tok: -1, child: &mfFile{id: nfile, name: fmt.Sprintf("f%d.jst", nfile)}})
					nfile++
				}
				return f
			}
			root := split(0, l, 0)
			mc := &mfCase{seq: seq, pos: make([]mfTokPos, l), files: map[string][]byte{}}
			var render func(f *mfFile)
			render = func(f *mfFile) {
				var sb strings.Builder
				line := 1
				for _, it := range f.items {
					if it.child != nil {
						sb.WriteString("INCLUDE " + it.child.name + "\n")
						line++
						render(it.child)
						mc.events = append(mc.events, ref.CtxEvent{File: it.child.id, EndFile: true})
						mc.evTok = append(mc.evTok, -1)
						mc.evFile = append(mc.evFile, it.child.name)
						continue
					}
					t := seq[it.tok]
					p := mfTokPos{file: f.name, kwLine: line, begin: sb.Len()}
					if t.close {
						sb.WriteString(")\n")
						line++
					} else {
						sb.WriteString(t.form.headAt(it.tok*5+len(seq)*3) + "\n")
						line++
						if t.explicit {
							p.parLine = line
							sb.WriteString("(\n")
							line++
						}
						if t.form.body != "" {
							sb.WriteString(t.form.body + "\n")
							line += 1 + strings.Count(t.form.body, "\n")
						}
					}
					mc.pos[it.tok] = p
					mc.events = append(mc.events, ref.CtxEvent{Tok: t.tok(), File: f.id})
					mc.evTok = append(mc.evTok, it.tok)
					mc.evFile = append(mc.evFile, f.name)
				}
				mc.files[f.name] = []byte(sb.String())
			}
			render(root)
			if len(mc.files) < 2 {
				continue
			}
			id := fmt.Sprintf("mf/%d", i)
			maxMuLock.Lock()
			cases[id] = mc
			maxMuLock.Unlock()
			emit(&proto.Job{ID: id, Root: "root.jst", Files: mc.files, WantPhases: true})
		}
	}, func(j *proto.Job, res *proto.Result) {
		if workerProblem(c, res) {
			return
		}
		maxMuLock.Lock()
		mc := cases[j.ID]
		delete(cases, j.ID)
		maxMuLock.Unlock()
		var labels []string
		for _, t := range mc.seq {
			labels = append(labels, t.label())
		}
		key := strings.Join(labels, " ")
		c.Count(jobKey(j), true)
		v := ref.RunContextFiles(mc.events)
		rp := &fw.Replay{Jobs: []*proto.Job{j}, Results: []interface{}{res}, Expected: map[string]interface{}{"sequence": labels, "reference": v, "files": filesAsStrings(j.Files)}}
		if sig, what := crashSig(res); sig != "" {
			c.Violate(sig, "sequence ["+key+"] over files: "+what, rp)
			return
		}
		if !res.ScanDone && res.Err == nil {
			c.Inconclusive("no error and no scan-phase snapshot")
			return
		}
		class := ""
		if res.Err != nil && !res.ScanDone {
			class = ctxErrClass(res.Err.Msg)
		}
		if v.OK {
			c.Inc("multi_file", "reference-accepts", 1)
			if !res.ScanDone {
				c.Violate("files:rejected-legal-sequence:"+class, fmt.Sprintf("sequence [%s] spread over %d files is legal but the scan phase says %q at %s:%d", key, len(j.Files), res.Err.Msg, relName(res, res.Err.File), res.Err.Line), rp)
				return
			}
			var flat []flatNodeF
			flattenF(res.Scan, res, &flat)
			if len(flat) != len(v.Nodes) {
				c.Violate("files:tree-size", fmt.Sprintf("sequence [%s] over files: %d directives expected, %d found", key, len(v.Nodes), len(flat)), rp)
				return
			}
			// node identity = (file, keyword offset)
			idx := map[string]int{}
			for n, ei := range v.Nodes {
				p := mc.pos[mc.evTok[ei]]
				idx[fmt.Sprintf("%s:%d", p.file, p.begin)] = n
			}
			for _, f := range flat {
				n, ok := idx[fmt.Sprintf("%s:%d", f.file, f.begin)]
				if !ok {
					c.Violate("files:unknown-node", fmt.Sprintf("sequence [%s] over files: the tree holds a directive at %s:%d that was not written", key, f.file, f.begin), rp)
					return
				}
				want := v.Parents[n]
				got := -1
				if f.parentFile != "" {
					g, ok := idx[fmt.Sprintf("%s:%d", f.parentFile, f.parentBegin)]
					if !ok {
						got = -2
					} else {
						got = g
					}
				}
				if got != want {
					c.Violate("files:wrong-parent", fmt.Sprintf("sequence [%s] over files: directive %d (%s) should hang under node %d, implementation has it under %d", key, n, f.kind, want, got), rp)
					return
				}
			}
			return
		}
		c.Inc("multi_file", "reference-rejects:"+v.Class, 1)
		if res.ScanDone || res.Err == nil {
			c.Violate("files:accepted-illegal-sequence:"+v.Class, fmt.Sprintf("sequence [%s] spread over files must be rejected (%s at event %d) but passed the scan phase", key, v.Class, v.ErrAt), rp)
			return
		}
		if class != v.Class {
			c.Violate("files:wrong-class:"+v.Class, fmt.Sprintf("sequence [%s] over files: expected %s, got %q at %s:%d", key, v.Class, res.Err.Msg, relName(res, res.Err.File), res.Err.Line), rp)
			return
		}
		if v.Class != "not-closed" && v.ErrAt < len(mc.events) {
			p := mc.pos[mc.evTok[v.ErrAt]]
			if relName(res, res.Err.File) != p.file || res.Err.Line != p.kwLine {
				c.Violate("files:error-location", fmt.Sprintf("sequence [%s] over files: the offending token is at %s:%d, the error says %s:%d", key, p.file, p.kwLine, relName(res, res.Err.File), res.Err.Line), rp)
			}
		}
		if v.Class == "not-closed" && v.ErrAt < len(mc.events) {
			// the file that ends with its parenthesis open
			if relName(res, res.Err.File) != mc.evFile[v.ErrAt] {
				c.Violate("files:not-closed-file", fmt.Sprintf("sequence [%s] over files: %s ends with an open parenthesis, the error names %s", key, mc.evFile[v.ErrAt], relName(res, res.Err.File)), rp)
			}
		}
		if c.NeedSample() && v.Class == "not-closed" && v.ErrAt < len(mc.events) {
			c.Sample(map[string]interface{}{"sequence": labels, "files": filesAsStrings(j.Files), "reference": "not-closed at the end of " + mc.evFile[v.ErrAt], "observed": res.Err.Msg})
		}
	})
}

type flatNodeF struct {
	kind, file, parentFile string
	begin, parentBegin     int
}

func flattenF(nodes []*proto.Node, res *proto.Result, out *[]flatNodeF) {
	for _, n := range nodes {
		f := flatNodeF{kind: n.Kind, file: relName(res, n.File), begin: n.Begin}
		if !n.ParentIsNil {
			f.parentFile, f.parentBegin = relName(res, n.ParentFile), n.ParentBegin
		}
		*out = append(*out, f)
		flattenF(n.Children, res, out)
	}
}
