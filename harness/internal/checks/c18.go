package checks

import (
	"fmt"
	"os"
	"path/filepath"
	"regexp"
	"sort"
	"strings"

	"verifharness/internal/fw"
	"verifharness/internal/gen"
	"verifharness/internal/proto"
)

var reRaceFrame = regexp.MustCompile(`(?m)^\s+([A-Za-z0-9_./\-]+(?:\.\(\*?[A-Za-z0-9_\[\]., /*]+\))?\.[A-Za-z0-9_.]+(?:\[\.\.\.\])?)\(\)`)

// raceSignatures parses race-detector reports and returns the sorted pair of innermost non-runtime functions of each.
func raceSignatures(log string) (sigs []string, raw int) {
	blocks := strings.Split(log, "WARNING: DATA RACE")
	for _, b := range blocks[1:] {
		raw++
		if i := strings.Index(b, "=================="); i >= 0 {
			b = b[:i]
		}
		// the two accesses: "Read at"/"Write at"/"Previous read at"/"Previous write at" sections
		parts := regexp.MustCompile(`(?m)^(?:Read|Write|Previous read|Previous write|Atomic|Previous atomic)[^\n]*\n`).Split(b, -1)
		var inner []string
		for _, p := range parts[1:] {
			if j := strings.Index(p, "\n\n"); j >= 0 {
				p = p[:j]
			}
			fn := ""
			for _, m := range reRaceFrame.FindAllStringSubmatch(p, -1) {
				f := m[1]
				if strings.HasPrefix(f, "runtime.") || strings.HasPrefix(f, "sync.") || strings.HasPrefix(f, "sync/atomic.") || strings.HasPrefix(f, "internal/") {
					continue
				}
				fn = strings.TrimPrefix(strings.TrimPrefix(f, "github.com/jsightapi/"), "jsight-api-core/")
				break
			}
			if fn != "" {
				inner = append(inner, fn)
			}
			if len(inner) == 2 {
				break
			}
		}
		sort.Strings(inner)
		sigs = append(sigs, strings.Join(inner, "|"))
	}
	return sigs, raw
}

// C18 – concurrent builds and serialisations do not interfere (race detector + result comparison).
func C18(c *fw.Ctx) {
	batches := c.Pick(24, 240)
	c.Rule(fmt.Sprintf("%d batches, each one worker process built with -race: sequential baseline of 16 projects (all five accessors), then "+
		"3 rounds of 16 goroutines building and serialising different projects behind a start barrier with jitter at the lazy-initialisation "+
		"points, then every accepted project's catalog serialised by 8 goroutines at once; oracle = zero race reports and every concurrent "+
		"result equal to the baseline; distinct = distinct batches (project sets); non-trivial = batch with >= 8 accepted projects", batches))
	c.Assume("only interleavings produced by the scheduler plus jitter; the race detector sees only executed paths")
	pool := c.Pool(true, c.Pick(6, 8))
	corpus := Corpus(c)
	r := gen.Rng(c.Seed, c.ID, "conc")
	var tg [][]byte
	acceptedWorkload(c, 1, func(label string, j *proto.Job) {
		if label == "targeted" && len(tg) < 4000 {
			tg = append(tg, j.Files[j.Root])
		}
	})
	c.RunJobs(pool, func(emit func(*proto.Job)) {
		for b := 0; b < batches; b++ {
			cj := &proto.ConcJob{Goroutines: 16, Rounds: 3, SharedSer: 8, Seed: c.Seed*1000 + int64(b), Jitter: true}
			for len(cj.Projects) < 16 {
				if len(cj.Projects)%4 == 3 {
					cj.Projects = append(cj.Projects, proto.ConcProject{Name: fmt.Sprintf("tg%d.jst", len(cj.Projects)), Content: tg[r.Intn(len(tg))]})
					continue
				}
				p := corpus[r.Intn(len(corpus))]
				if p.HasInclude() {
					continue
				}
				cj.Projects = append(cj.Projects, proto.ConcProject{Name: p.Name, Content: p.RootContent()})
			}
			// a regex-heavy project in every batch: the lazily generated example is the classic shared state
			cj.Projects[0] = proto.ConcProject{Name: "regex.jst", Content: []byte("JSIGHT 0.3\nTYPE @r regex\n  /[a-z]{3}-\\d+/\nTYPE @o\n  {\"id\": @r}\nGET /a\n  200 @r\n  201 regex\n    /x+y/\n  202 @o\n")}
			// builds that share Option values (a caller that keeps its options in variables): the same macro document built with the
			// value ban(ENUM) alone, with ban(ENUM)+ban(MACRO), and with ban(TAG)+ban(ENUM); every build must be judged by its own set
			macroDoc := []byte("JSIGHT 0.3\nMACRO @m\n(\n  200 any\n)\nTYPE @t\n  {\"k\": 1}\nGET /a\n  PASTE @m\nGET /b\n  200 @t\n")
			cj.Projects[1] = proto.ConcProject{Name: "opt-enum.jst", Content: macroDoc, SharedBan: [][]string{{"ENUM"}}}
			cj.Projects[2] = proto.ConcProject{Name: "opt-enum-macro.jst", Content: macroDoc, SharedBan: [][]string{{"ENUM"}, {"MACRO"}}}
			cj.Projects[5] = proto.ConcProject{Name: "opt-tag-enum.jst", Content: macroDoc, SharedBan: [][]string{{"TAG"}, {"ENUM"}}}
			cj.Projects[6] = proto.ConcProject{Name: "opt-enum-type.jst", Content: macroDoc, SharedBan: [][]string{{"ENUM"}, {"TYPE"}}}
			// error paths are where a lock stays locked or a pooled buffer is not given back: projects whose export to OpenAPI returns
			// an error, a project that is rejected by a rule, one that is rejected by the scanner - every goroutine that comes after
			// them must still get its result
			cj.Projects[3] = proto.ConcProject{Name: "export-error-1.jst", Content: []byte("JSIGHT 0.3\nTYPE @t\n  {\"k\": 1}\nGET /c\n  200 any\n  200 empty\n  404 @t\n  500 [@t]\n  501 regex\n    /x/\n")}
			cj.Projects[7] = proto.ConcProject{Name: "export-error-2.jst", Content: []byte("JSIGHT 0.3\nGET /q\n  Query \"a=1\"\n    [1, 2]\n  200 any\nPOST /q\n  Query \"b=2\"\n    \"s\"\n  201 empty\n")}
			cj.Projects[12] = proto.ConcProject{Name: "rule-error.jst", Content: []byte("JSIGHT 0.3\nTYPE @t\n  {\"k\": 1}\nGET /a\n  200\n    {} // {or: [{type: \"object\"}, {type: \"array\"}]}\n")}
			cj.Projects[14] = proto.ConcProject{Name: "rule-error-2.jst", Content: []byte("JSIGHT 0.3\nTYPE @t\n  {\"k\": @undefined}\nGET /a\n  200 @t\n")}
			cj.Projects[13] = proto.ConcProject{Name: "scan-error.jst", Content: []byte("JSIGHT 0.3\nGET /a\n  200\n    {\"k\": \n")}
			// projects with INCLUDE, built from disk: the include machinery (scanner stack, file reads) runs concurrently too
			for slot := 8; slot < 12; {
				p := corpus[r.Intn(len(corpus))]
				if !p.HasInclude() {
					continue
				}
				cj.Projects[slot] = proto.ConcProject{Name: p.Name, Files: p.Files, Root: p.Root}
				slot++
			}
			// different projects whose user types have the same names and inherit from each other through allOf (every project has
			// its "@entity", "@named", "@base"): state that is kept per type *name* instead of per catalog shows when they are
			// serialised at the same time; the inheriting type stands before the inherited one, so the expansion is done late
			for k, slot := range []int{4, 10, 15} {
				cj.Projects[slot] = proto.ConcProject{Name: fmt.Sprintf("same-names-%d.jst", k), Content: []byte(fmt.Sprintf(
					"JSIGHT 0.3\nGET /e%d\n  200 @entity\n  404\n    { // {allOf: \"@named\"}\n      \"own%d\": %d\n    }\nTYPE @entity\n  { // {allOf: \"@named\"}\n    \"e%d\": %d\n  }\nTYPE @named\n  { // {allOf: \"@base\"}\n    \"name%d\": \"n\"\n  }\nTYPE @base\n  {\n    \"id%d\": %d\n  }\n",
					k, k, k, k, k, k, k, k))}
			}
			// every other batch is a cold start: a fresh process whose first use of the library is concurrent
			j := &proto.Job{ID: fmt.Sprintf("conc/batch-%d", b), Conc: cj}
			if b%2 == 1 {
				cj.ColdStart, j.Fresh = true, true
			}
			emit(j)
		}
	}, func(j *proto.Job, res *proto.Result) {
		if workerProblem(c, res) {
			return
		}
		if res.Fatal != nil {
			c.Violate("fatal:"+res.Fatal.Kind+":"+res.Fatal.Func, "race worker died: "+firstLines(res.Fatal.Stderr, 8), replayOf(j, res))
			return
		}
		cr := res.Conc
		if cr == nil {
			c.Inconclusive("no concurrency result")
			return
		}
		var names []string
		for _, p := range j.Conc.Projects {
			names = append(names, p.Name)
		}
		c.Count(strings.Join(names, ",")+fmt.Sprint(j.Conc.Seed), cr.Builds >= 8)
		c.Inc("observed", "concurrent_builds", cr.Builds)
		if j.Conc.ColdStart {
			c.Inc("observed", "cold_start_batches", 1)
		}
		c.Inc("observed", "concurrent_serialisations", cr.Sers)
		c.Inc("observed", "result_comparisons", cr.Comparisons)
		c.Inc("observed", "yield_points_hit", cr.Yields)
		for _, m := range cr.Mismatches {
			key := "other"
			if concMismatchIsD27(j, m) {
				c.Violate("mismatch:"+sigRegexExample, "concurrent result differs from the sequential one only in regex-type examples: "+m, replayOf(j, res))
				continue
			}
			switch {
			case strings.Contains(m, "\"example\""), strings.Contains(m, "example"):
				key = "example"
			case strings.HasPrefix(m, "build of"):
				key = "build"
			case strings.Contains(m, "openapi"):
				key = "openapi"
			}
			c.Violate("mismatch:"+key, "concurrent result differs from the sequential one: "+m, replayOf(j, res))
		}
		if c.NeedSample() {
			c.Sample(map[string]interface{}{"projects": names, "goroutines": 16, "rounds": 3, "shared_serialisers": 8, "builds": cr.Builds, "serialisations": cr.Sers})
		}
	})
	// race reports
	logs, _ := filepath.Glob(filepath.Join(c.Scratch, "race.log*"))
	rawTotal := 0
	distinct := map[string]int{}
	for _, lf := range logs {
		b, err := os.ReadFile(lf)
		if err != nil {
			continue
		}
		sigs, raw := raceSignatures(string(b))
		rawTotal += raw
		for _, s := range sigs {
			distinct[s]++
		}
		if raw > 0 {
			for s := range distinct {
				_ = s
			}
		}
	}
	for s, n := range distinct {
		var sample string
		for _, lf := range logs {
			b, _ := os.ReadFile(lf)
			if i := strings.Index(string(b), "WARNING: DATA RACE"); i >= 0 {
				sample = trunc(string(b[i:]), 2500)
				break
			}
		}
		c.Violate("race:"+s, fmt.Sprintf("%d data race report(s) between %s\n%s", n, s, sample), &fw.Replay{Observed: sample})
	}
	c.Extra("race_reports_raw", rawTotal)
	c.Extra("race_reports_distinct", len(distinct))
	if c.Hist("observed")["concurrent_builds"] < 100 {
		c.Inconclusive("fewer than 100 concurrent builds ran")
	}
	if c.Hist("observed")["yield_points_hit"] == 0 {
		c.Inconclusive("the yield hook never fired: hooks are compiled out")
	}
	c.Finish()
}
