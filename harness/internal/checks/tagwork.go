package checks

import (
	"fmt"
	"strings"

	"verifharness/internal/fw"
	"verifharness/internal/gen"
	"verifharness/internal/proto"
)

// tagWorkload: documents rich in Tags/TAG, URL grouping, shared path prefixes, Path directives, json-rpc methods,
// MACRO/PASTE and hostile variants (a tag named twice, a tag used by both protocols, several methods on one URL).
func tagWorkload(c *fw.Ctx, n int, emit emitFn) {
	r := gen.Rng(c.Seed, c.ID, "tags")
	segs := []string{"a", "b", "{id}", "{x}", "c_d", "e-f", "{y}", "v1"}
	for i := 0; i < n; i++ {
		var sb strings.Builder
		sb.WriteString("JSIGHT 0.3\n")
		ntags := r.Intn(4)
		tags := []string{}
		for t := 0; t < ntags; t++ {
			name := fmt.Sprintf("@g%d", t)
			if r.Intn(2) == 0 {
				// a declared tag with the name that a path gives to its own tag (first segment): one catalog entry serves both
				name = []string{"@a", "@b", "@v1", "@c__d", "@e-f"}[(t+i)%5]
			}
			tags = append(tags, name)
			sb.WriteString("TAG " + name)
			if r.Intn(2) == 0 {
				sb.WriteString(" // title " + name)
			}
			sb.WriteString("\n")
			if r.Intn(3) == 0 {
				sb.WriteString("  Description\n    about " + name + "\n")
			}
		}
		if r.Intn(3) == 0 {
			sb.WriteString("TYPE @t\n  {\"k\": 1}\n")
		}
		useMacro := r.Intn(4) == 0
		if useMacro {
			sb.WriteString("MACRO @resp\n(\n  200 any\n  404 empty\n)\n")
		}
		tagsLine := func(indent string) {
			if len(tags) == 0 || r.Intn(2) == 0 {
				return
			}
			k := 1 + r.Intn(len(tags))
			sb.WriteString(indent + "Tags")
			for q := 0; q < k; q++ {
				sb.WriteString(" " + tags[r.Intn(len(tags))]) // may repeat a name
			}
			sb.WriteString("\n")
		}
		used := map[string]bool{}
		nres := 1 + r.Intn(4)
		for u := 0; u < nres; u++ {
			depth := 1 + r.Intn(3)
			var ps []string
			seen := map[string]bool{}
			for d := 0; d < depth; d++ {
				s := segs[r.Intn(len(segs))]
				if strings.HasPrefix(s, "{") && seen[s] {
					s = "z"
				}
				seen[s] = true
				ps = append(ps, s)
			}
			path := "/" + strings.Join(ps, "/")
			params := []string{}
			for _, s := range ps {
				if strings.HasPrefix(s, "{") {
					params = append(params, strings.Trim(s, "{}"))
				}
			}
			pathDir := func(indent string) {
				if len(params) == 0 || r.Intn(2) == 0 {
					return
				}
				sb.WriteString(indent + "Path\n" + indent + "  {")
				k := 1 + r.Intn(len(params))
				for q := 0; q < k; q++ {
					if q > 0 {
						sb.WriteString(", ")
					}
					sb.WriteString(fmt.Sprintf("%q: %d", params[q], q+1))
				}
				sb.WriteString("}\n")
			}
			switch r.Intn(3) {
			case 0: // URL group with several methods
				sb.WriteString("URL " + path + "\n")
				pathDir("  ")
				for _, m := range []string{"GET", "POST", "DELETE"} {
					if r.Intn(2) == 0 || used[m+path] {
						continue
					}
					used[m+path] = true
					sb.WriteString("  " + m + "\n")
					tagsLine("    ")
					if useMacro && r.Intn(2) == 0 {
						sb.WriteString("    PASTE @resp\n")
					} else {
						sb.WriteString("    200 any\n")
					}
				}
			case 1: // stand-alone method
				m := []string{"GET", "PUT", "PATCH"}[r.Intn(3)]
				if used[m+path] {
					continue
				}
				used[m+path] = true
				sb.WriteString(m + " " + path + "\n")
				tagsLine("  ")
				pathDir("  ")
				sb.WriteString("  200 @t\n")
				if r.Intn(3) != 0 {
					sb.WriteString("TYPE @t" + fmt.Sprint(u) + "\n  {\"k\": 1}\n")
				}
			case 2: // json-rpc
				if used["rpc"+path] {
					continue
				}
				used["rpc"+path] = true
				sb.WriteString("URL " + path + "\n  Protocol json-rpc-2.0\n")
				for q := 0; q < 1+r.Intn(2); q++ {
					sb.WriteString(fmt.Sprintf("  Method m%d\n", q))
					tagsLine("    ")
					if r.Intn(2) == 0 {
						sb.WriteString("    Params\n      {\"p\": 1}\n")
					}
				}
			}
		}
		emit("tags", &proto.Job{ID: fmt.Sprintf("tg-%d", i), Root: "root.jst", Files: map[string][]byte{"root.jst": []byte(sb.String())}, InMemory: true})
	}
}
