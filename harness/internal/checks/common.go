package checks

import (
	"fmt"
	"regexp"
	"strings"
	"sync"

	"verifharness/internal/fw"
	"verifharness/internal/proto"
	"verifharness/internal/ref"
)

// crashSig returns a signature if the result shows a crash (panic caught in the worker or a dead worker).
func crashSig(res *proto.Result) (sig, what string) {
	switch {
	case res.Fatal != nil:
		return fmt.Sprintf("fatal:%s:%s", res.Fatal.Kind, res.Fatal.Func),
			fmt.Sprintf("worker process died (%s) in %s: %s", res.Fatal.Kind, res.Fatal.Func, firstLines(res.Fatal.Stderr, 6))
	case res.Panic != nil:
		return fmt.Sprintf("panic:%s:%s:%s", res.Panic.Stage, res.Panic.Func, res.Panic.Kind),
			fmt.Sprintf("panic in %s (%s): %s; stack: %s", res.Panic.Func, res.Panic.Kind, res.Panic.Value, strings.Join(res.Panic.Stack, " < "))
	}
	return "", ""
}

func firstLines(s string, n int) string {
	ls := strings.Split(s, "\n")
	if len(ls) > n {
		ls = ls[:n]
	}
	return strings.Join(ls, " | ")
}

func replayOf(j *proto.Job, res *proto.Result) *fw.Replay {
	return &fw.Replay{Jobs: []*proto.Job{j}, Results: []interface{}{res}}
}

// workerProblem reports harness-side failures as inconclusive, never as a verdict.
func workerProblem(c *fw.Ctx, res *proto.Result) bool {
	if res.WorkerErr != "" {
		c.Inconclusive("worker: " + res.WorkerErr)
		return true
	}
	return false
}

type strSet struct {
	mu sync.Mutex
	m  map[string]struct{}
}

func newStrSet() *strSet { return &strSet{m: map[string]struct{}{}} }
func (s *strSet) add(k string) {
	s.mu.Lock()
	s.m[k] = struct{}{}
	s.mu.Unlock()
}
func (s *strSet) addAll(ks []string) {
	s.mu.Lock()
	for _, k := range ks {
		s.m[k] = struct{}{}
	}
	s.mu.Unlock()
}
func (s *strSet) len() int { s.mu.Lock(); defer s.mu.Unlock(); return len(s.m) }
func (s *strSet) has(k string) bool {
	s.mu.Lock()
	defer s.mu.Unlock()
	_, ok := s.m[k]
	return ok
}

func jobKey(j *proto.Job) string {
	var sb strings.Builder
	sb.WriteString(j.Root)
	sb.WriteByte(0)
	if len(j.Files) == 1 {
		for _, v := range j.Files {
			sb.Write(v)
		}
		return sb.String()
	}
	names := make([]string, 0, len(j.Files))
	for k := range j.Files {
		names = append(names, k)
	}
	sortStrings(names)
	for _, k := range names {
		sb.WriteString(k)
		sb.WriteByte(0)
		sb.Write(j.Files[k])
		sb.WriteByte(0)
	}
	for _, b := range j.Banned {
		sb.WriteString("ban:" + b)
	}
	return sb.String()
}

func sortStrings(s []string) {
	for i := 1; i < len(s); i++ {
		for j := i; j > 0 && s[j] < s[j-1]; j-- {
			s[j], s[j-1] = s[j-1], s[j]
		}
	}
}

// msgClass collapses an error message into its class (see DESIGN §1).
func msgClass(msg string) string {
	l := strings.ToLower(msg)
	for _, p := range []string{"invalid character", "invalid end of file", "unexpected end of file", "not found boundary end symbols", "unexpected character", "unexpected symbol"} {
		if strings.Contains(l, p) {
			return "syntax"
		}
	}
	return strings.Join(strings.Fields(msg), " ")
}

func sampleDoc(b []byte) string {
	s := string(b)
	if len(s) > 400 {
		s = s[:400] + "…"
	}
	return s
}

var maxMuLock sync.Mutex

func truncKey(s string, n int) string {
	if len(s) > n {
		return s[:n] + "…"
	}
	return s
}

// errKey: a short, bounded key for histograms of error messages (the text up to the first quoted or bracketed detail).
func errKey(msg string) string {
	c := msgClass(msg)
	for i := 0; i < len(c); i++ {
		if c[i] == '"' || c[i] == '(' || c[i] == '\'' || c[i] == '`' || c[i] == ':' {
			c = c[:i]
			break
		}
	}
	return truncKey(strings.TrimSpace(c), 48)
}

// Known finding D27 (see DESIGN §5): jsight-schema-core snapshots the example of a regex user type every time the type is
// added to a schema (each call advances a per-type generator). A schema that reaches the regex type both directly and
// through another user type holds two snapshots, and which one its example shows is decided by map order: the "example"
// strings embedded in a catalog can differ from build to build. Everything else in the catalog is stable.
// regexUnionProject recognises the input class (a project with a regex TYPE); exampleOnlyDiff the symptom.
func regexUnionProject(files map[string][]byte) bool {
	for _, b := range files {
		if reRegexType.Match(b) {
			return true
		}
	}
	return false
}

var reRegexType = regexp.MustCompile(`TYPE[ \t]+"?@[^ \t\r\n]+[ \t]+"?regex`)

const sigRegexExample = "regex-type-example-snapshot"

// exampleOnlyDiff: two catalogs of a regex+union project that differ only inside "example" strings.
func exampleOnlyDiff(a, b []byte, files map[string][]byte) bool {
	return regexUnionProject(files) && ref.OnlyExamplesDiffer(a, b)
}

// concMismatchIsD27: a mismatch line of a concurrent batch that says "only examples differ" and names a project with a regex TYPE.
func concMismatchIsD27(j *proto.Job, m string) bool {
	if !strings.HasPrefix(m, "only-examples:") || j.Conc == nil {
		return false
	}
	files := map[string][]byte{}
	for _, p := range j.Conc.Projects {
		if strings.Contains(m, " of "+p.Name+":") {
			files[p.Name] = p.Content
			for n, b := range p.Files {
				files[p.Name+"/"+n] = b
			}
		}
	}
	return regexUnionProject(files)
}

// onlyOneSerialises: the first of two builds that must give the same catalog was serialised, the second one was not (its
// accessor returned an error or panicked): "the same catalog" needs a catalog. Returns a signature suffix and a description.
func onlyOneSerialises(a, b *proto.Output) (sig, what string) {
	if a == nil || a.Bytes == nil || b == nil {
		return "", ""
	}
	if s, w := outProblem(b); s != "" {
		return s, w
	}
	return "", ""
}
