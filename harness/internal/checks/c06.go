package checks

import (
	"fmt"
	"strings"

	"verifharness/internal/fw"
	"verifharness/internal/gen"
	"verifharness/internal/model"
	"verifharness/internal/proto"
)

// multiFault: documents with several simultaneous faults of one class, so that every map-iterating error path has >= 2 candidates.
func multiFault(c *fw.Ctx, n int, emit emitFn) {
	r := gen.Rng(c.Seed, c.ID, "multifault")
	for i := 0; i < n; i++ {
		var sb strings.Builder
		sb.WriteString("JSIGHT 0.3\n")
		k := 2 + r.Intn(4)
		class := r.Intn(13)
		if i%3 == 0 {
			class = 13
		}
		if i%17 == 1 {
			class = 14
		}
		if i%29 == 2 {
			class = 15
		}
		if i%31 == 3 {
			class = 16
		}
		switch class {
		case 16: // string literals that hold a dot together with escapes only JSON knows (\/ and surrogate pairs), digits, signs: every
			// place where the kind of a literal is guessed from its text (ENUM values, enum rules, examples)
			lits := []string{`"http:\/\/a.b\/0.5"`, `"\uD83D\uDE00 v1.0"`, `"a.b"`, `"1.5"`, `"x\/y.z"`, `"-0.5"`, `".5"`, `"5."`, `"1.2.3"`, `"\u0031.\u0035"`, `"q\"1.2\""`, `"tab\t.x"`}
			r.Shuffle(len(lits), func(a, b int) { lits[a], lits[b] = lits[b], lits[a] })
			n := 3 + k
			if n > len(lits) {
				n = len(lits)
			}
			sb.WriteString("ENUM @lit\n[\n  " + strings.Join(lits[:n], ",\n  ") + "\n]\nTYPE @uses\n{\n  \"v\": " + lits[0] + ", // {enum: @lit}\n  \"w\": " + lits[1] + " // {enum: [" + lits[1] + ", " + lits[2] + "]}\n}\nGET /lit\n  200 @uses\n")
		case 15: // header, query and property names that differ only in blanks or letter case (valid document; exporters key maps by name)
			names := []string{"X-Id", "X-Id ", " X-Id", "x-id", "X-ID", "X-Id\\t", "X_Id"}
			r.Shuffle(len(names), func(a, b int) { names[a], names[b] = names[b], names[a] })
			var props []string
			for q := 0; q < k+1 && q < len(names); q++ {
				props = append(props, fmt.Sprintf("\"%s\": \"v%d\"", names[q], q))
			}
			obj := "{" + strings.Join(props, ", ") + "}"
			sb.WriteString("GET /h\n  200\n    Headers\n      " + obj + "\n    Body\n      " + obj + "\nPOST /h\n  Request\n    Headers\n      " + obj + "\n    Body any\n  200 any\n")
		case 14: // an accepted document in which several response codes cannot be exported to OpenAPI, for different reasons
			sb.WriteString("GET /a\n")
			codes := r.Perm(6)
			for q := 0; q < k && q < 6; q++ {
				code := 200 + codes[q]
				switch r.Intn(3) {
				case 0:
					sb.WriteString(fmt.Sprintf("  %d empty\n  %d any\n", code, code))
				case 1:
					sb.WriteString(fmt.Sprintf("  %d\n    {} // {additionalProperties: \"decimal\"}\n", code))
				default:
					sb.WriteString(fmt.Sprintf("  %d empty\n  %d\n    {\"a\": %d}\n", code, code, q))
				}
			}
		case 13: // a random reference graph of user types (cycles likely) where several types carry a fault of their own
			nt := 3 + r.Intn(4)
			faults := map[int]int{}
			for len(faults) < 2+r.Intn(2) {
				faults[r.Intn(nt)] = r.Intn(7)
			}
			sb.WriteString("TYPE @scalar\n  12 // {min: 1}\n")
			for q := 0; q < nt; q++ {
				var props []string
				nrefs := 1 + r.Intn(3)
				for x := 0; x < nrefs; x++ {
					to := r.Intn(nt)
					switch r.Intn(6) {
					case 0:
						props = append(props, fmt.Sprintf("\"r%d\": [@t%d]", x, to))
					case 1:
						props = append(props, fmt.Sprintf("\"r%d\": @t%d | @scalar", x, to))
					case 2:
						props = append(props, fmt.Sprintf("\"r%d\": @t%d // {optional: true}", x, to))
					case 3:
						props = append(props, fmt.Sprintf("\"r%d\": {} // {type: \"@t%d\"}", x, to))
					default:
						props = append(props, fmt.Sprintf("\"r%d\": @t%d", x, to))
					}
				}
				head := "{"
				if f, ok := faults[q]; ok {
					switch f {
					case 0:
						props = append(props, fmt.Sprintf("\"x\": 1 // {min: %d}", 5+q))
					case 1:
						props = append(props, fmt.Sprintf("\"x\": \"s%d\" // {type: \"integer\"}", q))
					case 2:
						props = append(props, fmt.Sprintf("\"x\": @undefined%d", q))
					case 3:
						head = "{ // {allOf: \"@scalar\"}"
					case 4:
						props = append(props, fmt.Sprintf("\"x\": \"abc\" // {maxLength: %d}", q%3))
					case 5:
						props = append(props, fmt.Sprintf("\"x\": 5 // {enum: [%d, 99]}", 6+q))
					case 6:
						props = append(props, fmt.Sprintf("\"x\": 1, \"x\": %d", q))
					}
				}
				r.Shuffle(len(props), func(a, b int) { props[a], props[b] = props[b], props[a] })
				sb.WriteString(fmt.Sprintf("TYPE @t%d\n%s\n", q, head))
				for x, pr := range props {
					// the comma goes before a trailing annotation
					ann := ""
					if k := strings.Index(pr, " //"); k >= 0 {
						pr, ann = pr[:k], pr[k:]
					}
					if x < len(props)-1 {
						pr += ","
					}
					sb.WriteString("  " + pr + ann + "\n")
				}
				sb.WriteString("}\n")
			}
			if r.Intn(2) == 0 {
				sb.WriteString(fmt.Sprintf("GET /g\n  200 @t%d\n  201\n    {\"a\": @t%d, \"b\": @t%d}\n", r.Intn(nt), r.Intn(nt), r.Intn(nt)))
			}
		case 0: // several self-recursive macros
			for q := 0; q < k; q++ {
				sb.WriteString(fmt.Sprintf("MACRO @m%d\n(\n  TYPE @t%d any\n  PASTE @m%d\n)\n", q, q, q))
			}
		case 1: // several unused Path parameters
			sb.WriteString("GET /a/{id}\n  Path\n    {\"id\": 1")
			for q := 0; q < k; q++ {
				sb.WriteString(fmt.Sprintf(", \"extra%d\": %d", q, q))
			}
			sb.WriteString("}\n  200 any\n")
		case 2: // several undefined types in several types
			for q := 0; q < k; q++ {
				sb.WriteString(fmt.Sprintf("TYPE @t%d\n  {\"a\": @missing%d, \"b\": @gone%d}\n", q, q, q))
			}
		case 3: // several bad enums
			for q := 0; q < k; q++ {
				sb.WriteString(fmt.Sprintf("ENUM @e%d\n  [1, 1]\n", q))
			}
			sb.WriteString("TYPE @t\n  {\"a\": 1 // {enum: @e0}\n  }\n")
		case 4: // macro cycles of different lengths
			for q := 0; q < k; q++ {
				sb.WriteString(fmt.Sprintf("MACRO @c%d\n(\n  TYPE @x%d any\n  PASTE @c%d\n)\n", q, q, (q+1)%k))
			}
			if r.Intn(2) == 0 {
				sb.WriteString("PASTE @c0\n")
			}
		case 5: // types that use enums and each other, with rule mismatch in several
			sb.WriteString("ENUM @e\n  [\"a\", \"b\"]\nENUM @f\n  [1, 2]\n")
			for q := 0; q < k; q++ {
				sb.WriteString(fmt.Sprintf("TYPE @t%d\n  {\"a\": \"zzz\" // {enum: @e}\n  , \"n\": @t%d}\n", q, (q+1)%k))
			}
		case 6: // recursive types where one has an undefined member of a union (schema-core walks a map of types)
			sb.WriteString("TYPE @r0\n{\n  \"self\": @r0, // {optional: true}\n  \"next\": @r1,\n  \"u\": @nope | @r1\n}\n")
			for q := 1; q < k; q++ {
				sb.WriteString(fmt.Sprintf("TYPE @r%d\n{\n  \"back\": @r%d // {optional: true}\n}\n", q, q-1))
			}
		case 7: // several Path directives with unused params on several methods
			for q := 0; q < k; q++ {
				sb.WriteString(fmt.Sprintf("GET /p%d/{id}\n  Path\n    {\"id\": 1, \"u%d\": 2, \"v%d\": 3}\n  200 any\n", q, q, q))
			}
		case 8: // similar paths, several
			for q := 0; q < k; q++ {
				sb.WriteString(fmt.Sprintf("GET /s/{a%d}\n  200 any\n", q))
			}
		case 9: // duplicate names of several kinds
			for q := 0; q < k; q++ {
				sb.WriteString(fmt.Sprintf("TYPE @d%d any\nSERVER @s%d\n  BaseUrl \"http://x\"\n", q%2, q%2))
			}
		case 10: // several undefined tags / responses with unknown types
			sb.WriteString("GET /t\n  Tags @a @b @c\n  200 @q\n  201 @w\n  202 [@e]\n")
		case 12: // a regex type used by several types and through a union (valid document)
			sb.WriteString("TYPE @rx regex\n  /[a-z]{3}-[0-9]{2}/\n")
			for q := 0; q < k; q++ {
				sb.WriteString(fmt.Sprintf("TYPE @u%d\n  {\n    \"k\": [\n      @rx\n    ]\n  }\n", q))
			}
			sb.WriteString("GET /u\n  200\n    {\n      \"v\": @u0 | @rx\n    }\n  201 @u0\n  202 [@rx]\n")
		case 11: // allOf of several undefined / non-object types
			sb.WriteString("TYPE @o\n  { // {allOf: [\"@x1\", \"@x2\", \"@x3\"]}\n  }\nTYPE @x2 any\n")
		}
		emit("multifault", singleJob(fmt.Sprintf("mf-%d-%d", class, i), []byte(sb.String()), false))
	}
}

// C06 – same project, same result.
func C06(c *fw.Ctx) {
	reps := c.Pick(12, 40)
	c.Rule(fmt.Sprintf("every project is built %d times in one worker process (Go re-randomises each map iteration) and again in two other fresh "+
		"worker processes; ToJson bytes / the full error tuple (message, file, index, line, column, quote, Error()) and the OpenAPI bytes must be "+
		"identical. Projects: corpus, light mutants, targeted documents and multi-fault documents (2-5 simultaneous faults of one class; every third one a random reference graph of 3-6 user types - references, arrays, unions, optional, type rule naming a user type, cycles likely - in which 2-3 types carry a fault of their own: value, type, undefined name, allOf of a scalar, maxLength, enum, duplicate key); "+
		"distinct = distinct project bytes; non-trivial = the project was built at least 2x%d times and compared", reps, reps))
	c.Assume("address dependence is sampled by 3 processes with ASLR on; time dependence is not separately provoked")
	pool := c.Pool(false, 0)
	type first struct {
		sig  string
		n    int
		json []byte
	}
	seen := map[string]*first{}
	c.RunJobs(pool, func(emit func(*proto.Job)) {
		e := func(label string, j *proto.Job) {
			for proc := 0; proc < 3; proc++ {
				jj := *j
				jj.ID = fmt.Sprintf("%s/%s#%d", label, j.ID, proc)
				jj.Ops = []string{"json", "openapi"}
				jj.Repeat = reps
				if proc > 0 {
					jj.Repeat = 2
				}
				emit(&jj)
			}
		}
		acceptedWorkload(c, c.Pick(1, 8), e)
		multiFault(c, c.Pick(3000, 60000), e)
		faultyTypeCycles(e)
		macroGraphs(c, e)
		// builds that reuse Option values: [A], [A,B], [A] in one process - the first and the third build are the same project with the
		// same options and must give the same result
		for i, t := range []struct{ doc, a, b string }{
			{"JSIGHT 0.3\nMACRO @m\n(\n  200 any\n)\nGET /a\n  PASTE @m\n", "ENUM", "MACRO"},
			{"JSIGHT 0.3\nTYPE @t\n  {\"k\": 1}\nGET /a\n  200 @t\n", "TAG", "TYPE"},
			{"JSIGHT 0.3\nURL /a\n  GET\n    200 any\n", "MACRO", "URL"},
			{"JSIGHT 0.3\nENUM @e\n  [1]\nGET /a\n  Description\n    text\n  200 any\n", "SERVER", "Description"},
		} {
			j := singleJob(fmt.Sprintf("optreuse-%d", i), []byte(t.doc), false)
			j.ID = "optreuse/" + j.ID
			j.Ops = []string{"json", "openapi"}
			j.Fresh = true
			j.OptSeq = [][][]string{{{t.a}}, {{t.a}, {t.b}}, {{t.a}}, {{t.b}, {t.a}}, {{t.a}}}
			emit(j)
		}
		// "concurrently with other builds", including the very first use of the library in a process: fresh worker processes
		// whose first action is 32 simultaneous builds; the sequential results are computed afterwards and compared
		corpus := Corpus(c)
		cr := gen.Rng(c.Seed, c.ID, "cold")
		for i := 0; i < c.Pick(48, 600); i++ {
			cj := &proto.ConcJob{ColdStart: true, Goroutines: 32, Rounds: 1, Seed: c.Seed*100 + int64(i)}
			for len(cj.Projects) < 8 {
				p := corpus[cr.Intn(len(corpus))]
				if !p.HasInclude() {
					cj.Projects = append(cj.Projects, proto.ConcProject{Name: p.Name, Content: p.RootContent()})
				}
			}
			emit(&proto.Job{ID: fmt.Sprintf("cold/%d", i), Conc: cj, Fresh: true})
		}
		// ... and in a process that is warm: 8 rounds of 32 goroutines that build and serialise 8 projects (corpus documents and
		// rendered models, whose schemas have object and array examples) behind a barrier, then every catalog serialised by 8
		// goroutines at once; compared with the results of the same builds alone
		sr := gen.Rng(c.Seed, c.ID, "steady")
		for i := 0; i < c.Pick(16, 200); i++ {
			cj := &proto.ConcJob{Goroutines: 32, Rounds: 8, SharedSer: 8, Seed: c.Seed*1000 + int64(i)}
			for len(cj.Projects) < 8 {
				if len(cj.Projects)%2 == 0 {
					m := model.Generate(sr, model.QuickSize)
					l := model.RandomLayout(sr)
					l.Includes = false
					rd := m.Render(l)
					cj.Projects = append(cj.Projects, proto.ConcProject{Name: fmt.Sprintf("model-%d-%d", i, len(cj.Projects)), Content: rd.Files[rd.Root]})
					continue
				}
				p := corpus[sr.Intn(len(corpus))]
				if !p.HasInclude() {
					cj.Projects = append(cj.Projects, proto.ConcProject{Name: p.Name, Content: p.RootContent()})
				}
			}
			emit(&proto.Job{ID: fmt.Sprintf("steady/%d", i), Conc: cj})
		}
	}, func(j *proto.Job, res *proto.Result) {
		if workerProblem(c, res) {
			return
		}
		label := j.ID[:strings.Index(j.ID, "/")]
		if label == "optreuse" {
			c.Count(j.ID, true)
			c.Inc("streams", "option-values-reused", 1)
			if res.Fatal != nil {
				c.Violate("fatal:"+res.Fatal.Kind+":"+res.Fatal.Func, "worker died during the option-reuse sequence: "+firstLines(res.Fatal.Stderr, 4), replayOf(j, res))
				return
			}
			if s := res.OptSigs; len(s) == 5 && (s[0] != s[2] || s[0] != s[4]) {
				c.Violate("nondeterministic:reused-option-value", fmt.Sprintf("the same project with the same option value gives another result after an unrelated build: %s  VS  %s  VS  %s", trunc(s[0], 160), trunc(s[2], 160), trunc(s[4], 160)), replayOf(j, res))
			}
			return
		}
		if label == "cold" || label == "steady" {
			c.Count(j.ID+fmt.Sprint(j.Conc.Seed), true)
			c.Inc("streams", map[string]string{"cold": "cold-start-concurrent-first-use", "steady": "concurrent-rounds-in-a-warm-process"}[label], 1)
			if res.Fatal != nil {
				c.Violate("fatal:"+res.Fatal.Kind+":"+res.Fatal.Func, "concurrent first use of the library in a fresh process killed it: "+firstLines(res.Fatal.Stderr, 6), replayOf(j, res))
				return
			}
			if res.Conc != nil {
				c.Inc("builds_compared", map[string]string{"cold": "cold-start", "steady": "concurrent-rounds"}[label], res.Conc.Builds)
				for _, m := range res.Conc.Mismatches {
					if concMismatchIsD27(j, m) {
						c.Violate("nondeterministic:"+sigRegexExample, m, replayOf(j, res))
						continue
					}
					if label == "steady" {
						c.Violate("nondeterministic:concurrent-builds", "a build or serialisation that ran concurrently with others differs from the same one alone: "+m, replayOf(j, res))
						continue
					}
					c.Violate("nondeterministic:concurrent-first-use", "a build that ran concurrently with the first use of the library differs from the same build alone: "+m, replayOf(j, res))
				}
			}
			return
		}
		base := j.ID[:strings.LastIndex(j.ID, "#")]
		if sig, _ := crashSig(res); sig != "" && res.Fatal != nil {
			c.Count(jobKey(j), false)
			return
		}
		c.Count(jobKey(j), true)
		c.Inc("streams", label, 1)
		c.Inc("builds_compared", label, j.Repeat)
		for _, d := range res.Diffs {
			what := d.What
			if strings.HasPrefix(what, "out:") {
				what = "output-" + strings.TrimPrefix(what, "out:")
			}
			sig := "nondeterministic:" + what
			if d.OnlyExamples && regexUnionProject(j.Files) {
				sig = "nondeterministic:" + sigRegexExample
			}
			if d.What == "err" && res.Err != nil {
				sig += ":" + strings.ReplaceAll(errKey(res.Err.Msg), " ", "-")
			}
			c.Violate(sig, fmt.Sprintf("run %d differs from run 0 in %s: %s  VS  %s", d.Iter, d.What, d.First, d.Other), replayOf(j, res))
		}
		// across processes
		s := fmt.Sprintf("%v|", res.Accepted)
		if res.Err != nil {
			e := res.Err
			s += fmt.Sprintf("%q|%s|%d|%d|%d|%q|%q", e.Msg, relName(res, e.File), e.Index, e.Line, e.Column, e.Quote, strings.ReplaceAll(e.ErrorStr, res.Dir+"/", ""))
		}
		if res.Panic != nil {
			s += "panic:" + res.Panic.Func
		}
		var jsonBytes []byte
		for _, o := range res.Outputs {
			s += "|" + o.Op + "=" + string(o.Bytes) + o.Err
			if o.Op == "json" {
				jsonBytes = o.Bytes
			}
			if o.Panic != nil {
				s += "panic:" + o.Panic.Func
			}
		}
		maxMuLock.Lock()
		f := seen[base]
		if f == nil {
			seen[base] = &first{sig: s, n: 1, json: jsonBytes}
		} else {
			f.n++
			if f.sig != s {
				maxMuLock.Unlock()
				sig := "nondeterministic:across-processes"
				if jsonBytes != nil && f.json != nil && exampleOnlyDiff(f.json, jsonBytes, j.Files) {
					sig = "nondeterministic:" + sigRegexExample
				}
				if res.Err != nil {
					sig += ":" + strings.ReplaceAll(errKey(res.Err.Msg), " ", "-")
				}
				c.Violate(sig, fmt.Sprintf("two processes disagree: %s  VS  %s", trunc(f.sig, 500), trunc(s, 500)), replayOf(j, res))
				maxMuLock.Lock()
			}
			if f.n == 3 {
				delete(seen, base)
			}
		}
		maxMuLock.Unlock()
		if c.NeedSample() && label == "multifault" && res.Err != nil {
			c.Sample(map[string]interface{}{"document": sampleDoc(j.Files[j.Root]), "error": res.Err.Msg, "line": res.Err.Line, "repeats": j.Repeat})
		}
	})
	c.Finish()
}

// faultyTypeCycles: four user types in a legal cycle (every reference optional): @f1 -> @f2 -> @u -> @t -> @f1, @u and @t also name
// @f1 and @f2; two of the four have a fault of their own (a value below its min). Which of the two faults is reported must not
// change from build to build - whatever the order of the declarations (all 24) and whichever two types are faulty (6 pairs): the
// types are assembled in the order of their declarations, and a type that is finished while types it holds are not yet finished is
// where an error found "inside an unfinished type" has to be left to that type (D29, D37, round 10).
func faultyTypeCycles(emit emitFn) {
	names := []string{"f1", "f2", "u", "t"}
	refs := map[string][]string{"f1": {"f2"}, "f2": {"u"}, "u": {"t", "f1", "f2"}, "t": {"f1", "f2"}}
	perms := [][]int{}
	var rec func(cur []int, used int)
	rec = func(cur []int, used int) {
		if len(cur) == 4 {
			perms = append(perms, append([]int(nil), cur...))
			return
		}
		for i := 0; i < 4; i++ {
			if used&(1<<uint(i)) == 0 {
				rec(append(cur, i), used|1<<uint(i))
			}
		}
	}
	rec(nil, 0)
	n := 0
	for a := 0; a < 4; a++ {
		for b := a + 1; b < 4; b++ {
			for _, p := range perms {
				var sb strings.Builder
				sb.WriteString("JSIGHT 0.3\n")
				for _, i := range p {
					nm := names[i]
					sb.WriteString("TYPE @" + nm + "\n{\n")
					for k, r := range refs[nm] {
						sb.WriteString(fmt.Sprintf("  \"r%d\": @%s, // {optional: true}\n", k, r))
					}
					switch i {
					case a:
						sb.WriteString("  \"x\": 5 // {min: 10}\n")
					case b:
						sb.WriteString("  \"y\": 6 // {min: 20}\n")
					default:
						sb.WriteString("  \"z\": 1\n")
					}
					sb.WriteString("}\n")
				}
				sb.WriteString("GET /u\n  200 @u\n")
				n++
				emit("faulty-type-cycle", singleJob(fmt.Sprintf("ftc-%d", n), []byte(sb.String()), false))
			}
		}
	}
}
