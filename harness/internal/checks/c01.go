package checks

import (
	"fmt"

	"verifharness/internal/fw"
	"verifharness/internal/proto"
)

// C01 – building is total.
func C01(c *fw.Ctx) {
	c.Level = "exploration"
	c.Rule("hostile byte strings (corpus truncations, 1-4 stacked mutations, dictionary strings, EOL/NUL/UTF-8 variants, " +
		"all 1- and 2-byte files in the thorough tier), all MACRO/PASTE digraphs on <=3 macros + chains/cycles up to 8, all INCLUDE " +
		"digraphs on <=3 files + sampled 4-5 file graphs + hostile targets, missing/empty/directory root; distinct = distinct project bytes; " +
		"non-trivial = the scanner consumed at least one byte or the root could not be read")
	c.Assume("termination is observed under a generous watchdog (60 s per case, isolated re-run 300 s), not proved",
		"inputs are at most 64 KiB", "scanner work is measured in calls of the state function (hook), bound 3*len+64 per scanned file")
	pool := c.Pool(false, 0)
	states := newStrSet()
	scale := c.Pick(3, 30)
	var maxMu = &struct{ v float64 }{}

	c.RunJobs(pool, func(emit func(*proto.Job)) {
		e := func(label string, j *proto.Job) {
			j.WantSteps = true
			j.WantFiles = true
			j.ID = label + "/" + j.ID
			emit(j)
		}
		hostileBytes(c, scale, e)
		acceptedWorkload(c, c.Pick(1, 10), e)
		macroGraphs(c, e)
		includeGraphs(c, c.Pick(300, 20000), e)
		if !c.Quick() {
			tinyFiles(e)
		}
	}, func(j *proto.Job, res *proto.Result) {
		label := j.ID
		for i := 0; i < len(label); i++ {
			if label[i] == '/' {
				label = label[:i]
				break
			}
		}
		if workerProblem(c, res) {
			return
		}
		nontrivial := res.Steps != nil && len(res.Steps.PerFile) > 0 || res.Err != nil
		c.Count(jobKey(j), nontrivial)
		c.Inc("streams", label, 1)
		if sig, what := crashSig(res); sig != "" {
			c.Violate(sig, what, replayOf(j, res))
			c.Inc("verdicts", "crash", 1)
			return
		}
		if res.Accepted {
			c.Inc("verdicts", "accepted", 1)
		} else {
			c.Inc("verdicts", "rejected", 1)
			e := res.Err
			switch {
			case e == nil:
				c.Violate("unstructured:nil-error", "build neither accepted nor returned an error", replayOf(j, res))
			case e.FileNil:
				c.Violate("unstructured:nil-file", "error without a file: "+e.Msg, replayOf(j, res))
			case e.Msg == "":
				c.Violate("unstructured:empty-message", "error with an empty message", replayOf(j, res))
			case e.ErrorPanic != "":
				c.Violate("unstructured:error-method-panics", "Error() panics: "+e.ErrorPanic, replayOf(j, res))
			}
			if e != nil {
				c.Inc("error_classes", errKey(e.Msg), 1)
			}
		}
		if res.Steps != nil {
			states.addAll(res.Steps.States)
			// a file may be scanned several times (included from several places): the bound is per scan
			scans := map[string]int{}
			for _, fe := range res.Files {
				if fe.Op == "read" || fe.Op == "read-root" {
					scans[fe.Path]++
				}
			}
			for f, p := range res.Steps.PerFile {
				steps, ln := p[0], p[1]
				k := scans[f]
				if k == 0 {
					k = 1 // in-memory root
				}
				// ln is the highest index seen + 1 (EOF step included), i.e. at most len+1
				if steps > k*(3*ln+64) {
					c.Violate("steps:superlinear", fmt.Sprintf("scanner made %d steps over %d bytes of %s scanned %d time(s) (bound 3*len+64 per scan)", steps, ln, f, k), replayOf(j, res))
				}
				if ln >= 16 {
					ratio := float64(steps) / float64(ln*k)
					maxMuLock.Lock()
					if ratio > maxMu.v {
						maxMu.v = ratio
					}
					maxMuLock.Unlock()
				}
			}
		}
		if c.NeedSample() && label == "mutate" && res.Err != nil {
			c.Sample(map[string]interface{}{"stream": label, "root": sampleDoc(j.Files[j.Root]), "error": res.Err.Msg, "line": res.Err.Line})
		}
	})
	// what comes after the scanner has no step counter: CPU time of the build on documents that repeat one construct n and 4n times
	scalingMonitor(c, c.Pool(false, 8), nil)
	c.Extra("scanner_states_seen", states.len())
	c.Extra("max_steps_per_byte", maxMu.v)
	v := c.Hist("verdicts")
	if states.len() < 100 {
		c.Inconclusive(fmt.Sprintf("only %d scanner states were observed (floor 100): the step hook may be compiled out", states.len()))
	}
	if v["accepted"] == 0 || v["rejected"] == 0 {
		c.Inconclusive("the workload did not produce both accepted and rejected builds")
	}
	c.Finish()
}
