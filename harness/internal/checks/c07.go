package checks

import (
	"fmt"
	"path/filepath"
	"strconv"
	"strings"

	"verifharness/internal/fw"
	"verifharness/internal/gen"
	"verifharness/internal/proto"
	"verifharness/internal/ref"
)

// relName maps a file name reported by the library to the project-relative name.
func relName(res *proto.Result, name string) string {
	if res.Dir != "" && strings.HasPrefix(name, res.Dir+"/") {
		return filepath.Clean(strings.TrimPrefix(name, res.Dir+"/")) // (a root file may have been given as ./root.jst)
	}
	return name
}

// checkLocation applies the location oracle to a rejected result. Returns the list of (sig, what).
func checkLocation(j *proto.Job, res *proto.Result) (out [][2]string) {
	e := res.Err
	if e == nil || e.FileNil {
		return nil // judged by C01
	}
	name := relName(res, e.File)
	content, ok := j.Files[name]
	if !ok {
		if name == j.Root || strings.HasSuffix(e.File, "/"+j.Root) || strings.TrimSuffix(e.File, "/") == res.Dir {
			// the root itself could not be read (missing, directory): there is no content to locate in
			if e.Index == 0 && e.Line == 0 && e.Column == 0 {
				return nil
			}
		}
		return [][2]string{{"location:foreign-file", fmt.Sprintf("error names file %q which is not a file of the project", e.File)}}
	}
	if string(content) == "@@FIFO@@" || (strings.HasPrefix(string(content), "@@SYMLINK:") && strings.HasSuffix(string(content), "@@")) {
		// the job's text for this file is the harness's marker for a named pipe or a symbolic link, not what is on the disk: a file
		// that cannot be read has no content to locate in (like a missing root file)
		if e.Index == 0 && ((e.Line == 0 && e.Column == 0) || (e.Line == 1 && e.Column == 1)) {
			return nil
		}
		return [][2]string{{"location:unreadable-file", fmt.Sprintf("%s is not a regular file, the error says index %d line %d column %d", name, e.Index, e.Line, e.Column)}}
	}
	if e.Index < 0 || e.Index > len(content) {
		return [][2]string{{"location:index-out-of-file", fmt.Sprintf("index %d outside file %s of %d bytes", e.Index, name, len(content))}}
	}
	conv := ref.Convention(content)
	if len(content) == 0 {
		if (e.Line == 0 && e.Column == 0) || (e.Line == 1 && e.Column == 1) {
			return nil // there is no line in an empty file: "no position" and "first position" are both truthful
		}
		return [][2]string{{"location:empty-file", fmt.Sprintf("%s is empty but the error says line %d column %d", name, e.Line, e.Column)}}
	}
	// index == len(content) is the position right after the last byte (errors about an unexpected end of the file): it has the
	// line and column a cursor standing there has, and the quote is the text of that - possibly empty - line
	if conv == ref.EOLMixed {
		return nil // no single truth (DESIGN §6)
	}
	l := ref.Locate(content, e.Index, conv)
	if e.Line != l.Line || e.Column != l.Column {
		out = append(out, [2]string{"location:line-column", fmt.Sprintf("%s index %d is line %d column %d, error says line %d column %d (eol=%s)", name, e.Index, l.Line, l.Column, e.Line, e.Column, conv)})
	}
	if !ref.QuoteOK(e.Quote, l.LineText) {
		out = append(out, [2]string{"location:quote", fmt.Sprintf("quote %q is not the text of line %d %q", trunc(e.Quote, 80), l.Line, trunc(l.LineText, 80))})
	}
	return out
}

func trunc(s string, n int) string {
	if len(s) > n {
		return s[:n] + "…"
	}
	return s
}

type tracePair struct {
	File string
	Line int
}

// parseTrace splits Error() into the message and the (file, line) pairs that follow it.
func parseTrace(res *proto.Result) (pairs []tracePair, ok bool) {
	e := res.Err
	if !strings.HasPrefix(e.ErrorStr, e.Msg) {
		return nil, false
	}
	rest := strings.TrimPrefix(e.ErrorStr, e.Msg)
	if rest == "" {
		return nil, true
	}
	for _, ln := range strings.Split(strings.TrimPrefix(rest, "\n"), "\n") {
		i := strings.LastIndex(ln, ":")
		if i < 0 {
			return nil, false
		}
		n, err := strconv.Atoi(ln[i+1:])
		if err != nil {
			return nil, false
		}
		pairs = append(pairs, tracePair{File: relName(res, ln[:i]), Line: n})
	}
	return pairs, true
}

type traceScenario struct {
	job      *proto.Job
	family   string
	errFile  string
	errLine  int
	errMax   int // 0: the error is on errLine exactly; otherwise on a line errLine..errMax (the fault spans lines)
	fault    string
	chain    []tracePair      // expected trace after the error's own pair, innermost first
	earlier  map[string][]int // includer file -> lines of all INCLUDE directives in it (to recognise D13)
	msgPart  string
	scanTime bool
}

type fileBuilder struct {
	lines []string
}

func (f *fileBuilder) add(s string) int { // returns 1-based line of the first line added
	at := len(f.lines) + 1
	f.lines = append(f.lines, strings.Split(s, "\n")...)
	return at
}

func (f *fileBuilder) bytes(eol string) []byte {
	return []byte(strings.Join(f.lines, eol) + eol)
}

func genTraceScenarios(c *fw.Ctx, n int, emit func(*traceScenario)) {
	r := gen.Rng(c.Seed, c.ID, "trace")
	uniq := 0
	pad := func(f *fileBuilder, root bool) {
		k := r.Intn(4)
		for i := 0; i < k; i++ {
			uniq++
			switch r.Intn(4) {
			case 0:
				f.add("")
			case 1:
				f.add("# comment " + fmt.Sprint(uniq))
			case 2:
				f.add(fmt.Sprintf("TYPE @pad%d any", uniq))
			case 3:
				f.add(fmt.Sprintf("TYPE @pad%d\n  {\"k\": %d}", uniq, uniq))
			}
		}
		_ = root
	}
	eols := []string{"\n", "\r\n", "\r"}
	for i := 0; i < n; i++ {
		uniq = 0
		eol := eols[r.Intn(3)]
		sc := &traceScenario{earlier: map[string][]int{}}
		depth := 1 + r.Intn(4)
		files := map[string]*fileBuilder{}
		names := []string{"root.jst"}
		for d := 1; d <= depth; d++ {
			// every file lives in the directory of its includer or below
			dir := ""
			if prev := names[d-1]; strings.Contains(prev, "/") {
				dir = prev[:strings.LastIndex(prev, "/")+1]
			}
			base := fmt.Sprintf("f%d.jst", d)
			if r.Intn(3) == 0 {
				dir += fmt.Sprintf("d%d/", d)
				if r.Intn(2) == 0 {
					// the same file name as the includer, one directory further down (index.jst including users/index.jst)
					base = names[d-1][strings.LastIndex(names[d-1], "/")+1:]
				}
			}
			names = append(names, dir+base)
		}
		for _, nm := range names {
			files[nm] = &fileBuilder{}
		}
		files["root.jst"].add("JSIGHT 0.3")
		family := r.Intn(5)
		// fault kinds: text, part of the message, offset of the line the error is on (-1: somewhere on the lines of the text, or -
		// for a text that the end of the file cuts short - the position after the last byte), what the root declares before
		type faultT struct {
			text, msg string
			off       int
			atEnd     bool // the fault is that the file ends here: it is the last thing of its file
			pre       string
			dup       bool
		}
		faults := []faultT{
			{text: "TYPE @dup any", msg: "has already been declared", pre: "TYPE @dup any", dup: true},
			{text: "TYPE @u\n  {\"a\": @nowhere}", msg: "not found", off: 1},
			{text: "Body any", msg: "incorrect context"},
			{text: "SERVER @s\n  BaseUrl \"http://b\"", msg: "has already been declared", pre: "SERVER @s\n  BaseUrl \"http://a\"", dup: true},
			{text: "FOO bar"},
			{text: "URL /dupp/{id}/{id}\n  GET\n    Path\n      {\"id\": 1}\n    200 any", msg: "duplicated"},
			{text: "URL /empp/{id}/x/{}\n  DELETE\n    Path\n      {\"id\": 1}\n    204 empty", msg: "empty PATH parameter"},
			{text: "GET /dupi\n  200 any", pre: "GET /dupi\n  200 any", off: -1},
			{text: "TAG @tg", pre: "TAG @tg", off: -1},
			{text: "ENUM @en\n  [1, 1]", off: -1},
			{text: "TYPE @bad\n  {\"a\": 1 // {min: 5}\n  }", off: -1},
			{text: "GET /p/{id}\n  Path\n    {\"zz\": 1}\n  200 any", off: -1},
			{text: "GET /tt\n  Tags @nowhere\n  200 any", off: -1},
			{text: "INCLUDE nowhere.jst"},
			{text: "INCLUDE ../x.jst"},
			{text: "  200 any", msg: "incorrect context"},
			{text: "MACRO @mm\n(\n  200 any\n)\nMACRO @mm\n(\n  200 any\n)", off: -1},
			{text: "ENUM @en\n  [1,", off: -1, atEnd: true},
			{text: "ENUM @en\n  [1]\n/* abc", off: -1, atEnd: true},
			{text: "TYPE @x\n  {\"a\": 1", off: -1, atEnd: true},
			{text: "GET /a\n  Description\n  (\n    text", off: -1, atEnd: true},
			{text: "GET /a \"unclosed", off: -1, atEnd: true},
			{text: "MACRO @m\n(\n  200 any", off: -1, atEnd: true},
			{text: "GET /a /* never closed\n  200 any", off: -1, atEnd: true},
			{text: "TYPE @x\n  {\"a\": 1 /* never\n  }", off: -1, atEnd: true},
			{text: "URL /u\n(", off: -1, atEnd: true},
			{text: "TYPE @x\n  {\"a\": [1, 2,\n", off: -1, atEnd: true},
			{text: "GET /a\n  200 regex\n    /ab", off: -1, atEnd: true},
		}
		kind := r.Intn(len(faults))
		if i%3 == 0 {
			kind = r.Intn(4) // the four oldest kinds keep a third of the scenarios
		}
		ft := faults[kind]
		if ft.pre != "" {
			files["root.jst"].add(ft.pre)
		}
		faultText := ft.text
		sc.msgPart, sc.fault = ft.msg, strings.SplitN(ft.text, "\n", 2)[0]
		placeFault := func(f *fileBuilder) {
			at := f.add(faultText)
			sc.errLine = at
			if ft.off > 0 {
				sc.errLine = at + ft.off
			}
			if ft.off < 0 {
				sc.errMax = at + strings.Count(faultText, "\n")
				if ft.atEnd {
					sc.errMax++
				}
			}
		}
		relTo := func(from, to string) string {
			dir := ""
			if strings.Contains(from, "/") {
				dir = from[:strings.LastIndex(from, "/")+1]
			}
			return strings.TrimPrefix(to, dir)
		}
		// the fault may sit at any level of the chain: in the deepest file, or in a middle file before or after its own
		// INCLUDE of the next level (the files below are then harmless)
		faultLevel := depth
		faultAfterInclude := false
		if depth > 1 && r.Intn(2) == 0 {
			faultLevel = 1 + r.Intn(depth-1)
			faultAfterInclude = r.Intn(3) != 0 || ft.atEnd
		}
		harmless := 0
		for d := 0; d < depth; d++ {
			f := files[names[d]]
			pad(f, d == 0)
			// families: 0 plain chain; 1 an earlier include of a harmless sibling from the same file;
			// 2 the same next file included twice (the fault then is the duplicate created by the 2nd inclusion);
			// 3 diamond; 4 a harmless include after the real one
			if family == 1 && r.Intn(2) == 0 {
				harmless++
				hn := fmt.Sprintf("h%d.jst", harmless)
				dir := ""
				if strings.Contains(names[d], "/") {
					dir = names[d][:strings.LastIndex(names[d], "/")+1]
				}
				files[dir+hn] = &fileBuilder{lines: []string{fmt.Sprintf("TYPE @h%d any", harmless)}}
				at := f.add("INCLUDE " + hn)
				sc.earlier[names[d]] = append(sc.earlier[names[d]], at)
				pad(f, false)
			}
			if d == faultLevel && !faultAfterInclude {
				sc.errFile = names[d]
				placeFault(f)
				pad(f, false)
			}
			at := f.add("INCLUDE " + relTo(names[d], names[d+1]))
			sc.earlier[names[d]] = append(sc.earlier[names[d]], at)
			if d < faultLevel {
				sc.chain = append([]tracePair{{File: names[d], Line: at}}, sc.chain...)
			}
			pad(f, false)
			if d == faultLevel && faultAfterInclude {
				sc.errFile = names[d]
				placeFault(f)
				if !ft.atEnd {
					pad(f, false)
				}
			}
			if family == 4 && r.Intn(2) == 0 && !(ft.atEnd && d == faultLevel) {
				harmless++
				hn := fmt.Sprintf("h%d.jst", harmless)
				dir := ""
				if strings.Contains(names[d], "/") {
					dir = names[d][:strings.LastIndex(names[d], "/")+1]
				}
				files[dir+hn] = &fileBuilder{lines: []string{fmt.Sprintf("TYPE @h%d any", harmless)}}
				at := f.add("INCLUDE " + hn)
				sc.earlier[names[d]] = append(sc.earlier[names[d]], at)
			}
		}
		leaf := files[names[depth]]
		pad(leaf, false)
		if faultLevel == depth {
			sc.errFile = names[depth]
			placeFault(leaf)
		} else {
			uniq++
			leaf.add(fmt.Sprintf("TYPE @leaf%d any", uniq)) // the deepest file holds a harmless directive
		}
		if !(ft.atEnd && faultLevel == depth) {
			pad(leaf, false)
		}
		if family == 2 && !ft.dup {
			family = 0
		}
		sc.family = []string{"chain", "earlier-sibling-include", "chain", "chain", "later-sibling-include"}[family]
		if faultLevel < depth {
			if faultAfterInclude {
				sc.family += "/fault-in-middle-file-after-its-include"
			} else {
				sc.family += "/fault-in-middle-file-before-its-include"
			}
		}
		job := &proto.Job{ID: fmt.Sprintf("trace-%d", i), Root: "root.jst", Files: map[string][]byte{}}
		for nm, fb := range files {
			job.Files[nm] = fb.bytes(eol)
		}
		sc.job = job
		emit(sc)
	}
	// hand-made shapes where one file is included twice and the later inclusion is at fault
	for i := 0; i < n/4+1; i++ {
		eol := eols[r.Intn(3)]
		root := &fileBuilder{}
		root.add("JSIGHT 0.3")
		k1 := r.Intn(3)
		for q := 0; q < k1; q++ {
			root.add("# pad")
		}
		sc := &traceScenario{earlier: map[string][]int{}, family: "same-file-twice", errFile: "piece.jst", msgPart: "has already been declared"}
		var l1, l2 int
		diamond := r.Intn(2) == 0
		files := map[string][]byte{}
		piece := &fileBuilder{}
		k2 := r.Intn(3)
		for q := 0; q < k2; q++ {
			piece.add("")
		}
		sc.errLine = piece.add("TYPE @once any")
		files["piece.jst"] = piece.bytes(eol)
		if diamond {
			sc.family = "diamond"
			a, b := &fileBuilder{}, &fileBuilder{}
			for q := 0; q < r.Intn(3); q++ {
				a.add("# a")
			}
			la := a.add("INCLUDE piece.jst")
			for q := 0; q < r.Intn(4); q++ {
				b.add("# b")
			}
			lb := b.add("INCLUDE piece.jst")
			files["a.jst"], files["b.jst"] = a.bytes(eol), b.bytes(eol)
			l1 = root.add("INCLUDE a.jst")
			for q := 0; q < r.Intn(3); q++ {
				root.add("")
			}
			l2 = root.add("INCLUDE b.jst")
			sc.chain = []tracePair{{"b.jst", lb}, {"root.jst", l2}}
			sc.earlier["root.jst"] = []int{l1, l2}
			sc.earlier["b.jst"] = []int{lb}
			sc.earlier["a.jst"] = []int{la}
		} else {
			l1 = root.add("INCLUDE piece.jst")
			for q := 0; q < 1+r.Intn(3); q++ {
				root.add("# between")
			}
			l2 = root.add("INCLUDE piece.jst")
			sc.chain = []tracePair{{"root.jst", l2}}
			sc.earlier["root.jst"] = []int{l1, l2}
		}
		files["root.jst"] = root.bytes(eol)
		sc.job = &proto.Job{ID: fmt.Sprintf("twice-%d", i), Root: "root.jst", Files: files}
		emit(sc)
	}
}

// C07 – truthful error location and include trace.
func C07(c *fw.Ctx) {
	c.Rule("location part: every rejected case of the hostile workload (corpus, truncations, stacked mutants, dictionary strings, EOL variants, " +
		"include/macro graphs, and 1 116 documents with the error on a line of 185..215 bytes filled with 1- to 4-byte characters); trace part: generated include chains of depth 1-4 with sub-directories (also files of the same name in nested directories), earlier/later sibling includes, the same " +
		"file included twice, diamonds, LF/CRLF/CR, with one fault whose occurrence is unambiguous; distinct = distinct project bytes; " +
		"non-trivial = the build was rejected with a located error")
	c.Assume("line/column are judged only for files with one line-ending convention; index = len(file) is the position after the last byte and has the line/column of a cursor there")
	pool := c.Pool(false, 0)
	scenarios := map[string]*traceScenario{}
	c.RunJobs(pool, func(emit func(*proto.Job)) {
		e := func(label string, j *proto.Job) {
			j.ID = label + "/" + j.ID
			emit(j)
		}
		hostileBytes(c, c.Pick(1, 10), e)
		macroGraphs(c, e)
		includeGraphs(c, c.Pick(200, 5000), e)
		// errors on lines around the 200-byte limit of the quote: every length 185..215, fillers of 1- to 4-byte characters at every
		// alignment, in the root and in an included file, three line-ending conventions
		nLong := 0
		for L := 185; L <= 215; L++ {
			for _, unit := range []string{"x", "é", "日", "😀"} {
				for _, eol := range []string{"\n", "\r\n", "\r"} {
					for kind := 0; kind < 3; kind++ {
						head := []string{"Body any // ", "TYPE @dup any // ", "  Body any /* "}[kind]
						tail := []string{"", "", " */"}[kind]
						room := L - len(head) - len(tail)
						n := room / len(unit)
						line := head + strings.Repeat("x", room-n*len(unit)) + strings.Repeat(unit, n) + tail
						doc := "JSIGHT 0.3" + eol + "TYPE @dup any" + eol + line + eol
						nLong++
						if kind == 1 && L%2 == 0 {
							emit(&proto.Job{ID: fmt.Sprintf("longline/%d", nLong), Root: "root.jst", Files: map[string][]byte{
								"root.jst": []byte("JSIGHT 0.3" + eol + "TYPE @dup any" + eol + "INCLUDE piece.jst" + eol), "piece.jst": []byte(line + eol)}})
							continue
						}
						emit(singleJob(fmt.Sprintf("longline/%d", nLong), []byte(doc), false))
					}
				}
			}
		}
		genTraceScenarios(c, c.Pick(2000, 60000), func(sc *traceScenario) {
			sc.job.ID = "trace/" + sc.job.ID
			maxMuLock.Lock()
			scenarios[sc.job.ID] = sc
			maxMuLock.Unlock()
			emit(sc.job)
		})
	}, func(j *proto.Job, res *proto.Result) {
		if workerProblem(c, res) {
			return
		}
		label := j.ID[:strings.Index(j.ID, "/")]
		c.Inc("streams", label, 1)
		if sig, _ := crashSig(res); sig != "" || res.Accepted || res.Err == nil || res.Err.FileNil {
			c.Count(jobKey(j), false)
			if label == "trace" {
				if res.Accepted {
					c.Violate("trace:scenario-accepted", "a trace scenario with an injected fault was accepted", replayOf(j, res))
				}
			}
			return
		}
		c.Count(jobKey(j), true)
		c.Inc("errors_checked", label, 1)
		if res.Err != nil && !res.Err.FileNil {
			if content, ok := j.Files[relName(res, res.Err.File)]; ok && res.Err.Index == len(content) {
				c.Inc("errors_located_at_end_of_file", errKey(res.Err.Msg), 1)
			}
		}
		for _, v := range checkLocation(j, res) {
			c.Violate(v[0], v[1], replayOf(j, res))
		}
		pairs, ok := parseTrace(res)
		if !ok {
			c.Violate("trace:unparsable", fmt.Sprintf("Error() %q is not the message followed by file:line lines", trunc(res.Err.ErrorStr, 200)), replayOf(j, res))
			return
		}
		if len(pairs) > 0 {
			c.Inc("trace_depth", fmt.Sprint(len(pairs)-1), 1)
			own := pairs[0]
			if own.File != relName(res, res.Err.File) || own.Line != res.Err.Line {
				c.Violate("trace:own-pair", fmt.Sprintf("first trace line %v is not the error's own file/line %s:%d", own, relName(res, res.Err.File), res.Err.Line), replayOf(j, res))
			}
			// every further pair must name a project file and a line that holds an INCLUDE keyword
			for _, p := range pairs[1:] {
				content, ok := j.Files[p.File]
				if !ok {
					c.Violate("trace:foreign-file", fmt.Sprintf("trace names %q which is not a file of the project", p.File), replayOf(j, res))
					continue
				}
				conv := ref.Convention(content)
				if conv == ref.EOLMixed {
					continue
				}
				if !lineHasInclude(content, p.Line, conv) {
					c.Violate("trace:line-without-include", fmt.Sprintf("trace says %s:%d but that line holds no INCLUDE", p.File, p.Line), replayOf(j, res))
				}
			}
		}
		maxMuLock.Lock()
		sc := scenarios[j.ID]
		delete(scenarios, j.ID)
		maxMuLock.Unlock()
		if sc == nil {
			// an error in a file other than the root was reached through INCLUDE: Error() must say how
			if name := relName(res, res.Err.File); len(pairs) == 0 && name != j.Root && filepath.Clean(name) != filepath.Clean(j.Root) {
				if _, ok := j.Files[name]; ok {
					c.Violate("trace:missing", fmt.Sprintf("the error is located in %s, a file reached through INCLUDE, and Error() has no include trace: %q", name, trunc(res.Err.ErrorStr, 160)), replayOf(j, res))
					return
				}
			}
			// corpus, mutants and graphs: the chain must at least be a chain (each frame includes the file of the frame before it)
			if kind, what := traceChainProblem(j.Files, j.Root, pairs); kind != "" {
				c.Violate(kind, what, replayOf(j, res))
			}
			return
		}
		c.Inc("trace_scenarios", sc.family, 1)
		e := res.Err
		if sc.msgPart != "" && !strings.Contains(e.Msg, sc.msgPart) {
			c.Violate("trace:unexpected-error", fmt.Sprintf("scenario expected an error containing %q, got %q", sc.msgPart, e.Msg), replayOf(j, res))
			return
		}
		c.Inc("trace_fault_kinds", sc.fault, 1)
		if relName(res, e.File) != sc.errFile || (sc.errMax == 0 && e.Line != sc.errLine) || (sc.errMax != 0 && (e.Line < sc.errLine || e.Line > sc.errMax)) {
			c.Violate("trace:error-position", fmt.Sprintf("fault %q is at %s:%d..%d, error says %s:%d (%s)", sc.fault, sc.errFile, sc.errLine, sc.errMax, relName(res, e.File), e.Line, e.Msg), replayOf(j, res))
			return
		}
		got := pairs
		if len(got) > 0 {
			got = got[1:]
		}
		if len(got) != len(sc.chain) {
			c.Violate("trace:chain-length", fmt.Sprintf("expected chain %v, got %v", sc.chain, got), replayOf(j, res))
			return
		}
		for k := range got {
			if got[k] == sc.chain[k] {
				continue
			}
			if got[k].File == sc.chain[k].File {
				earlier := false
				for _, l := range sc.earlier[got[k].File] {
					if l == got[k].Line && l < sc.chain[k].Line {
						earlier = true
					}
				}
				if earlier {
					c.Violate("trace:line-of-earlier-include-in-same-file", fmt.Sprintf("expected %v, got %v (line of an earlier INCLUDE of the same includer)", sc.chain, got), replayOf(j, res))
					return
				}
			}
			c.Violate("trace:chain-mismatch", fmt.Sprintf("expected chain %v, got %v", sc.chain, got), replayOf(j, res))
			return
		}
		if c.NeedSample() {
			files := map[string]string{}
			for k, v := range j.Files {
				files[k] = string(v)
			}
			c.Sample(map[string]interface{}{"family": sc.family, "files": files, "error": e.ErrorStr})
		}
	})
	if h := c.Hist("trace_scenarios"); len(h) < 4 {
		c.Inconclusive("fewer than 4 trace scenario families produced a checked error")
	}
	c.Finish()
}

// includeTargets returns the project-relative paths which the INCLUDE directives written on the given line of a file resolve to
// (parameter relative to the directory of that file); nil when the line holds no INCLUDE or the file mixes line-end conventions.
func includeTargets(files map[string][]byte, file string, line int) []string {
	content, ok := files[file]
	if !ok {
		return nil
	}
	conv := ref.Convention(content)
	term := "\n"
	switch conv {
	case ref.EOLMixed:
		return nil
	case ref.EOLCR:
		term = "\r"
	}
	ls := strings.Split(string(content), term)
	if line < 1 || line > len(ls) {
		return nil
	}
	l := strings.TrimRight(ls[line-1], "\r")
	k := strings.Index(l, "INCLUDE")
	if k < 0 {
		return nil
	}
	param := strings.TrimLeft(l[k+len("INCLUDE"):], " \t")
	if strings.HasPrefix(param, "\"") {
		var v string
		end := strings.Index(param[1:], "\"")
		if end < 0 {
			return nil
		}
		v = param[1 : 1+end]
		param = v
	} else if i := strings.IndexAny(param, " \t#"); i >= 0 {
		param = param[:i]
	}
	dir := ""
	if i := strings.LastIndex(file, "/"); i >= 0 {
		dir = file[:i+1]
	}
	return []string{filepath.Clean(dir + param)}
}

// traceChainProblem: every pair after the first must be an INCLUDE line whose parameter leads to the file of the pair before it, and
// the last pair must lie in the root file. Returns "" when the chain is truthful (or cannot be judged).
func traceChainProblem(files map[string][]byte, root string, pairs []tracePair) (kind, what string) {
	if len(pairs) == 0 {
		return "", ""
	}
	for k := 1; k < len(pairs); k++ {
		tg := includeTargets(files, pairs[k].File, pairs[k].Line)
		if tg == nil {
			return "", "" // judged by the line-without-include rule
		}
		if tg[0] != filepath.Clean(pairs[k-1].File) {
			// which INCLUDE lines of that file do lead there?
			var right []int
			for ln := 1; ln < 4000; ln++ {
				t := includeTargets(files, pairs[k].File, ln)
				if t != nil && t[0] == filepath.Clean(pairs[k-1].File) {
					right = append(right, ln)
				}
				if ln > strings.Count(string(files[pairs[k].File]), "\n")+strings.Count(string(files[pairs[k].File]), "\r")+1 {
					break
				}
			}
			kind = "trace:include-leads-elsewhere"
			for _, r := range right {
				if r > pairs[k].Line {
					kind = "trace:line-of-earlier-include-in-same-file"
				}
			}
			return kind, fmt.Sprintf("trace says %s was included from %s:%d, but that line includes %s (the lines of %s that include %s: %v)", pairs[k-1].File, pairs[k].File, pairs[k].Line, tg[0], pairs[k].File, pairs[k-1].File, right)
		}
	}
	if last := pairs[len(pairs)-1]; filepath.Clean(last.File) != filepath.Clean(root) {
		return "trace:does-not-reach-root", fmt.Sprintf("the trace ends in %s, not in the root file %s", last.File, root)
	}
	return "", ""
}

func lineHasInclude(content []byte, line int, conv string) bool {
	term := "\n"
	if conv == ref.EOLCR {
		term = "\r"
	}
	ls := strings.Split(string(content), term)
	if line < 1 || line > len(ls) {
		return false
	}
	return strings.Contains(ls[line-1], "INCLUDE")
}
