package checks

import (
	"fmt"
	"sort"
	"strings"

	"verifharness/internal/fw"
	"verifharness/internal/gen"
	"verifharness/internal/proto"
	"verifharness/internal/ref"
)

var allKinds = []string{"JSIGHT", "INFO", "Title", "Version", "Description", "SERVER", "BaseUrl", "URL", "GET", "POST", "PUT", "PATCH",
	"DELETE", "Body", "Request", "HTTP-response-code", "Path", "Headers", "Query", "TYPE", "ENUM", "MACRO", "PASTE", "INCLUDE",
	"Protocol", "Method", "Params", "Result", "TAG", "Tags", "OperationId"}

type banBase struct {
	proj     *gen.Project
	name     string
	accepted bool
	sig      string
	kinds    map[string][][2]string // kind -> list of (file, line)
	json     []byte
}

func collectKinds(nodes []*proto.Node, files map[string][]byte, dir string, out map[string][][2]string) {
	for _, n := range nodes {
		f := strings.TrimPrefix(n.File, dir+"/")
		line := 0
		if content, ok := files[f]; ok && n.Begin < len(content) {
			conv := ref.Convention(content)
			if conv != ref.EOLMixed {
				line = ref.Locate(content, n.Begin, conv).Line
			}
		}
		out[n.Kind] = append(out[n.Kind], [2]string{f, fmt.Sprint(line)})
		collectKinds(n.Children, files, dir, out)
	}
}

func resultSig(res *proto.Result) string {
	s := fmt.Sprintf("%v|", res.Accepted)
	if res.Err != nil {
		e := res.Err
		s += fmt.Sprintf("%q|%s|%d|%d|%d|%q", e.Msg, relName(res, e.File), e.Index, e.Line, e.Column, strings.ReplaceAll(e.ErrorStr, res.Dir+"/", ""))
	}
	if res.Panic != nil {
		s += "panic:" + res.Panic.Func
	}
	for _, o := range res.Outputs {
		if o.Op == "json" {
			s += "|" + o.Hash + o.Err
		}
	}
	return s
}

func banProjects(c *fw.Ctx, n int) []*gen.Project {
	hand := []string{
		"JSIGHT 0.3\nINFO\n  Title \"T\"\n  Version 1\n  Description\n    text\nSERVER @s\n  BaseUrl \"http://x\"\nTAG @g\n  Description\n    about\nTYPE @t\n  {\"k\": 1}\nENUM @e\n  [\"a\"]\n" +
			"URL /a/{id}\n  Path\n    {\"id\": 1}\n  GET\n    Tags @g\n    OperationId getA\n    Query \"q=1\"\n      {\"q\": 1}\n    Request\n      Headers\n        {\"h\": \"v\"}\n      Body\n        {\"b\": 1}\n    200 @t\n  POST\n    200 any\n  PUT\n    200 any\n  PATCH\n    200 any\n  DELETE\n    200 any\n" +
			"URL /rpc\n  Protocol json-rpc-2.0\n  Method m\n    Params\n      {\"p\": 1}\n    Result\n      {\"r\": 1}\n",
		"JSIGHT 0.3\nMACRO @resp\n(\n  200 any\n  404\n    Body any\n)\nMACRO @unused\n(\n  TYPE @never any\n  ENUM @neverE\n    [1]\n)\nGET /m\n  PASTE @resp\nPOST /m\n  PASTE @resp\n",
		"JSIGHT 0.3\nINCLUDE inc/types.jst\nGET /i\n  200 @it\nINCLUDE inc/more.jst\n",
		"JSIGHT 0.3\nMACRO @outer\n(\n  GET /o\n    PASTE @inner\n)\nMACRO @inner\n(\n  200 any\n)\nPASTE @outer\n",
		"JSIGHT 0.3\nURL /x\n  GET\n    Description\n      words\n    200 regex\n      /a+/\n",
		"JSIGHT 0.3\nTYPE @a\n  {\"k\": @b}\nTYPE @b\n  [1]\nSERVER @one\n  BaseUrl \"http://one\"\n",
	}
	var out []*gen.Project
	for i, h := range hand {
		p := &gen.Project{Name: fmt.Sprintf("hand-%d", i), Root: "root.jst", Files: map[string][]byte{"root.jst": []byte(h)}}
		if i == 2 {
			p.Files["inc/types.jst"] = []byte("TYPE @it\n  {\"k\": 1}\nENUM @ie\n  [1, 2]\n")
			p.Files["inc/more.jst"] = []byte("POST /i2\n  Request any\n  201 any\nINCLUDE deeper/d.jst\n")
			p.Files["inc/deeper/d.jst"] = []byte("TAG @deep\n")
		}
		out = append(out, p)
	}
	corpus := Corpus(c)
	r := gen.Rng(c.Seed, c.ID, "projects")
	perm := r.Perm(len(corpus))
	for _, i := range perm {
		if len(out) >= n {
			break
		}
		p := corpus[i]
		s := string(p.RootContent())
		// prefer files that use many directive kinds, includes and macros
		if p.HasInclude() || strings.Contains(s, "MACRO") || strings.Count(s, "\n") > 25 || r.Intn(6) == 0 {
			out = append(out, p)
		}
	}
	return out
}

// C19 – banned directives.
func C19(c *fw.Ctx) {
	c.Level = "fault_enumeration"
	nProj := c.Pick(30, 150)
	c.Rule(fmt.Sprintf("every subset of size 1 and 2 of the 31 directive kinds (496 configurations) x %d projects (6 hand-made ones that together use all "+
		"31 kinds directly, inside INCLUDEd files, inside pasted and unused MACRO bodies; the rest drawn from the corpus, preferring includes and "+
		"macros), each built through kit.NewJapi(path, option) and through core.NewJApiCore(file, option).BuildCatalog(); which kinds a project "+
		"contains is taken from the scan-phase directive tree of the build without the option; distinct = distinct (project, configuration, API); "+
		"non-trivial = every case", nProj))
	c.Assume("presence of a kind is read from the phase-snapshot hook of the unrestricted build (INCLUDE: from the file-access hook)")
	pool := c.Pool(false, 0)
	projects := banProjects(c, nProj)
	bases := make([]*banBase, len(projects))
	// pass 1: baselines
	c.RunJobs(pool, func(emit func(*proto.Job)) {
		for i, p := range projects {
			j := &proto.Job{ID: fmt.Sprintf("base/%d", i), Root: p.Root, Files: p.Files, WantPhases: true, WantFiles: true, Ops: []string{"json"}}
			emit(j)
		}
	}, func(j *proto.Job, res *proto.Result) {
		if workerProblem(c, res) {
			return
		}
		var i int
		fmt.Sscan(strings.TrimPrefix(j.ID, "base/"), &i)
		b := &banBase{proj: projects[i], name: projects[i].Name, accepted: res.Accepted, sig: resultSig(res), kinds: map[string][][2]string{}}
		if res.ScanDone {
			collectKinds(res.Scan, j.Files, res.Dir, b.kinds)
		} else {
			b.kinds = nil // the scan phase failed: presence unknown
		}
		if b.kinds != nil {
			for _, e := range res.Files {
				if e.Op == "stat" {
					b.kinds["INCLUDE"] = append(b.kinds["INCLUDE"], [2]string{"?", "0"})
				}
			}
		}
		if js := findOut(res, "json"); js != nil {
			b.json = js.Bytes
		}
		bases[i] = b
	})
	var subsets [][]string
	for i, a := range allKinds {
		subsets = append(subsets, []string{a})
		for _, b := range allKinds[i+1:] {
			subsets = append(subsets, []string{a, b})
		}
	}
	kindsBannedAndPresent := newStrSet()
	c.RunJobs(pool, func(emit func(*proto.Job)) {
		for i, b := range bases {
			if b == nil {
				continue
			}
			for si, s := range subsets {
				for _, via := range []bool{false, true} {
					j := &proto.Job{ID: fmt.Sprintf("ban/%d/%d/%v", i, si, via), Root: b.proj.Root, Files: b.proj.Files, Banned: s, ViaCore: via, Ops: []string{"json"}}
					// the set given as one option, as two options, or (size 2) in the other order
					switch (i + si) % 3 {
					case 1:
						j.BannedSplit = true
					case 2:
						if len(s) == 2 {
							j.Banned = []string{s[1], s[0]}
						}
					}
					emit(j)
				}
			}
		}
	}, func(j *proto.Job, res *proto.Result) {
		if workerProblem(c, res) {
			return
		}
		var i, si int
		var via bool
		fmt.Sscanf(strings.ReplaceAll(strings.TrimPrefix(j.ID, "ban/"), "/", " "), "%d %d %v", &i, &si, &via)
		b, s := bases[i], subsets[si]
		c.Count(fmt.Sprintf("%s|%v|%v", b.name, s, via), true)
		if j.BannedSplit {
			c.Inc("cases", "set-given-as-separate-options", 1)
		}
		rp := replayOf(j, res)
		if sig, what := crashSig(res); sig != "" && !strings.HasPrefix(b.sig, "false|panic") {
			c.Violate(sig, fmt.Sprintf("banned %v on %s: %s", s, b.name, what), rp)
			return
		}
		if !b.accepted {
			c.Inc("cases", "project-rejected-without-option", 1)
			if res.Accepted {
				c.Violate("ban:rejected-project-accepted", fmt.Sprintf("%s is rejected without the option but accepted with banned %v", b.name, s), rp)
			}
			return
		}
		var present []string
		for _, k := range s {
			if len(b.kinds[k]) > 0 {
				present = append(present, k)
			}
		}
		if len(present) == 0 {
			c.Inc("cases", "banned-kind-absent", 1)
			if got := resultSig(res); got != b.sig {
				if js := findOut(res, "json"); js != nil && b.json != nil && js.Bytes != nil && exampleOnlyDiff(b.json, js.Bytes, j.Files) {
					c.Violate("ban:"+sigRegexExample, b.name+": only regex-type examples differ from the build without the option", rp)
					return
				}
				c.Violate("ban:absent-kind-changes-result", fmt.Sprintf("%s contains none of %v but the result changed: %s VS %s", b.name, s, trunc(b.sig, 200), trunc(got, 200)), rp)
			}
			return
		}
		c.Inc("cases", "banned-kind-present", 1)
		for _, k := range present {
			kindsBannedAndPresent.add(k)
		}
		if res.Accepted || res.Err == nil {
			sort.Strings(present)
			c.Violate("ban:escaped:"+strings.Join(present, "+"), fmt.Sprintf("%s contains %v which is banned, but the build succeeded (via core=%v)", b.name, present, via), rp)
			return
		}
		e := res.Err
		if !strings.HasPrefix(e.Msg, "the directive is not allowed") {
			c.Violate("ban:wrong-error:"+strings.Join(present, "+"), fmt.Sprintf("%s with banned %v present: error %q", b.name, present, e.Msg), rp)
			return
		}
		named := false
		for _, k := range present {
			if strings.Contains(e.Msg, "("+k+")") {
				named = true
				// located on a directive of that kind
				onDirective := false
				for _, pos := range b.kinds[k] {
					if pos[0] == "?" || (pos[0] == relName(res, e.File) && pos[1] == fmt.Sprint(e.Line)) {
						onDirective = true
					}
				}
				if !onDirective {
					c.Violate("ban:location:"+k, fmt.Sprintf("%s: not-allowed error for %s at %s:%d, but the %s directives are at %v", b.name, k, relName(res, e.File), e.Line, k, b.kinds[k]), rp)
				}
			}
		}
		// "on that directive" includes how the file of the directive was reached: the include trace must be a chain of INCLUDE lines
		// each of which leads to the file of the frame before it, ending in the root file
		if pairs, ok := parseTrace(res); ok && len(pairs) > 0 {
			c.Inc("cases", fmt.Sprintf("include-trace-depth-%d", len(pairs)-1), 1)
			if kind, what := traceChainProblem(j.Files, j.Root, pairs); kind != "" {
				c.Violate("ban:"+kind, fmt.Sprintf("%s with banned %v: %s", b.name, present, what), rp)
			}
			if relName(res, e.File) != j.Root && len(pairs) < 2 {
				c.Violate("ban:trace:missing", fmt.Sprintf("%s with banned %v: the error is in the included file %s but Error() carries no include trace", b.name, present, relName(res, e.File)), rp)
			}
		}
		if !named {
			c.Violate("ban:names-wrong-kind", fmt.Sprintf("%s with banned %v present: message %q names none of them", b.name, present, e.Msg), rp)
		}
		if c.NeedSample() && len(s) == 2 {
			c.Sample(map[string]interface{}{"project": b.name, "banned": s, "present": present, "error": e.Msg, "file": relName(res, e.File), "line": e.Line, "via_core": via})
		}
	})
	c.Extra("kinds_banned_while_present", kindsBannedAndPresent.len())
	if kindsBannedAndPresent.len() < 31 {
		var missing []string
		for _, k := range allKinds {
			if !kindsBannedAndPresent.has(k) {
				missing = append(missing, k)
			}
		}
		c.Inconclusive(fmt.Sprintf("kinds never banned while present: %v", missing))
	}
	c.Finish()
}
