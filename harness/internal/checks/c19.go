package checks

import (
	"fmt"
	"sort"
	"strings"

	"verifharness/internal/fw"
	"verifharness/internal/gen"
	"verifharness/internal/proto"
	"verifharness/internal/ref"
)

var allKinds = []string{"JSIGHT", "INFO", "Title", "Version", "Description", "SERVER", "BaseUrl", "URL", "GET", "POST", "PUT", "PATCH",
	"DELETE", "Body", "Request", "HTTP-response-code", "Path", "Headers", "Query", "TYPE", "ENUM", "MACRO", "PASTE", "INCLUDE",
	"Protocol", "Method", "Params", "Result", "TAG", "Tags", "OperationId"}

type banBase struct {
	proj     *gen.Project
	name     string
	accepted bool
	sig      string
	kinds    map[string][][2]string // kind -> list of (file, line)
	json     []byte
}

func collectKinds(nodes []*proto.Node, files map[string][]byte, dir string, out map[string][][2]string) {
	for _, n := range nodes {
		f := strings.TrimPrefix(n.File, dir+"/")
		line := 0
		if content, ok := files[f]; ok && n.Begin < len(content) {
			conv := ref.Convention(content)
			if conv != ref.EOLMixed {
				line = ref.Locate(content, n.Begin, conv).Line
			}
		}
		out[n.Kind] = append(out[n.Kind], [2]string{f, fmt.Sprint(line)})
		collectKinds(n.Children, files, dir, out)
	}
}

func resultSig(res *proto.Result) string {
	s := fmt.Sprintf("%v|", res.Accepted)
	if res.Err != nil {
		e := res.Err
		s += fmt.Sprintf("%q|%s|%d|%d|%d|%q", e.Msg, relName(res, e.File), e.Index, e.Line, e.Column, strings.ReplaceAll(e.ErrorStr, res.Dir+"/", ""))
	}
	if res.Panic != nil {
		s += "panic:" + res.Panic.Func
	}
	for _, o := range res.Outputs {
		if o.Op == "json" {
			s += "|" + o.Hash + o.Err
		}
	}
	return s
}

func banProjects(c *fw.Ctx, n int) []*gen.Project {
	hand := []string{
		"JSIGHT 0.3\nINFO\n  Title \"T\"\n  Version 1\n  Description\n    text\nSERVER @s\n  BaseUrl \"http://x\"\nTAG @g\n  Description\n    about\nTYPE @t\n  {\"k\": 1}\nENUM @e\n  [\"a\"]\n" +
			"URL /a/{id}\n  Path\n    {\"id\": 1}\n  GET\n    Tags @g\n    OperationId getA\n    Query \"q=1\"\n      {\"q\": 1}\n    Request\n      Headers\n        {\"h\": \"v\"}\n      Body\n        {\"b\": 1}\n    200 @t\n  POST\n    200 any\n  PUT\n    200 any\n  PATCH\n    200 any\n  DELETE\n    200 any\n" +
			"URL /rpc\n  Protocol json-rpc-2.0\n  Method m\n    Params\n      {\"p\": 1}\n    Result\n      {\"r\": 1}\n",
		"JSIGHT 0.3\nMACRO @resp\n(\n  200 any\n  404\n    Body any\n)\nMACRO @unused\n(\n  TYPE @never any\n  ENUM @neverE\n    [1]\n)\nGET /m\n  PASTE @resp\nPOST /m\n  PASTE @resp\n",
		"JSIGHT 0.3\nINCLUDE inc/types.jst\nGET /i\n  200 @it\nINCLUDE inc/more.jst\n",
		"JSIGHT 0.3\nMACRO @outer\n(\n  GET /o\n    PASTE @inner\n)\nMACRO @inner\n(\n  200 any\n)\nPASTE @outer\n",
		"JSIGHT 0.3\nURL /x\n  GET\n    Description\n      words\n    200 regex\n      /a+/\n",
		"JSIGHT 0.3\nTYPE @a\n  {\"k\": @b}\nTYPE @b\n  [1]\nSERVER @one\n  BaseUrl \"http://one\"\n",
		"JSIGHT 0.3\nGET /a /** first **/\n  200 any\nDELETE /a /** second\n   line **/\n  200 any\nPUT /b /* third */\n  200 any /****/\nPATCH /b // x */ y\n  200 any /***/\nPOST /b /**/\n  200 any\nTYPE @t any /* a * b ** c *** d */\n",
	}
	var out []*gen.Project
	for i, h := range hand {
		p := &gen.Project{Name: fmt.Sprintf("hand-%d", i), Root: "root.jst", Files: map[string][]byte{"root.jst": []byte(h)}}
		if i == 2 {
			p.Files["inc/types.jst"] = []byte("TYPE @it\n  {\"k\": 1}\nENUM @ie\n  [1, 2]\n")
			p.Files["inc/more.jst"] = []byte("POST /i2\n  Request any\n  201 any\nINCLUDE deeper/d.jst\n")
			p.Files["inc/deeper/d.jst"] = []byte("TAG @deep\n")
		}
		out = append(out, p)
	}
	corpus := Corpus(c)
	r := gen.Rng(c.Seed, c.ID, "projects")
	perm := r.Perm(len(corpus))
	for _, i := range perm {
		if len(out) >= n {
			break
		}
		p := corpus[i]
		s := string(p.RootContent())
		// prefer files that use many directive kinds, includes and macros
		if p.HasInclude() || strings.Contains(s, "MACRO") || strings.Count(s, "\n") > 25 || r.Intn(6) == 0 {
			out = append(out, p)
		}
	}
	return out
}

// C19 – banned directives.
func C19(c *fw.Ctx) {
	c.Level = "fault_enumeration"
	nProj := c.Pick(30, 150)
	c.Rule(fmt.Sprintf("every subset of size 1 and 2 of the 31 directive kinds (496 configurations) x %d projects (7 hand-made ones that together use all "+
		"31 kinds directly, inside INCLUDEd files, inside pasted and unused MACRO bodies; the rest drawn from the corpus, preferring includes and "+
		"macros), each built through kit.NewJapi(path, option) and through core.NewJApiCore(file, option).BuildCatalog(); which kinds a project "+
		"contains is taken from the scan-phase directive tree of the build without the option; plus 25 documents in which the banned "+
		"directive has a fault of its own (missing file, bad parameter, missing body, duplicate ...) - the ban must win; plus every kind x 22 positions a keyword line can "+
		"stand in (after a description text, an annotation, a body, a comment, a parenthesis ...) x root file / included file / MACRO body; plus sequences of builds that reuse Option VALUES "+
		"([A], [A,B], [A], [], [B], [B,A], [B] in one process): equal options must give equal results whatever other builds got; distinct = distinct (project, configuration, API); "+
		"non-trivial = every case", nProj))
	c.Assume("presence of a kind is read from the phase-snapshot hook of the unrestricted build (INCLUDE: from the file-access hook)")
	pool := c.Pool(false, 0)
	projects := banProjects(c, nProj)
	bases := make([]*banBase, len(projects))
	// pass 1: baselines
	c.RunJobs(pool, func(emit func(*proto.Job)) {
		for i, p := range projects {
			j := &proto.Job{ID: fmt.Sprintf("base/%d", i), Root: p.Root, Files: p.Files, WantPhases: true, WantFiles: true, Ops: []string{"json"}}
			emit(j)
		}
	}, func(j *proto.Job, res *proto.Result) {
		if workerProblem(c, res) {
			return
		}
		var i int
		fmt.Sscan(strings.TrimPrefix(j.ID, "base/"), &i)
		b := &banBase{proj: projects[i], name: projects[i].Name, accepted: res.Accepted, sig: resultSig(res), kinds: map[string][][2]string{}}
		if res.ScanDone {
			collectKinds(res.Scan, j.Files, res.Dir, b.kinds)
		} else {
			b.kinds = nil // the scan phase failed: presence unknown
		}
		// hand-made projects: the kinds that are written are also known without the implementation (first word of a line that is a
		// keyword; these texts have no body or text line that begins with one). A kind that is written but not in the scan tree
		// was swallowed by something; it still counts as present.
		if strings.HasPrefix(b.name, "hand-") && b.kinds != nil {
			kw := keywordList()
			for fname, content := range j.Files {
				for ln, line := range strings.Split(string(content), "\n") {
					f := strings.Fields(line)
					if len(f) == 0 || !kw[f[0]] {
						continue
					}
					kind := f[0]
					if len(kind) == 3 && kind[0] >= '1' && kind[0] <= '5' {
						kind = "HTTP-response-code"
					}
					if kind == "INCLUDE" {
						continue
					}
					if len(b.kinds[kind]) == 0 {
						c.Violate("ban:kind-written-but-not-scanned:"+kind, fmt.Sprintf("%s: %s:%d begins with the keyword %s but the scan tree of the build holds no %s directive", b.name, fname, ln+1, f[0], kind), replayOf(j, res))
						b.kinds[kind] = append(b.kinds[kind], [2]string{fname, fmt.Sprint(ln + 1)})
					}
				}
			}
		}
		if b.kinds != nil {
			for _, e := range res.Files {
				if e.Op == "stat" {
					b.kinds["INCLUDE"] = append(b.kinds["INCLUDE"], [2]string{"?", "0"})
				}
			}
		}
		if js := findOut(res, "json"); js != nil {
			b.json = js.Bytes
		}
		bases[i] = b
	})
	var subsets [][]string
	for i, a := range allKinds {
		subsets = append(subsets, []string{a})
		for _, b := range allKinds[i+1:] {
			subsets = append(subsets, []string{a, b})
		}
	}
	kindsBannedAndPresent := newStrSet()
	c.RunJobs(pool, func(emit func(*proto.Job)) {
		for i, b := range bases {
			if b == nil {
				continue
			}
			for si, s := range subsets {
				for _, via := range []bool{false, true} {
					j := &proto.Job{ID: fmt.Sprintf("ban/%d/%d/%v", i, si, via), Root: b.proj.Root, Files: b.proj.Files, Banned: s, ViaCore: via, Ops: []string{"json"}}
					// the set given as one option, as two options, or (size 2) in the other order
					switch (i + si) % 3 {
					case 1:
						j.BannedSplit = true
					case 2:
						if len(s) == 2 {
							j.Banned = []string{s[1], s[0]}
						}
					}
					emit(j)
				}
			}
		}
	}, func(j *proto.Job, res *proto.Result) {
		if workerProblem(c, res) {
			return
		}
		var i, si int
		var via bool
		fmt.Sscanf(strings.ReplaceAll(strings.TrimPrefix(j.ID, "ban/"), "/", " "), "%d %d %v", &i, &si, &via)
		b, s := bases[i], subsets[si]
		c.Count(fmt.Sprintf("%s|%v|%v", b.name, s, via), true)
		if j.BannedSplit {
			c.Inc("cases", "set-given-as-separate-options", 1)
		}
		rp := replayOf(j, res)
		if sig, what := crashSig(res); sig != "" && !strings.HasPrefix(b.sig, "false|panic") {
			c.Violate(sig, fmt.Sprintf("banned %v on %s: %s", s, b.name, what), rp)
			return
		}
		if !b.accepted {
			c.Inc("cases", "project-rejected-without-option", 1)
			if res.Accepted {
				c.Violate("ban:rejected-project-accepted", fmt.Sprintf("%s is rejected without the option but accepted with banned %v", b.name, s), rp)
			}
			return
		}
		var present []string
		for _, k := range s {
			if len(b.kinds[k]) > 0 {
				present = append(present, k)
			}
		}
		if len(present) == 0 {
			c.Inc("cases", "banned-kind-absent", 1)
			if got := resultSig(res); got != b.sig {
				if js := findOut(res, "json"); js != nil && b.json != nil && js.Bytes != nil && exampleOnlyDiff(b.json, js.Bytes, j.Files) {
					c.Violate("ban:"+sigRegexExample, b.name+": only regex-type examples differ from the build without the option", rp)
					return
				}
				c.Violate("ban:absent-kind-changes-result", fmt.Sprintf("%s contains none of %v but the result changed: %s VS %s", b.name, s, trunc(b.sig, 200), trunc(got, 200)), rp)
			}
			return
		}
		c.Inc("cases", "banned-kind-present", 1)
		for _, k := range present {
			kindsBannedAndPresent.add(k)
		}
		if res.Accepted || res.Err == nil {
			sort.Strings(present)
			c.Violate("ban:escaped:"+strings.Join(present, "+"), fmt.Sprintf("%s contains %v which is banned, but the build succeeded (via core=%v)", b.name, present, via), rp)
			return
		}
		e := res.Err
		if !strings.HasPrefix(e.Msg, "the directive is not allowed") {
			c.Violate("ban:wrong-error:"+strings.Join(present, "+"), fmt.Sprintf("%s with banned %v present: error %q", b.name, present, e.Msg), rp)
			return
		}
		named := false
		for _, k := range present {
			if strings.Contains(e.Msg, "("+k+")") {
				named = true
				// located on a directive of that kind
				onDirective := false
				for _, pos := range b.kinds[k] {
					if pos[0] == "?" || (pos[0] == relName(res, e.File) && pos[1] == fmt.Sprint(e.Line)) {
						onDirective = true
					}
				}
				if !onDirective {
					c.Violate("ban:location:"+k, fmt.Sprintf("%s: not-allowed error for %s at %s:%d, but the %s directives are at %v", b.name, k, relName(res, e.File), e.Line, k, b.kinds[k]), rp)
				}
			}
		}
		// "on that directive" includes how the file of the directive was reached: the include trace must be a chain of INCLUDE lines
		// each of which leads to the file of the frame before it, ending in the root file
		if pairs, ok := parseTrace(res); ok && len(pairs) > 0 {
			c.Inc("cases", fmt.Sprintf("include-trace-depth-%d", len(pairs)-1), 1)
			if kind, what := traceChainProblem(j.Files, j.Root, pairs); kind != "" {
				c.Violate("ban:"+kind, fmt.Sprintf("%s with banned %v: %s", b.name, present, what), rp)
			}
			if relName(res, e.File) != j.Root && len(pairs) < 2 {
				c.Violate("ban:trace:missing", fmt.Sprintf("%s with banned %v: the error is in the included file %s but Error() carries no include trace", b.name, present, relName(res, e.File)), rp)
			}
		}
		if !named {
			c.Violate("ban:names-wrong-kind", fmt.Sprintf("%s with banned %v present: message %q names none of them", b.name, present, e.Msg), rp)
		}
		if c.NeedSample() && len(s) == 2 {
			c.Sample(map[string]interface{}{"project": b.name, "banned": s, "present": present, "error": e.Msg, "file": relName(res, e.File), "line": e.Line, "via_core": via})
		}
	})
	// A banned directive that has a fault of its own is still reported as banned: the ban is about the occurrence of the keyword.
	type faulty struct {
		doc, kind string
		line      int
		files     map[string]string
	}
	faulties := []faulty{
		{"JSIGHT 0.3\nINCLUDE missing.jst\n", "INCLUDE", 2, nil},
		{"JSIGHT 0.3\nINCLUDE ..\n", "INCLUDE", 2, nil},
		{"JSIGHT 0.3\nINCLUDE /etc/passwd\n", "INCLUDE", 2, nil},
		{"JSIGHT 0.3\nINCLUDE\n", "INCLUDE", 2, nil},
		{"JSIGHT 0.3\nINCLUDE sub\n", "INCLUDE", 2, map[string]string{"sub/x.jst": "TYPE @x any\n"}},
		{"JSIGHT 0.3\nTYPE @a any\nINCLUDE \"a b\n", "INCLUDE", 3, nil},
		{"JSIGHT 0.3\nGET /a\n  200 any\nINCLUDE root.jst\n", "INCLUDE", 4, nil},
		{"JSIGHT 0.3\nGET /a\n  PASTE @nowhere\n  200 any\n", "PASTE", 3, nil},
		{"JSIGHT 0.3\nGET /a\n  PASTE\n  200 any\n", "PASTE", 3, nil},
		{"JSIGHT 0.3\nMACRO\n(\n  200 any\n)\n", "MACRO", 2, nil},
		{"JSIGHT 0.3\nMACRO @m\n(\n  PASTE @m\n)\n", "MACRO", 2, nil},
		{"JSIGHT 0.3\nTYPE\n  1\n", "TYPE", 2, nil},
		{"JSIGHT 0.3\nTYPE @t\n  {\"a\": @nowhere}\n", "TYPE", 2, nil},
		{"JSIGHT 0.3\nENUM @e\n", "ENUM", 2, nil},
		{"JSIGHT 0.3\nENUM @e\n  [1, 1]\n", "ENUM", 2, nil},
		{"JSIGHT 0.3\nGET\n  200 any\n", "GET", 2, nil},
		{"JSIGHT 0.3\nGET /a // ann\n  Tags @none\n  200 any\n", "Tags", 3, nil},
		{"JSIGHT 0.3\nGET /a\n  200\n", "HTTP-response-code", 3, nil},
		{"JSIGHT 0.3\nGET /a\n  200 any\nGET /a\n  200 any\n", "GET", 2, nil},
		{"JSIGHT 0.3\nSERVER @s\n", "SERVER", 2, nil},
		{"JSIGHT 0.3\nTAG\n", "TAG", 2, nil},
		{"JSIGHT 0.3\nURL /a\n  Protocol soap\n", "Protocol", 3, nil},
		{"JSIGHT 0.3\nGET /a\n  Description\n  200 any\n", "Description", 3, nil},
		{"JSIGHT 0.3\nINFO\n  Title\n", "Title", 3, nil},
		{"JSIGHT 9.9\n", "JSIGHT", 1, nil},
	}
	c.RunJobs(pool, func(emit func(*proto.Job)) {
		for i, f := range faulties {
			for _, via := range []bool{false, true} {
				files := map[string][]byte{"root.jst": []byte(f.doc)}
				for k, v := range f.files {
					files[k] = []byte(v)
				}
				emit(&proto.Job{ID: fmt.Sprintf("faulty/%d/%v", i, via), Root: "root.jst", Files: files, Banned: []string{f.kind}, ViaCore: via, WantFiles: true})
			}
		}
	}, func(j *proto.Job, res *proto.Result) {
		if workerProblem(c, res) {
			return
		}
		var i int
		var via bool
		fmt.Sscanf(strings.ReplaceAll(strings.TrimPrefix(j.ID, "faulty/"), "/", " "), "%d %v", &i, &via)
		f := faulties[i]
		c.Count(j.ID, true)
		c.Inc("cases", "banned-directive-with-a-fault-of-its-own", 1)
		rp := replayOf(j, res)
		if sig, what := crashSig(res); sig != "" {
			c.Violate(sig, what, rp)
			return
		}
		if res.Accepted || res.Err == nil {
			c.Violate("ban:escaped:"+f.kind, fmt.Sprintf("a document with a banned %s (line %d) was accepted", f.kind, f.line), rp)
			return
		}
		if want := "the directive is not allowed (" + f.kind + ")"; !strings.HasPrefix(res.Err.Msg, want) {
			c.Violate("ban:wrong-error:faulty-"+f.kind, fmt.Sprintf("banned %s written with a fault of its own on line %d: expected %q, got %q at line %d", f.kind, f.line, want, res.Err.Msg, res.Err.Line), rp)
			return
		}
		if res.Err.Line != f.line || relName(res, res.Err.File) != "root.jst" {
			c.Violate("ban:location:"+f.kind, fmt.Sprintf("banned %s is on root.jst:%d, error says %s:%d", f.kind, f.line, relName(res, res.Err.File), res.Err.Line), rp)
		}
		if f.kind == "INCLUDE" {
			for _, e := range res.Files {
				if e.Op != "read-root" {
					c.Violate("ban:include-consulted-file-system", fmt.Sprintf("INCLUDE is banned but the builder did %s %s", e.Op, e.Path), rp)
					break
				}
			}
		}
	})
	// Every kind in every position a keyword can stand in: after a description text, an annotation, a body, a comment, a parenthesis
	// ... - directly in the root file, in an included file and in the body of a MACRO. The text before the keyword line is
	// well-formed, so the banned keyword is the first thing to object to.
	type placed struct {
		kind, place, form string
		file              string
		line              int
	}
	var placedCases []placed
	c.RunJobs(pool, func(emit func(*proto.Job)) {
		for pi, pl := range keywordPlacements() {
			for _, k := range allKinds {
				for form := 0; form < 3; form++ {
					kwl := keywordLine[k]
					if k == "HTTP-response-code" {
						// the one kind whose keyword is a range: its ends and the digits 0 and 9 in every position
						kwl = []string{"100", "199", "201", "299", "300", "409", "490", "499", "500", "590", "599", "509"}[(pi*3+form)%12] + " any"
					}
					text := pl.before + pl.indent + kwl + "\n"
					line := strings.Count(pl.before, "\n") + 1
					if strings.Contains(pl.before, "\r\n") {
						text = pl.before + pl.indent + kwl + "\r\n"
					}
					files := map[string][]byte{}
					pc := placed{kind: k, place: pl.name, file: "root.jst", line: line}
					switch form {
					case 0:
						pc.form = "root-file"
						files["root.jst"] = []byte(text)
					case 1:
						// the same text without its JSIGHT line as an included file
						pc.form = "included-file"
						rest := text[strings.Index(text, "\n")+1:]
						files["root.jst"] = []byte("JSIGHT 0.3\nINCLUDE inc/piece.jst\n")
						files["inc/piece.jst"] = []byte(rest)
						pc.file, pc.line = "inc/piece.jst", line-1
						if k == "INCLUDE" {
							continue // INCLUDE would itself be banned in the root file
						}
					case 2:
						// ... and as the body of a macro
						pc.form = "macro-body"
						if strings.Contains(pl.before, "\r\n") || k == "MACRO" || strings.Contains(pl.before, "TAG") || strings.Contains(pl.before, "INFO") || strings.Contains(pl.before, "ENUM") {
							continue // root-level directives have no place in a macro body: the first fault would be theirs
						}
						rest := text[strings.Index(text, "\n")+1:]
						files["root.jst"] = []byte("JSIGHT 0.3\nMACRO @holder\n(\n" + rest)
						pc.line = line + 2
					}
					// a kind that the text before the line uses too is met there first (scan order: root file, the included file at its INCLUDE)
					pc.file, pc.line = firstLineOfKind(files, k)
					id := fmt.Sprintf("placed/%d", len(placedCases))
					placedCases = append(placedCases, pc)
					emit(&proto.Job{ID: id, Root: "root.jst", Files: files, Banned: []string{k}, ViaCore: len(placedCases)%2 == 0})
				}
			}
		}
	}, func(j *proto.Job, res *proto.Result) {
		if workerProblem(c, res) {
			return
		}
		var i int
		fmt.Sscan(strings.TrimPrefix(j.ID, "placed/"), &i)
		pc := placedCases[i]
		c.Count(j.ID, true)
		c.Inc("cases", "banned-keyword-placed:"+pc.form, 1)
		c.Inc("placements", pc.place, 1)
		rp := replayOf(j, res)
		if sig, what := crashSig(res); sig != "" {
			c.Violate(sig, what, rp)
			return
		}
		if res.Accepted || res.Err == nil {
			c.Violate("ban:escaped:"+pc.kind, fmt.Sprintf("a banned %s %s (%s) was accepted", pc.kind, pc.place, pc.form), rp)
			return
		}
		if want := "the directive is not allowed (" + pc.kind + ")"; !strings.HasPrefix(res.Err.Msg, want) {
			c.Violate("ban:wrong-error:placed-"+pc.kind, fmt.Sprintf("banned %s %s (%s, %s:%d): expected %q, got %q at %s:%d", pc.kind, pc.place, pc.form, pc.file, pc.line, want, res.Err.Msg, relName(res, res.Err.File), res.Err.Line), rp)
			return
		}
		if res.Err.Line != pc.line || relName(res, res.Err.File) != pc.file {
			c.Violate("ban:location:"+pc.kind, fmt.Sprintf("banned %s %s is on %s:%d, error says %s:%d", pc.kind, pc.place, pc.file, pc.line, relName(res, res.Err.File), res.Err.Line), rp)
		}
	})
	// Option values that are reused. A caller may keep its options in variables and hand them to many builds; a build configured with
	// the options (A) must behave the same before and after an unrelated build got (A, B). One job = one worker process = one
	// sequence of builds with process-wide Option values: [A], [A,B], [A], [], [B], [B,A], [B].
	type reuse struct {
		name string
		a, b string
	}
	reuses := map[string]reuse{}
	c.RunJobs(pool, func(emit func(*proto.Job)) {
		rr := gen.Rng(c.Seed, c.ID, "option-reuse")
		for i, bs := range bases {
			if bs == nil || !bs.accepted || bs.kinds == nil {
				continue
			}
			var absent, present []string
			for _, k := range allKinds {
				if len(bs.kinds[k]) > 0 {
					present = append(present, k)
				} else if k != "INCLUDE" {
					absent = append(absent, k)
				}
			}
			if len(absent) == 0 || len(present) == 0 {
				continue
			}
			for q := 0; q < c.Pick(3, 10); q++ {
				a, b := absent[rr.Intn(len(absent))], present[rr.Intn(len(present))]
				id := fmt.Sprintf("reuse/%d/%d", i, q)
				maxMuLock.Lock()
				reuses[id] = reuse{bs.name, a, b}
				maxMuLock.Unlock()
				emit(&proto.Job{ID: id, Root: bs.proj.Root, Files: bs.proj.Files, Ops: []string{"json"}, Fresh: q == 0,
					OptSeq: [][][]string{{{a}}, {{a}, {b}}, {{a}}, {}, {{b}}, {{b}, {a}}, {{b}}}})
			}
		}
	}, func(j *proto.Job, res *proto.Result) {
		if workerProblem(c, res) {
			return
		}
		maxMuLock.Lock()
		ru := reuses[j.ID]
		maxMuLock.Unlock()
		c.Count(j.ID+ru.name+ru.a+ru.b, true)
		c.Inc("cases", "option-values-reused-across-builds", 1)
		rp := replayOf(j, res)
		if res.Fatal != nil {
			c.Violate("fatal:"+res.Fatal.Kind+":"+res.Fatal.Func, "worker died during the option-reuse sequence: "+firstLines(res.Fatal.Stderr, 4), rp)
			return
		}
		if len(res.OptSigs) != 7 {
			c.Inconclusive("option-reuse sequence did not return 7 results")
			return
		}
		s := res.OptSigs
		if s[0] != s[2] {
			c.Violate("ban:reused-option-value-remembers-other-builds", fmt.Sprintf("%s: the build with the option value ban(%s) gives another result after an unrelated build got ban(%s), ban(%s): %s  VS  %s", ru.name, ru.a, ru.a, ru.b, trunc(s[0], 200), trunc(s[2], 200)), rp)
		}
		if s[4] != s[6] {
			c.Violate("ban:reused-option-value-remembers-other-builds", fmt.Sprintf("%s: the build with the option value ban(%s) gives another result after an unrelated build got ban(%s), ban(%s): %s  VS  %s", ru.name, ru.b, ru.b, ru.a, trunc(s[4], 200), trunc(s[6], 200)), rp)
		}
		if !strings.Contains(s[0], "accepted=true") || !strings.Contains(s[3], "accepted=true") {
			c.Violate("ban:absent-kind-changes-result", fmt.Sprintf("%s contains no %s but the build with ban(%s) (or without options) is rejected: %s", ru.name, ru.a, ru.a, trunc(s[0], 200)), rp)
		}
		if strings.Contains(s[1], "accepted=true") || strings.Contains(s[4], "accepted=true") || strings.Contains(s[5], "accepted=true") {
			c.Violate("ban:escaped:"+ru.b, fmt.Sprintf("%s contains %s but a build with the reused option value ban(%s) succeeded", ru.name, ru.b, ru.b), rp)
		}
	})
	c.Extra("kinds_banned_while_present", kindsBannedAndPresent.len())
	if kindsBannedAndPresent.len() < 31 {
		var missing []string
		for _, k := range allKinds {
			if !kindsBannedAndPresent.has(k) {
				missing = append(missing, k)
			}
		}
		c.Inconclusive(fmt.Sprintf("kinds never banned while present: %v", missing))
	}
	c.Finish()
}

// firstLineOfKind: the first line, in the order the builder reads the project (root.jst, inc/piece.jst where the root includes it),
// that begins with a keyword of the given kind.
func firstLineOfKind(files map[string][]byte, kind string) (string, int) {
	var walk func(name string) (string, int)
	walk = func(name string) (string, int) {
		text := strings.ReplaceAll(string(files[name]), "\r\n", "\n")
		for i, ln := range strings.Split(text, "\n") {
			f := strings.Fields(ln)
			if len(f) == 0 {
				continue
			}
			k := f[0]
			if len(k) == 3 && k[0] >= '1' && k[0] <= '5' && k[1] >= '0' && k[1] <= '9' {
				k = "HTTP-response-code"
			}
			if k == kind {
				return name, i + 1
			}
			if k == "INCLUDE" && len(f) > 1 {
				if _, ok := files[f[1]]; ok {
					if fn, l := walk(f[1]); l != 0 {
						return fn, l
					}
				}
			}
		}
		return "", 0
	}
	return walk("root.jst")
}
