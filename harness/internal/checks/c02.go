package checks

import (
	"fmt"
	"strings"

	"verifharness/internal/fw"
	"verifharness/internal/gen"
	"verifharness/internal/model"
	"verifharness/internal/proto"
	"verifharness/internal/ref"
)

type rendering struct {
	m  *model.Model
	l  *model.Layout
	rd *model.Rendered
}

func layoutKey(l *model.Layout) map[string]string {
	eol := map[string]string{"\n": "lf", "\r\n": "crlf", "\r": "cr"}[l.EOL]
	unit := map[string]string{"  ": "2sp", "    ": "4sp", "\t": "tab"}[l.Unit]
	return map[string]string{"eol": eol, "unit": unit, "comments": fmt.Sprint(l.Comments), "trailing": fmt.Sprint(l.Trailing), "quoteAll": fmt.Sprint(l.QuoteAll),
		"blockAnn": fmt.Sprint(l.BlockAnn), "explicit%": fmt.Sprint(l.ExplicitP), "standalone%": fmt.Sprint(l.Standalone), "macros": fmt.Sprint(l.Macros),
		"includes": fmt.Sprint(l.Includes), "flat": fmt.Sprint(l.FlatIndent), "gaps": fmt.Sprint(l.Gaps)}
}

func renderingJob(id string, rd *model.Rendered) *proto.Job {
	j := &proto.Job{ID: id, Root: rd.Root, Files: rd.Files}
	if len(rd.Files) == 1 {
		j.InMemory = true
	}
	return j
}

func filesAsStrings(files map[string][]byte) map[string]string {
	out := map[string]string{}
	for k, v := range files {
		out[k] = string(v)
	}
	return out
}

// C02 – the catalog says exactly what the document says.
func C02(c *fw.Ctx) {
	nModels, nRender := c.Pick(1500, 40000), c.Pick(4, 6)
	c.Rule(fmt.Sprintf("%d seeded abstract models (info, servers, tags, enums, types in four notations, URL groups and stand-alone methods with "+
		"query/request/responses/headers/path variables, JSON-RPC methods; schemas from a sub-language with objects, arrays, five scalars, "+
		"references, unions, shortcut keys, the rules optional/nullable/const/min/max/exclusiveMinimum/exclusiveMaximum/precision/minLength/maxLength/regex/minItems/maxItems/additionalProperties/enum (list, mixed literals, by name)/type (built-in and user)/allOf/or (names and objects) and notes; see observed schema_features) x %d renderings each over the layout "+
		"dimensions (indent unit, LF/CRLF/CR, explicit/implicit contexts, URL-grouped/stand-alone, quoting, // vs /* */, comments, trailing "+
		"blanks, MACRO+PASTE, INCLUDE files); oracle = expected catalog computed from the model alone; distinct = distinct rendered projects; "+
		"non-trivial = model with >= 2 interactions and >= 1 type", nModels, nRender))
	c.Assume("the expected-catalog builder covers the schema sub-language only (harness/internal/model); usedUserTypes is compared as a set, examples structurally")
	pool := c.Pool(false, 0)
	pending := map[string]*rendering{}
	c.RunJobs(pool, func(emit func(*proto.Job)) {
		r := gen.Rng(c.Seed, c.ID, "models")
		for i := 0; i < nModels; i++ {
			sz := model.QuickSize
			if i%3 == 0 {
				sz = model.FullSize
			}
			m := model.Generate(r, sz)
			for k := 0; k < nRender; k++ {
				l := model.RandomLayout(gen.Rng(c.Seed, c.ID, "layout", fmt.Sprint(i), fmt.Sprint(k)))
				if k == 0 {
					l = model.PlainLayout()
				}
				rd := m.Render(l)
				id := fmt.Sprintf("render/%d-%d", i, k)
				maxMuLock.Lock()
				pending[id] = &rendering{m, l, rd}
				maxMuLock.Unlock()
				j := renderingJob(id, rd)
				// "the catalog says": whatever the caller did with the catalog before it reads it (the exporters walk the same objects)
				j.Ops = [][]string{{"json"}, {"openapi", "json"}, {"jsonindent", "openapi", "title", "json"}, {"openapiindent", "openapi", "json"}}[k%4]
				emit(j)
			}
		}
	}, func(j *proto.Job, res *proto.Result) {
		if workerProblem(c, res) {
			return
		}
		maxMuLock.Lock()
		rn := pending[j.ID]
		delete(pending, j.ID)
		maxMuLock.Unlock()
		nontrivial := rn.m.Interactions() >= 2 && rn.m.TypesCount() >= 1
		c.Count(jobKey(j), nontrivial)
		for k, v := range layoutKey(rn.l) {
			c.Inc("layout_"+k, v, 1)
		}
		rp := &fw.Replay{Jobs: []*proto.Job{j}, Results: []interface{}{res}, Expected: map[string]interface{}{"files": filesAsStrings(j.Files)}}
		if sig, what := crashSig(res); sig != "" {
			c.Violate(sig, what, rp)
			return
		}
		if !res.Accepted {
			c.Violate("rendered-model-rejected:"+strings.ReplaceAll(errKey(res.Err.Msg), " ", "-"), fmt.Sprintf("a rendered model was rejected: %s (%s:%d)", res.Err.Msg, relName(res, res.Err.File), res.Err.Line), rp)
			return
		}
		js := findOut(res, "json")
		if sig, what := outProblem(js); sig != "" {
			c.Violate(sig, what, rp)
			return
		}
		v, err := ref.ParseJSON(js.Bytes)
		if err != nil {
			c.Violate("output:not-json", err.Error(), rp)
			return
		}
		diffs := rn.m.Expect().Compare(v)
		c.Inc("entities", "interactions_compared", rn.m.Interactions())
		c.Inc("entities", "types_compared", rn.m.TypesCount())
		for k, n := range rn.m.Features() {
			c.Inc("schema_features", k, n)
		}
		for _, d := range diffs {
			p := d.Path
			// signature: kind + the path with names and indices removed
			c.Violate("catalog-differs:"+d.Kind+":"+pathShape(p), d.String(), rp)
		}
		if c.NeedSample() && nontrivial && len(j.Files) > 1 {
			c.Sample(map[string]interface{}{"files": filesAsStrings(j.Files), "layout": layoutKey(rn.l), "interactions": rn.m.Interactions()})
		}
	})
	c.Finish()
}

func pathShape(p string) string {
	var out []string
	for _, seg := range strings.Split(p, "/") {
		if seg == "" {
			continue
		}
		if i := strings.Index(seg, "["); i >= 0 {
			seg = seg[:i] + "[]"
		}
		if strings.HasPrefix(seg, "@") || strings.HasPrefix(seg, "http ") || strings.HasPrefix(seg, "json-rpc") {
			seg = "*"
		}
		out = append(out, seg)
	}
	if len(out) > 6 {
		out = out[len(out)-6:]
	}
	return strings.Join(out, ".")
}
