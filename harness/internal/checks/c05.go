package checks

import (
	"strings"
	"unicode/utf8"

	"verifharness/internal/fw"
	"verifharness/internal/proto"
	"verifharness/internal/ref"
)

func allValidUTF8(j *proto.Job) bool {
	for _, v := range j.Files {
		if !utf8.Valid(v) {
			return false
		}
	}
	return true
}

// C05 – cross references are closed and names unique.
func C05(c *fw.Ctx) {
	c.Rule("corpus, 1-2 step mutants, targeted generator (tags, URL grouping, shared path prefixes, Path on URL and method level, json-rpc, " +
		"MACRO/PASTE/INCLUDE from the corpus); only valid UTF-8 projects; every accepted catalog is parsed and its references resolved; " +
		"distinct = distinct project bytes; non-trivial = accepted and the catalog has at least one interaction or user type")
	c.Assume("path parameters are the whole-segment {name} parts of the path before '?' or '#'")
	pool := c.Pool(false, 0)
	c.RunJobs(pool, func(emit func(*proto.Job)) {
		acceptedWorkload(c, c.Pick(2, 30), func(label string, j *proto.Job) {
			if !allValidUTF8(j) {
				return
			}
			j.ID = label + "/" + j.ID
			j.Ops = []string{"json"}
			emit(j)
		})
		tagWorkload(c, c.Pick(3000, 60000), func(label string, j *proto.Job) {
			j.ID = label + "/" + j.ID
			j.Ops = []string{"json"}
			emit(j)
		})
	}, func(j *proto.Job, res *proto.Result) {
		if workerProblem(c, res) {
			return
		}
		label := j.ID[:strings.Index(j.ID, "/")]
		c.Inc("streams", label, 1)
		if sig, _ := crashSig(res); sig != "" || !res.Accepted {
			c.Count(jobKey(j), false)
			c.Inc("verdicts", "not-accepted", 1)
			return
		}
		js := findOut(res, "json")
		if sig, _ := outProblem(js); sig != "" {
			c.Count(jobKey(j), false)
			c.Inc("verdicts", "tojson-failed(judged by C04)", 1)
			return
		}
		v, err := ref.ParseJSON(js.Bytes)
		if err != nil {
			c.Count(jobKey(j), false)
			c.Inc("verdicts", "not-json(judged by C04)", 1)
			return
		}
		rep := ref.CrossRef(v)
		nontrivial := rep.Resolved["interactions"] > 0 || rep.Resolved["usedUserTypes"] > 0
		c.Count(jobKey(j), nontrivial)
		c.Inc("verdicts", "checked", 1)
		for k, n := range rep.Resolved {
			c.Inc("references_resolved", k, n)
		}
		for _, e := range rep.Errors {
			rule := e[:strings.Index(e, ":")]
			c.Violate("xref:"+rule, e, replayOf(j, res))
		}
		if c.NeedSample() && label == "tags" && rep.Resolved["interaction->tag"] > 2 {
			c.Sample(map[string]interface{}{"document": sampleDoc(j.Files[j.Root]), "resolved": rep.Resolved})
		}
	})
	if c.Hist("verdicts")["checked"] < 500 {
		c.Inconclusive("fewer than 500 catalogs were checked")
	}
	c.Finish()
}
