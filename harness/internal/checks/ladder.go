package checks

import (
	"fmt"
	"strings"
)

// Type ladders: n user types, @t<i> names @t<i+1> and @t<i+2>. The number of chains of references grows like the Fibonacci
// numbers, so whatever walks every chain needs exponential time (D69). The library bounds the walk; the forms and decorations
// below are the ways a reference can be written and the ways a place can carry - or only seem to carry - a rule that takes
// the reference out of the walk.
const (
	ladderForms = 10
	ladderDecos = 8
)

var ladderFormNames = []string{"property", "array-item", "union", "or-rule", "allOf-rule", "additionalProperties-rule", "nested-object", "shortcut-key", "root-union", "nested-array"}
var ladderDecoNames = []string{"plain", "optional-true", "nullable-true", "optional-false", "note-says-optional", "key-says-optional", "block-annotation-optional", "nullable-false-note-says-true"}

// typeLadder renders the document. Whether it is legal does not matter to C01 (most are).
func typeLadder(n, form, deco int) []byte {
	var sb strings.Builder
	sb.WriteString("JSIGHT 0.3\n\nTYPE @leaf\n{\"q\": 1}\n\n")
	for i := 1; i <= n; i++ {
		fmt.Fprintf(&sb, "TYPE @t%d\n", i)
		if form == 8 { // the body is a union
			switch {
			case i+2 <= n:
				fmt.Fprintf(&sb, "@t%d | @t%d%s\n\n", i+1, i+2, ladderAnnotation("", deco, false))
			case i+1 <= n:
				fmt.Fprintf(&sb, "@t%d | @leaf\n\n", i+1)
			default:
				sb.WriteString("{\"z\": 1}\n\n")
			}
			continue
		}
		sb.WriteString("{\n")
		if i+1 <= n {
			sb.WriteString(ladderPlace(form, deco, "a", i+1))
		}
		if i+2 <= n {
			sb.WriteString(ladderPlace(form, deco, "b", i+2))
		}
		sb.WriteString("  \"z\": 1\n}\n\n")
	}
	sb.WriteString("GET /a\n  200 @t1\n")
	return []byte(sb.String())
}

// ladderAnnotation gives the text after the value: rules (own rules of the form first) and note.
func ladderAnnotation(rules string, deco int, block bool) string {
	add := func(r string) {
		if rules != "" {
			rules += ", "
		}
		rules += r
	}
	note := ""
	switch deco {
	case 1, 6:
		add("optional: true")
	case 2:
		add("nullable: true")
	case 3:
		add("optional: false")
	case 4:
		note = "optional: true"
	case 7:
		add("nullable: false")
		note = "{nullable: true}"
	}
	text := ""
	switch {
	case rules != "" && note != "":
		text = "{" + rules + "} - " + note
	case rules != "":
		text = "{" + rules + "}"
	case note != "":
		text = note
	default:
		return ""
	}
	if deco == 6 || block {
		return " /* " + text + " */"
	}
	return " // " + text
}

func ladderPlace(form, deco int, key string, t int) string {
	tn := fmt.Sprintf("@t%d", t)
	if deco == 5 {
		key = "optional: true, nullable: true " + key
	}
	switch form {
	case 0:
		return fmt.Sprintf("  %q: %s,%s\n", key, tn, ladderAnnotation("", deco, false))
	case 1:
		return fmt.Sprintf("  %q: [\n    %s%s\n  ],\n", key, tn, ladderAnnotation("", deco, false))
	case 2:
		return fmt.Sprintf("  %q: %s | @leaf,%s\n", key, tn, ladderAnnotation("", deco, false))
	case 3:
		return fmt.Sprintf("  %q: 1,%s\n", key, ladderAnnotation(fmt.Sprintf("or: [%q, \"integer\"]", tn), deco, false))
	case 4:
		return fmt.Sprintf("  %q: {},%s\n", key, ladderAnnotation(fmt.Sprintf("allOf: %q", tn), deco, false))
	case 5:
		return fmt.Sprintf("  %q: {},%s\n", key, ladderAnnotation(fmt.Sprintf("additionalProperties: %q", tn), deco, false))
	case 6:
		return fmt.Sprintf("  %q: {%s\n    \"in\": %s\n  },\n", key, ladderAnnotation("", deco, false), tn)
	case 7:
		return fmt.Sprintf("  %s: {\"z\": 2},%s\n", tn, ladderAnnotation("", deco, false))
	case 9:
		return fmt.Sprintf("  %q: [[\n    %s%s\n  ]],\n", key, tn, ladderAnnotation("", deco, false))
	}
	return ""
}
