package checks

import (
	"fmt"
	"strings"
)

// typeUsageMatrix enumerates (kind of user type) x (way of referring to it) x (place where a schema may stand): every combination
// once, whether it is legal or not. Building, serialising and exporting must be total on all of them, and the places where building
// and serialising are decoupled (lazy compilation of exchange schemas, casts of a referenced type to an object) are all on this grid.
func typeUsageMatrix(emit emitFn) {
	types := []struct{ name, text string }{
		{"object", "TYPE @t\n{\n  \"k\": 1\n}\n"},
		{"integer", "TYPE @t\n12 // {min: 1}\n"},
		{"string", "TYPE @t\n\"abc\"\n"},
		{"array", "TYPE @t\n[\n  1\n]\n"},
		{"null", "TYPE @t\nnull\n"},
		{"boolean", "TYPE @t\ntrue\n"},
		{"regex", "TYPE @t regex\n/ab+c/\n"},
		{"any", "TYPE @t any\n"},
		{"empty", "TYPE @t empty\n"},
		{"alias-of-object", "TYPE @t\n@o\nTYPE @o\n{\n  \"k\": 1\n}\n"},
		{"alias-of-regex", "TYPE @t\n@r\nTYPE @r regex\n/x+/\n"},
		{"alias-of-any", "TYPE @t\n@a\nTYPE @a any\n"},
		{"alias-of-alias-of-regex", "TYPE @t\n@m\nTYPE @m\n@r\nTYPE @r regex\n/x+/\n"},
		{"union", "TYPE @t\n@o | @r\nTYPE @o\n{\n  \"k\": 1\n}\nTYPE @r regex\n/x+/\n"},
		{"enum-typed", "TYPE @t\n\"a\" // {enum: @e}\nENUM @e\n[\n  \"a\",\n  \"b\"\n]\n"},
		{"recursive", "TYPE @t\n{\n  \"self\": @t // {optional: true}\n}\n"},
		{"object-with-allOf", "TYPE @t\n{ // {allOf: \"@o\"}\n  \"own\": 1\n}\nTYPE @o\n{\n  \"k\": 1\n}\n"},
		{"undefined", ""},
		// types that reach themselves: through a union, through another union, through an alias and an optional property, through an
		// array item, as a pure alias cycle, through allOf (some are legal, some must be refused - none may take the process down)
		{"recursive-union", "TYPE @t\n@t | @o\nTYPE @o\n{\n  \"k\": 1\n}\n"},
		{"mutually-recursive-unions", "TYPE @t\n@m | @o\nTYPE @m\n@t | @o\nTYPE @o\n{\n  \"k\": 1\n}\n"},
		{"recursive-through-alias", "TYPE @t\n@m\nTYPE @m\n{\n  \"back\": @t // {optional: true}\n}\n"},
		{"recursive-array", "TYPE @t\n[\n  @t\n]\n"},
		{"alias-cycle", "TYPE @t\n@m\nTYPE @m\n@t\n"},
		{"recursive-allOf", "TYPE @t\n{ // {allOf: \"@m\"}\n  \"a\": 1\n}\nTYPE @m\n{ // {allOf: \"@t\"}\n  \"b\": 1\n}\n"},
		// lassos: the type leads into a cycle that does not come back to the type itself
		{"lasso-union", "TYPE @t\n@m | @o\nTYPE @m\n@m | @r\nTYPE @o\n{\n  \"k\": 1\n}\nTYPE @r regex\n/x+/\n"},
		{"lasso-alias", "TYPE @t\n@m\nTYPE @m\n@m | @o\nTYPE @o\n{\n  \"k\": 1\n}\n"},
		{"lasso-long", "TYPE @t\n@m | @o\nTYPE @m\n@n | @o\nTYPE @n\n@m | @o\nTYPE @o\n{\n  \"k\": 1\n}\n"},
		{"union-of-union", "TYPE @t\n@m | @o\nTYPE @m\n@o | @r\nTYPE @o\n{\n  \"k\": 1\n}\nTYPE @r regex\n/x+/\n"},
	}
	forms := []struct{ name, text string }{
		{"ref", "@t\n"},
		{"array-of", "[\n  @t\n]\n"},
		{"union-with", "@t | @u\n"},
		{"property", "{\n  \"k\": @t\n}\n"},
		{"optional-property", "{\n  \"k\": @t // {optional: true}\n}\n"},
		{"allOf", "{ // {allOf: \"@t\"}\n  \"z\": 1\n}\n"},
		{"type-rule", "{\n  \"k\": 1 // {type: \"@t\"}\n}\n"},
		{"shortcut-key", "{\n  @t: 1\n}\n"},
		{"nested-shortcut-key", "{\n  \"x\": {\n    @t: 1\n  }\n}\n"},
		{"shortcut-key-in-array-item", "[\n  {\n    \"y\": {\n      @t: 1\n    }\n  }\n]\n"},
		{"additionalProperties", "{ // {additionalProperties: \"@t\"}\n}\n"},
		{"or-rule", "{\n  \"k\": 1 // {or: [\"@t\", \"string\"]}\n}\n"},
		{"nested-array-property", "{\n  \"k\": [\n    @t\n  ]\n}\n"},
	}
	places := []struct{ name, before, after string }{
		{"path-of-method", "GET /a/{id}\n  Path\n", "  200 any\n"},
		{"path-of-url", "URL /a/{id}\n  Path\n", "  GET\n    200 any\n"},
		{"query", "GET /q\n  Query \"a=1\"\n", "  200 any\n"},
		{"request-headers", "POST /h\n  Request\n    Headers\n", "    Body any\n  200 any\n"},
		{"response-headers", "GET /h\n  200\n    Headers\n", "    Body any\n"},
		{"request-body", "POST /b\n  Request\n", "  200 any\n"},
		{"request-body-directive", "POST /b\n  Request\n    Body\n", "  200 any\n"},
		{"response-body", "GET /r\n  200\n", ""},
		{"response-body-directive", "GET /r\n  200\n    Body\n", ""},
		{"rpc-params", "URL /rpc\n  Protocol json-rpc-2.0\n  Method m\n    Params\n", ""},
		{"rpc-result", "URL /rpc\n  Protocol json-rpc-2.0\n  Method m\n    Result\n", ""},
		{"server-base-url", "SERVER @s\n  BaseUrl \"https://{env}.x.com\"\n", "GET /s\n  200 any\n"},
		{"type-body", "TYPE @w\n", "GET /w\n  200 @w\n"},
		{"macro-pasted-headers", "MACRO @hm\n(\n  Headers\n", ")\nGET /m\n  200\n    PASTE @hm\n    Body any\n"},
	}
	n := 0
	for _, ty := range types {
		for _, f := range forms {
			for _, p := range places {
				n++
				var sb strings.Builder
				sb.WriteString("JSIGHT 0.3\n")
				if n%2 == 0 {
					sb.WriteString(ty.text) // types before or after their use
				}
				sb.WriteString("TYPE @u\n{\n  \"m\": 1\n}\n")
				sb.WriteString(p.before)
				sb.WriteString(f.text)
				sb.WriteString(p.after)
				if n%2 != 0 {
					sb.WriteString(ty.text)
				}
				emit("type-matrix", singleJob(fmt.Sprintf("tm-%s-%s-%s", ty.name, f.name, p.name), []byte(sb.String()), false))
			}
		}
		// a type named on the directive line
		for i, line := range []string{"GET /l\n  200 @t\n", "GET /l\n  200 [@t]\n", "POST /l\n  Request @t\n  200 any\n", "GET /l\n  200\n    Body @t\n", "GET /l\n  200 @t | @u\n"} {
			emit("type-matrix", singleJob(fmt.Sprintf("tm-%s-line-%d", ty.name, i), []byte("JSIGHT 0.3\n"+ty.text+"TYPE @u\n{\n  \"m\": 1\n}\n"+line), false))
		}
	}
}
