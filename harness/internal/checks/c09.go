package checks

import (
	"fmt"
	"math/rand"
	"path/filepath"
	"sort"
	"strings"

	"verifharness/internal/fw"
	"verifharness/internal/gen"
	"verifharness/internal/model"
	"verifharness/internal/proto"
)

// splitEntry: one line of a produced file: an original line (1-based) or an INCLUDE of another file.
type splitEntry struct {
	orig    int
	include string
}

type splitProject struct {
	blanks  bool // pieces without any directive (empty files, files of blanks and line ends) are included next to the real ones
	nBlank  int
	files   map[string][]splitEntry
	content map[string][]byte
	where   map[int][2]interface{} // original line -> (file, new line)
	kinds   []string               // kinds of cut points used
	depth   int
}

// cutPoint: a line at which a piece may start.
type cutPoint struct {
	line int // 0-based line index of a keyword that starts its line
	kind string
}

func cutPoints(d *lexDoc) []cutPoint {
	var out []cutPoint
	first := true
	depth := 0
	inMacro := 0
	_ = inMacro
	prev := ""
	for i, l := range d.lex {
		switch l.Type {
		case "context-opening":
			depth++
		case "context-closing":
			depth--
		case "keyword":
			kw := d.text(l)
			if first {
				first = false
				prev = kw
				continue
			}
			line := d.lineOf(l.Begin)
			if strings.TrimSpace(string(d.content[d.lines[line]:l.Begin])) != "" {
				prev = kw
				continue
			}
			kind := "after-parameter-line"
			if i > 0 {
				switch d.lex[i-1].Type {
				case "schema", "text", "unknown-lexeme-type", "json":
					kind = "after-body"
				case "context-opening":
					kind = "after-open-parenthesis"
				case "context-closing":
					kind = "after-close-parenthesis"
				case "annotation":
					kind = "after-annotation"
				}
			}
			if depth > 0 {
				kind += "/inside-explicit-context"
			}
			if kw != "JSIGHT" {
				out = append(out, cutPoint{line, kind})
			}
			prev = kw
		}
	}
	_ = prev
	return out
}

// parenDelta of a line range [from, to) (0-based lines): net change and minimum of the explicit-context depth.
func parenDelta(d *lexDoc, from, to int) (net, min int) {
	for _, l := range d.lex {
		ln := d.lineOf(l.Begin)
		if ln < from || ln >= to {
			continue
		}
		switch l.Type {
		case "context-opening":
			net++
		case "context-closing":
			net--
			if net < min {
				min = net
			}
		}
	}
	return
}

// buildSplit cuts the document at the given cut lines (sorted, 0-based) into an include tree.
// ranges: list of [from,to) line ranges that become files, possibly nested.
type lineRange struct {
	from, to int
	kids     []*lineRange
	name     string
}

func makeSplit(d *lexDoc, r *rand.Rand, cuts []cutPoint, maxDepth int, single int) *splitProject {
	nLines := len(d.lines)
	if len(d.content) > 0 && d.content[len(d.content)-1] == '\n' {
		nLines-- // the last "line" is empty
	}
	root := &lineRange{from: 0, to: nLines, name: "root.jst"}
	sp := &splitProject{files: map[string][]splitEntry{}, content: map[string][]byte{}, where: map[int][2]interface{}{}}
	sp.blanks = r.Intn(3) == 0
	n := 0
	var carve func(parent *lineRange, level int)
	carve = func(parent *lineRange, level int) {
		if level >= maxDepth {
			return
		}
		// candidate cut points strictly inside the parent range
		var cand []cutPoint
		for _, cp := range cuts {
			if cp.line > parent.from && cp.line < parent.to {
				cand = append(cand, cp)
			}
		}
		if len(cand) == 0 {
			return
		}
		tries := 1 + r.Intn(3)
		if single >= 0 {
			tries = 1
		}
		for t := 0; t < tries; t++ {
			var cp cutPoint
			if single >= 0 && level == 0 {
				cp = cuts[single]
				if !(cp.line > parent.from && cp.line < parent.to) {
					return
				}
			} else {
				cp = cand[r.Intn(len(cand))]
			}
			// the piece ends at a later cut point or at the end of the parent range
			ends := []int{parent.to}
			for _, c2 := range cand {
				if c2.line > cp.line {
					ends = append(ends, c2.line)
				}
			}
			end := ends[r.Intn(len(ends))]
			if single >= 0 && level == 0 && r.Intn(2) == 0 {
				end = parent.to
			}
			// must not overlap existing children
			ok := true
			for _, k := range parent.kids {
				if cp.line < k.to && end > k.from {
					ok = false
				}
			}
			if !ok {
				continue
			}
			hasJsight := false
			for _, l := range d.lex {
				if l.Type == "keyword" && d.text(l) == "JSIGHT" {
					if ln := d.lineOf(l.Begin); ln >= cp.line && ln < end {
						hasJsight = true
					}
				}
			}
			if hasJsight {
				continue // the language forbids JSIGHT in included files
			}
			net, min := parenDelta(d, cp.line, end)
			tail := end == nLines
			if !(net == 0 && min == 0) && !(tail && net <= 0) {
				continue
			}
			if tail && (net != 0 || min != 0) && parent != root {
				continue // an unbalanced tail only directly from the root file
			}
			n++
			dir := filepath.Dir(parent.name)
			if dir == "." {
				dir = ""
			} else {
				dir += "/"
			}
			if r.Intn(3) == 0 {
				dir += fmt.Sprintf("d%d/", n)
			}
			k := &lineRange{from: cp.line, to: end, name: fmt.Sprintf("%sp%d.jst", dir, n)}
			parent.kids = append(parent.kids, k)
			sp.kinds = append(sp.kinds, cp.kind)
			if level+1 > sp.depth {
				sp.depth = level + 1
			}
			carve(k, level+1)
		}
	}
	carve(root, 0)
	if len(root.kids) == 0 {
		return nil
	}
	return finishSplit(d, root, sp)
}

// makeChainSplit nests the pieces as deep as asked: the root keeps the lines before the first chosen cut point and includes the
// rest, which keeps the lines before the second one and includes the rest, and so on ("nested to any depth").
func makeChainSplit(d *lexDoc, r *rand.Rand, cuts []cutPoint, depth int) *splitProject {
	nLines := len(d.lines)
	if len(d.content) > 0 && d.content[len(d.content)-1] == '\n' {
		nLines--
	}
	var ok []cutPoint
	for _, cp := range cuts {
		if cp.line <= 0 || cp.line >= nLines {
			continue
		}
		if net, min := parenDelta(d, cp.line, nLines); net != 0 || min != 0 {
			continue
		}
		if len(ok) > 0 && ok[len(ok)-1].line == cp.line {
			continue
		}
		ok = append(ok, cp)
	}
	for _, l := range d.lex {
		if l.Type == "keyword" && d.text(l) == "JSIGHT" && d.lineOf(l.Begin) > 0 {
			return nil
		}
	}
	if len(ok) < depth {
		return nil
	}
	pick := r.Perm(len(ok))[:depth]
	sort.Ints(pick)
	sp := &splitProject{files: map[string][]splitEntry{}, content: map[string][]byte{}, where: map[int][2]interface{}{}, depth: depth}
	sp.blanks = depth <= 17 && r.Intn(2) == 0
	root := &lineRange{from: 0, to: nLines, name: "root.jst"}
	parent := root
	for i, pi := range pick {
		cp := ok[pi]
		dir := filepath.Dir(parent.name)
		if dir == "." {
			dir = ""
		} else {
			dir += "/"
		}
		if i%7 == 3 {
			dir += fmt.Sprintf("d%d/", i)
		}
		k := &lineRange{from: cp.line, to: nLines, name: fmt.Sprintf("%sc%d.jst", dir, i)}
		parent.kids = append(parent.kids, k)
		sp.kinds = append(sp.kinds, cp.kind)
		parent = k
	}
	return finishSplit(d, root, sp)
}

func finishSplit(d *lexDoc, root *lineRange, sp *splitProject) *splitProject {
	var emit func(rg *lineRange)
	emit = func(rg *lineRange) {
		// sort kids by from
		for i := 1; i < len(rg.kids); i++ {
			for j := i; j > 0 && rg.kids[j].from < rg.kids[j-1].from; j-- {
				rg.kids[j], rg.kids[j-1] = rg.kids[j-1], rg.kids[j]
			}
		}
		var sb strings.Builder
		ki := 0
		newLine := 0
		for ln := rg.from; ln < rg.to; {
			if ki < len(rg.kids) && rg.kids[ki].from == ln {
				k := rg.kids[ki]
				rel := k.name
				if dir := filepath.Dir(rg.name); dir != "." {
					rel = strings.TrimPrefix(k.name, dir+"/")
				}
				if sp.blanks {
					// the document cut twice at the same boundary: a piece that holds nothing, before the real one (and sometimes
					// after it as well - the INCLUDE that follows a blank piece is where a stale scanner stack shows)
					blank := func() {
						sp.nBlank++
						bn := fmt.Sprintf("blank%d.jst", sp.nBlank)
						if dir := filepath.Dir(rg.name); dir != "." {
							sp.content[dir+"/"+bn] = []byte([]string{"", "\n", "  \n\n", "\t \n", "\r\n"}[sp.nBlank%5])
						} else {
							sp.content[bn] = []byte([]string{"", "\n", "  \n\n", "\t \n", "\r\n"}[sp.nBlank%5])
						}
						newLine++
						sb.WriteString("INCLUDE " + bn + "\n")
					}
					blank()
					if sp.nBlank%3 == 0 {
						blank()
					}
				}
				newLine++
				sb.WriteString("INCLUDE " + rel + "\n")
				sp.files[rg.name] = append(sp.files[rg.name], splitEntry{include: k.name})
				emit(k)
				ln = k.to
				ki++
				continue
			}
			newLine++
			end := len(d.content)
			if ln+1 < len(d.lines) {
				end = d.lines[ln+1]
			}
			sb.Write(d.content[d.lines[ln]:end])
			if end == len(d.content) && (end == 0 || d.content[end-1] != '\n') && ln+1 < rg.to {
				sb.WriteByte('\n')
			}
			sp.where[ln+1] = [2]interface{}{rg.name, newLine}
			sp.files[rg.name] = append(sp.files[rg.name], splitEntry{orig: ln + 1})
			ln++
		}
		sp.content[rg.name] = []byte(sb.String())
	}
	emit(root)
	return sp
}

func flattenTree(nodes []*proto.Node, depth int, out *[]string) {
	for _, n := range nodes {
		*out = append(*out, fmt.Sprintf("%d|%s|%s|%v|%v|%s|%v|%v", depth, n.Kind, n.Keyword, n.Named, n.Unnamed, n.Annotation, n.Explicit, n.HasBody))
		flattenTree(n.Children, depth+1, out)
	}
}

// C09 – INCLUDE is transparent.
func C09(c *fw.Ctx) {
	c.Rule("inputs: every single-file LF corpus document the scanner gets through (accepted and rule-rejected) and rendered models; cut points: every " +
		"keyword that starts a line (except JSIGHT), taken from the public lexeme stream; pieces are parenthesis-balanced line ranges or an unbalanced " +
		"tail of the root file; site-exhaustive tier: every cut point once as a two-file project (quick: sampled), then seeded multi-cuts nested up to " +
		"depth 4 with sub-directories; oracle: byte-identical ToJson, equal directive tree after expansion (phase hook), the files read are exactly the " +
		"files written (file-access hook); rejected originals keep the message and the error moves to the file and line that now hold the directive; " +
		"distinct = distinct split projects; non-trivial = every split")
	pool := c.Pool(false, 0)
	corpus := Corpus(c)
	docs := map[string]*lexDoc{}
	c.RunJobs(pool, func(emit func(*proto.Job)) {
		add := func(name string, content []byte) {
			if strings.Contains(string(content), "\r") {
				return
			}
			maxMuLock.Lock()
			docs[name] = &lexDoc{name: name, content: content, lines: lineStarts(content)}
			maxMuLock.Unlock()
			emit(&proto.Job{ID: "scan/" + name, Root: "root.jst", Files: map[string][]byte{"root.jst": content}, Scan: true})
			emit(&proto.Job{ID: "base/" + name, Root: "root.jst", Files: map[string][]byte{"root.jst": content}, Ops: []string{"json"}, WantPhases: true})
		}
		for _, p := range corpus {
			if !p.HasInclude() {
				add(p.Name, p.RootContent())
			}
		}
		for name, content := range ruleRejectedDocs() {
			add(name, content)
		}
		r := gen.Rng(c.Seed, c.ID, "models")
		for i := 0; i < c.Pick(150, 3000); i++ {
			m := model.Generate(r, model.QuickSize)
			l := model.RandomLayout(r)
			l.Includes, l.EOL = false, "\n"
			rd := m.Render(l)
			add(fmt.Sprintf("model-%d", i), rd.Files[rd.Root])
		}
	}, func(j *proto.Job, res *proto.Result) {
		if workerProblem(c, res) {
			return
		}
		name := j.ID[5:]
		maxMuLock.Lock()
		d := docs[name]
		maxMuLock.Unlock()
		if strings.HasPrefix(j.ID, "scan/") {
			d.lex, d.scanOK = res.Lexemes, res.Accepted && res.Panic == nil
		} else {
			d.base = res
		}
	})
	type pend struct {
		d  *lexDoc
		sp *splitProject
	}
	pending := map[string]*pend{}
	type sharedCase struct {
		unsplit, split *proto.Result
		files          map[string][]byte
		doc            []byte
	}
	shared := map[string]*sharedCase{}
	var names []string
	for n := range docs {
		names = append(names, n)
	}
	sortStrings(names)
	c.RunJobs(pool, func(emit func(*proto.Job)) {
		n := 0
		send := func(d *lexDoc, sp *splitProject) {
			if sp == nil {
				return
			}
			n++
			id := fmt.Sprintf("split/%d", n)
			maxMuLock.Lock()
			pending[id] = &pend{d, sp}
			maxMuLock.Unlock()
			emit(&proto.Job{ID: id, Root: "root.jst", Files: sp.content, Ops: []string{"json"}, WantPhases: true, WantFiles: true})
		}
		// the same piece included from several places: hand-made families where repetition is legal
		sr := gen.Rng(c.Seed, c.ID, "shared")
		pieces := []string{
			"  GET\n    Path\n    {\n      \"id\": 1\n    }\n    200 any\n",
			"  GET // get it\n    Description\n      shared text\n    200 any\n    404 empty\n",
			"  Path\n  {\n    \"id\": 5 // {min: 1}\n  }\n  GET\n    200 any\n  POST\n    Request any\n    201 any\n",
			"  DELETE\n    Path\n      {\"id\": \"x\"}\n    Query \"a=1\"\n      {\"a\": 1}\n    204 empty\n",
			"  GET\n  (\n    Path\n    {\"id\": 1}\n    200\n      Headers\n        {\"X\": \"v\"}\n      Body any\n  )\n",
			"  PUT\n    Path\n    {\"id\": 1}\n    Request\n      Headers\n        {\"H\": \"v\"}\n      Body\n        {\"k\": 1}\n    200 any\n  PATCH\n    200 any\n",
		}
		for i := 0; i < c.Pick(60, 1500); i++ {
			k := 2 + sr.Intn(3)
			piece := pieces[sr.Intn(len(pieces))]
			var un, sp strings.Builder
			un.WriteString("JSIGHT 0.3\n")
			sp.WriteString("JSIGHT 0.3\n")
			files := map[string][]byte{}
			pname := "piece.jst"
			if sr.Intn(3) == 0 {
				pname = "mixins/piece.jst"
			}
			for q := 0; q < k; q++ {
				head := fmt.Sprintf("URL /r%d/{id}\n", q)
				un.WriteString(head + piece)
				sp.WriteString(head + "  INCLUDE " + pname + "\n")
				if sr.Intn(3) == 0 {
					extra := fmt.Sprintf("TYPE @between%d any\n", q)
					un.WriteString(extra)
					sp.WriteString(extra)
				}
			}
			files["root.jst"] = []byte(sp.String())
			files[pname] = []byte(piece)
			id := fmt.Sprintf("shared-%d", i)
			maxMuLock.Lock()
			shared[id] = &sharedCase{files: files, doc: []byte(un.String())}
			maxMuLock.Unlock()
			emit(&proto.Job{ID: "sharedU/" + id, Root: "root.jst", Files: map[string][]byte{"root.jst": []byte(un.String())}, Ops: []string{"json"}, WantPhases: true})
			emit(&proto.Job{ID: "sharedS/" + id, Root: "root.jst", Files: files, Ops: []string{"json"}, WantPhases: true, WantFiles: true})
		}
		// many pieces: more than a thousand INCLUDE directives in one project (each piece in a file of its own; one piece included
		// from 1100 places; pieces eleven files deep, each included twice) - the number of pieces is no reason to refuse a project
		for mi := 0; mi < 3; mi++ {
			var un, sp strings.Builder
			un.WriteString("JSIGHT 0.3\n")
			sp.WriteString("JSIGHT 0.3\n")
			files := map[string][]byte{}
			switch mi {
			case 0:
				for q := 0; q < 1200; q++ {
					blk := fmt.Sprintf("GET /many%d\n  200 any\n", q)
					un.WriteString(blk)
					sp.WriteString(fmt.Sprintf("INCLUDE m/p%d.jst\n", q))
					files[fmt.Sprintf("m/p%d.jst", q)] = []byte(blk)
				}
			case 1:
				piece := "  GET\n    200 any\n"
				for q := 0; q < 1100; q++ {
					head := fmt.Sprintf("URL /often%d\n", q)
					un.WriteString(head + piece)
					sp.WriteString(head + "  INCLUDE piece.jst\n")
				}
				files["piece.jst"] = []byte(piece)
			case 2:
				// a binary tree of files ten levels deep: 2046 INCLUDE directives are followed, the leaves hold the types
				leaf := 0
				var build func(depth int, name string) string
				build = func(depth int, name string) string {
					if depth == 10 {
						leaf++
						t := fmt.Sprintf("TYPE @leaf%d any\n", leaf)
						files[name] = []byte(t)
						return t
					}
					l, r := fmt.Sprintf("t%d_%s0.jst", depth, strings.TrimSuffix(strings.TrimPrefix(name, "t"), ".jst")), fmt.Sprintf("t%d_%s1.jst", depth, strings.TrimSuffix(strings.TrimPrefix(name, "t"), ".jst"))
					files[name] = []byte("INCLUDE " + l + "\nINCLUDE " + r + "\n")
					return build(depth+1, l) + build(depth+1, r)
				}
				text := build(0, "troot.jst")
				un.WriteString(text)
				sp.WriteString("INCLUDE troot.jst\n")
			}
			un.WriteString("GET /end\n  200 any\n")
			sp.WriteString("GET /end\n  200 any\n")
			files["root.jst"] = []byte(sp.String())
			id := fmt.Sprintf("many-pieces-%d", mi)
			maxMuLock.Lock()
			shared[id] = &sharedCase{files: files, doc: []byte(un.String())}
			maxMuLock.Unlock()
			emit(&proto.Job{ID: "sharedU/" + id, Root: "root.jst", Files: map[string][]byte{"root.jst": []byte(un.String())}, Ops: []string{"json"}, WantPhases: true})
			emit(&proto.Job{ID: "sharedS/" + id, Root: "root.jst", Files: files, Ops: []string{"json"}, WantPhases: true, WantFiles: true})
		}
		for _, name := range names {
			d := docs[name]
			if !d.scanOK || d.base == nil || d.base.Fatal != nil || d.base.Panic != nil {
				continue
			}
			// only rule-rejected or accepted originals (the scan phase passed)
			// ... and originals that the context table rejects (a rule as well: the directive does not fit where it stands); the
			// rejection is raised when the next keyword arrives, which after a cut can be the first keyword of another file
			if !d.base.Accepted && !d.base.ScanDone && !(d.base.Err != nil && strings.Contains(d.base.Err.Msg, "incorrect context for the directive")) {
				continue
			}
			r := gen.Rng(c.Seed, c.ID, "split", name)
			cuts := cutPoints(d)
			if len(cuts) == 0 {
				continue
			}
			// single cuts
			idxs := r.Perm(len(cuts))
			if c.Quick() && len(idxs) > 4 {
				idxs = idxs[:4]
			}
			for _, ci := range idxs {
				send(d, makeSplit(d, r, cuts, 1, ci))
			}
			for k := 0; k < c.Pick(3, 40); k++ {
				send(d, makeSplit(d, r, cuts, 4, -1))
			}
			// chains of nested pieces as deep as the document has cut points for
			for _, depth := range []int{5, 9, 17, 33, 65, 130} {
				if sp := makeChainSplit(d, r, cuts, depth); sp != nil {
					send(d, sp)
				} else {
					break
				}
			}
		}
	}, func(j *proto.Job, res *proto.Result) {
		if workerProblem(c, res) {
			return
		}
		if strings.HasPrefix(j.ID, "shared") {
			id := j.ID[strings.Index(j.ID, "/")+1:]
			maxMuLock.Lock()
			sc := shared[id]
			if strings.HasPrefix(j.ID, "sharedU/") {
				sc.unsplit = res
			} else {
				sc.split = res
			}
			done := sc.unsplit != nil && sc.split != nil
			maxMuLock.Unlock()
			if !done {
				return
			}
			c.Count(jobKey(&proto.Job{Root: "root.jst", Files: sc.files}), true)
			c.Inc("verdicts", "shared-piece-projects", 1)
			rp := &fw.Replay{Jobs: []*proto.Job{{ID: "unsplit", Root: "root.jst", Files: map[string][]byte{"root.jst": sc.doc}, Ops: []string{"json"}}, {ID: "split", Root: "root.jst", Files: sc.files, Ops: []string{"json"}}},
				Results: []interface{}{sc.unsplit, sc.split}, Expected: map[string]interface{}{"files": filesAsStrings(sc.files)}}
			for _, r := range []*proto.Result{sc.unsplit, sc.split} {
				if sig, what := crashSig(r); sig != "" {
					c.Violate(sig, what, rp)
					return
				}
			}
			if !sc.unsplit.Accepted {
				c.Inconclusive("a hand-made shared-piece document is rejected: " + sc.unsplit.Err.Msg)
				return
			}
			if !sc.split.Accepted {
				c.Violate("shared-piece:rejected", fmt.Sprintf("a piece included from several places: the unsplit document is accepted, the split project is rejected: %q at %s:%d", trunc(sc.split.Err.Msg, 140), relName(sc.split, sc.split.Err.File), sc.split.Err.Line), rp)
				return
			}
			a, b := findOut(sc.unsplit, "json"), findOut(sc.split, "json")
			if a != nil && b != nil && a.Bytes != nil && b.Bytes != nil && string(a.Bytes) != string(b.Bytes) {
				c.Violate("shared-piece:catalog-changed", "a piece included from several places changes the catalog: "+firstDiff(string(a.Bytes), string(b.Bytes)), rp)
				return
			}
			if treeShape(sc.unsplit.Expand) != treeShape(sc.split.Expand) {
				c.Violate("shared-piece:tree-changed", "a piece included from several places changes the directive tree", rp)
			}
			return
		}
		maxMuLock.Lock()
		p := pending[j.ID]
		delete(pending, j.ID)
		maxMuLock.Unlock()
		d, sp, base := p.d, p.sp, p.d.base
		c.Count(jobKey(j), true)
		for _, k := range sp.kinds {
			c.Inc("cut_point_kinds", k, 1)
		}
		c.Inc("include_depth", fmt.Sprint(sp.depth), 1)
		if sp.nBlank > 0 {
			c.Inc("blank_pieces", "projects_with_blank_pieces", 1)
			c.Inc("blank_pieces", "blank_pieces", sp.nBlank)
		}
		rp := &fw.Replay{Jobs: []*proto.Job{{ID: "original", Root: "root.jst", Files: map[string][]byte{"root.jst": d.content}, Ops: []string{"json"}}, j},
			Results: []interface{}{base, res}, Expected: map[string]interface{}{"document": d.name, "files": filesAsStrings(sp.content)}}
		if sig, what := crashSig(res); sig != "" {
			c.Violate(sig, "split of "+d.name+": "+what, rp)
			return
		}
		// files read = files written, each once
		reads := map[string]int{}
		for _, e := range res.Files {
			if e.Op == "read" {
				reads[relName(res, e.Path)]++
			}
		}
		if res.Accepted {
			for f := range sp.content {
				if f != "root.jst" && reads[f] != 1 {
					c.Violate("files:read-count", fmt.Sprintf("split of %s: %s was read %d times (expected once)", d.name, f, reads[f]), rp)
				}
			}
		}
		for f := range reads {
			if _, ok := sp.content[f]; !ok {
				c.Violate("files:foreign-read", fmt.Sprintf("split of %s: the builder read %s which is not part of the project", d.name, f), rp)
			}
		}
		if base.Accepted {
			c.Inc("verdicts", "accepted-original", 1)
			if !res.Accepted {
				c.Violate("accepted-becomes-rejected", fmt.Sprintf("split of %s (cut kinds %v): %q at %s:%d", d.name, sp.kinds, res.Err.Msg, relName(res, res.Err.File), res.Err.Line), rp)
				return
			}
			a, b := findOut(base, "json"), findOut(res, "json")
			if sig, what := onlyOneSerialises(a, b); sig != "" {
				c.Violate("split-not-serialisable", fmt.Sprintf("split of %s: the unsplit document has a catalog, the split project is accepted but has none: %s", d.name, what), rp)
				return
			}
			if a == nil || b == nil || a.Bytes == nil || b.Bytes == nil {
				return
			}
			if string(a.Bytes) != string(b.Bytes) {
				if exampleOnlyDiff(a.Bytes, b.Bytes, j.Files) {
					c.Violate("catalog-changed:"+sigRegexExample, "split of "+d.name+": only regex-type examples differ", rp)
				} else {
					c.Violate("catalog-changed", fmt.Sprintf("split of %s (cut kinds %v) changes the catalog: %s", d.name, sp.kinds, firstDiff(string(a.Bytes), string(b.Bytes))), rp)
				}
				return
			}
			var ta, tb []string
			flattenTree(base.Expand, 0, &ta)
			flattenTree(res.Expand, 0, &tb)
			if strings.Join(ta, "\n") != strings.Join(tb, "\n") {
				c.Violate("tree-changed", fmt.Sprintf("split of %s: the directive tree after expansion differs", d.name), rp)
			}
			c.Inc("trees_compared", "nodes", len(ta))
			if c.NeedSample() && sp.depth >= 2 {
				c.Sample(map[string]interface{}{"document": d.name, "files": filesAsStrings(sp.content), "depth": sp.depth})
			}
			return
		}
		c.Inc("verdicts", "rule-rejected-original", 1)
		if res.Accepted {
			c.Violate("rejected-becomes-accepted", fmt.Sprintf("split of %s: the original is rejected with %q", d.name, base.Err.Msg), rp)
			return
		}
		if base.Err == nil || res.Err == nil {
			return
		}
		if base.Err.Msg != res.Err.Msg {
			// D18: an error met while a macro is expanded is re-wrapped and carries the rendered include trace in its message
			if strings.HasPrefix(res.Err.Msg, base.Err.Msg+"\n") || firstLine(res.Err.Msg) == firstLine(base.Err.Msg) && strings.Contains(res.Err.Msg, ".jst:") {
				// the known finding is about errors that are reported on a PASTE directive; a trace inside the message of an error
				// that sits anywhere else is something new
				sig := "message-embeds-include-trace:error-not-on-a-paste"
				if content, ok := j.Files[relName(res, res.Err.File)]; ok && res.Err.Index >= 0 && res.Err.Index+5 <= len(content) && string(content[res.Err.Index:res.Err.Index+5]) == "PASTE" {
					sig = "message-embeds-include-trace"
				}
				c.Violate(sig, fmt.Sprintf("split of %s: %q becomes %q", d.name, trunc(base.Err.Msg, 100), trunc(res.Err.Msg, 160)), rp)
				return
			}
			c.Violate("message-changed", fmt.Sprintf("split of %s: %q becomes %q", d.name, trunc(base.Err.Msg, 120), trunc(res.Err.Msg, 120)), rp)
			return
		}
		if base.Err.Line > 0 && base.Err.Index < len(d.content) {
			w, ok := sp.where[base.Err.Line]
			if ok && (relName(res, res.Err.File) != w[0].(string) || res.Err.Line != w[1].(int)) {
				c.Violate("error-location", fmt.Sprintf("split of %s: the offending line %d is now %s:%d, the error says %s:%d (%s)", d.name, base.Err.Line, w[0], w[1], relName(res, res.Err.File), res.Err.Line, trunc(res.Err.Msg, 80)), rp)
			}
		}
	})
	c.Finish()
}

func firstLine(s string) string {
	if i := strings.Index(s, "\n"); i >= 0 {
		return s[:i]
	}
	return s
}
