package checks

import (
	"fmt"
	"math/rand"
	"strings"

	"verifharness/internal/ref"
)

// Part C of C10: macro bodies that are NOT runs of siblings. A valid document is written flat (column 0, implicit contexts only, so
// that attachment is decided by directive order alone); any contiguous range of its directives - also one that ends one resource and
// begins the next - is moved into a MACRO and replaced by a PASTE. By the property the two texts mean the same.

type freeAtom struct {
	tok  ref.CtxToken
	text string // complete directive with its body, without indentation, ending in "\n"
}

func freeDoc(r *rand.Rand) []freeAtom {
	var out []freeAtom
	add := func(kind string, hasPath bool, text string) {
		out = append(out, freeAtom{ref.CtxToken{Kind: kind, HasPath: hasPath}, text})
	}
	n := 0
	schema := func() string {
		n++
		return []string{
			fmt.Sprintf("{\n  \"f%d\": %d\n}\n", n, n),
			fmt.Sprintf("{\n  \"s%d\": \"v%d\" // {optional: true}\n}\n", n, n),
			fmt.Sprintf("[\n  %d\n]\n", n),
		}[r.Intn(3)]
	}
	response := func() {
		code := []string{"200", "201", "204", "400", "404", "500"}[r.Intn(6)]
		switch r.Intn(4) {
		case 0:
			add("HTTP-response-code", false, code+" any\n")
		case 1:
			add("HTTP-response-code", false, code+" // note "+code+"\n"+schema())
		case 2:
			add("HTTP-response-code", false, code+"\n")
			if r.Intn(2) == 0 {
				add("Headers", false, "Headers\n{\n  \"X-H\": \"h\"\n}\n")
			}
			add("Body", false, "Body "+[]string{"any\n", "empty\n", "\n" + schema()}[r.Intn(3)])
		default:
			add("HTTP-response-code", false, code+" empty\n")
		}
	}
	methodChildren := func(withPathParam bool) {
		if r.Intn(3) == 0 {
			n++
			add("Description", false, fmt.Sprintf("Description\n  words about %d\n", n))
		}
		if withPathParam && r.Intn(2) == 0 {
			add("Path", false, "Path\n{\n  \"id\": 1\n}\n")
		}
		if r.Intn(4) == 0 {
			n++
			add("OperationId", false, fmt.Sprintf("OperationId op%d\n", n))
		}
		if r.Intn(4) == 0 {
			add("Query", false, "Query \"q=1\"\n{\n  \"q\": 1\n}\n")
		}
		if r.Intn(3) == 0 {
			switch r.Intn(3) {
			case 0:
				add("Request", false, "Request any\n")
			case 1:
				add("Request", false, "Request\n"+schema())
			default:
				add("Request", false, "Request\n")
				add("Headers", false, "Headers\n{\n  \"X-R\": \"r\"\n}\n")
				add("Body", false, "Body\n"+schema())
			}
		}
		for k := 0; k < 1+r.Intn(3); k++ {
			response()
		}
	}
	add("JSIGHT", false, "JSIGHT 0.3\n")
	verbs := []string{"GET", "POST", "PUT", "PATCH", "DELETE"}
	res := 0
	for k := 0; k < 2+r.Intn(3); k++ {
		res++
		switch r.Intn(5) {
		case 0: // URL with methods
			p := fmt.Sprintf("/u%d", res)
			param := r.Intn(3) == 0
			if param {
				p += "/{id}"
			}
			add("URL", false, "URL "+p+"\n")
			vs := r.Perm(5)
			for q := 0; q < 1+r.Intn(2); q++ {
				add(verbs[vs[q]], false, verbs[vs[q]]+"\n")
				methodChildren(param)
			}
		case 1:
			n++
			add("TYPE", false, fmt.Sprintf("TYPE @t%d\n{\n  \"k\": %d\n}\n", n, n))
			fallthrough
		default:
			p := fmt.Sprintf("/p%d", res)
			param := r.Intn(3) == 0
			if param {
				p += "/{id}"
			}
			v := verbs[r.Intn(5)]
			ann := ""
			if r.Intn(3) == 0 {
				ann = fmt.Sprintf(" // resource %d", res)
			}
			add(v, true, v+" "+p+ann+"\n")
			methodChildren(param)
		}
	}
	return out
}

type freeMacro struct {
	name string
	body []freeAtom
}

// cutMacros replaces up to k random ranges of atoms by PASTE atoms. Every candidate is screened with the reference context automaton:
// the body must be legal inside "MACRO ( ... )" and the text with the PASTE in place of the range must be legal as written (a PASTE
// being a directive without children).
func cutMacros(r *rand.Rand, atoms []freeAtom, k int, prefix string, depth int) ([]freeAtom, []freeMacro) {
	var macros []freeMacro
	for tries := 0; tries < 12 && len(macros) < k; tries++ {
		if len(atoms) < 3 {
			break
		}
		i := 1 + r.Intn(len(atoms)-1)
		j := i + 1 + r.Intn(5)
		if j > len(atoms) {
			j = len(atoms)
		}
		body := atoms[i:j]
		bad := false
		// a directive written without its optional body must not be the last one before ")": the parenthesis would be read as the body
		if last := strings.TrimSpace(body[len(body)-1].text); !strings.ContainsAny(last, " \n") && last != "" {
			switch body[len(body)-1].tok.Kind {
			case "HTTP-response-code", "Request", "Body", "Headers":
				continue
			}
		}
		for _, a := range body {
			if a.tok.Kind == "PASTE" && depth > 0 {
				bad = true
			}
			if a.tok.Kind == "JSIGHT" {
				bad = true
			}
		}
		if bad {
			continue
		}
		def := []ref.CtxToken{{Kind: "MACRO", Explicit: true}}
		for _, a := range body {
			def = append(def, a.tok)
		}
		def = append(def, ref.CtxToken{Close: true})
		if !ref.RunContext(def).OK {
			continue
		}
		var with []ref.CtxToken
		for _, a := range atoms[:i] {
			with = append(with, a.tok)
		}
		with = append(with, ref.CtxToken{Kind: "PASTE"})
		// the language checks the contexts of the text as written, with a PASTE as a childless directive, before anything is expanded:
		// what follows the PASTE must be legal there too
		for _, a := range atoms[j:] {
			with = append(with, a.tok)
		}
		if !ref.RunContext(with).OK {
			continue
		}
		name := fmt.Sprintf("@%s%d", prefix, len(macros))
		m := freeMacro{name: name, body: append([]freeAtom(nil), body...)}
		var next []freeAtom
		next = append(next, atoms[:i]...)
		next = append(next, freeAtom{ref.CtxToken{Kind: "PASTE"}, "PASTE " + name + "\n"})
		next = append(next, atoms[j:]...)
		atoms = next
		// a nested macro inside this body
		if depth == 0 && len(m.body) >= 3 && r.Intn(3) == 0 {
			inner, ms := cutMacros(r, append([]freeAtom{{ref.CtxToken{Kind: "MACRO", Explicit: true}, ""}}, m.body...), 1, prefix+"n", 1)
			if len(ms) == 1 {
				m.body = inner[1:]
				macros = append(macros, ms...)
			}
		}
		macros = append(macros, m)
	}
	return atoms, macros
}

// freePair returns the in-place text and the macro text of one generated document (ok=false when no macro could be cut).
func freePair(r *rand.Rand) (plain, macro string, nMacros int, ok bool) {
	atoms := freeDoc(r)
	var sb strings.Builder
	for _, a := range atoms {
		sb.WriteString(a.text)
	}
	plain = sb.String()
	with, macros := cutMacros(r, atoms, 1+r.Intn(3), "m", 0)
	if len(macros) == 0 {
		return "", "", 0, false
	}
	var defs strings.Builder
	for _, m := range macros {
		defs.WriteString("MACRO " + m.name + "\n(\n")
		for _, a := range m.body {
			defs.WriteString(a.text)
		}
		defs.WriteString(")\n")
	}
	var mb strings.Builder
	defsFirst := r.Intn(2) == 0
	for i, a := range with {
		mb.WriteString(a.text)
		if i == 0 && defsFirst {
			mb.WriteString(defs.String())
		}
	}
	if !defsFirst {
		mb.WriteString(defs.String())
	}
	return plain, mb.String(), len(macros), true
}
