package checks

import (
	"fmt"
	"sort"
	"strings"

	"verifharness/internal/fw"
	"verifharness/internal/gen"
	"verifharness/internal/proto"
)

// independent word list: the 30 keywords of JSight API 0.3 and the response codes 100-599
func keywordList() map[string]bool {
	m := map[string]bool{}
	for _, k := range gen.Keywords {
		m[k] = true
	}
	for c := 100; c <= 599; c++ {
		m[fmt.Sprint(c)] = true
	}
	return m
}

func isTerminator(b int) bool {
	return b == ' ' || b == '\t' || b == '\n' || b == '\r' || b == '#' || b == '/'
}

type probeCase struct {
	ctx    string
	prefix string
	b      int    // -1: no extra byte (EOF right after the prefix)
	tail   string // what follows the byte (dead-word probes)
}

func (p probeCase) bytes() []byte {
	s := p.ctx + p.prefix
	if p.b >= 0 {
		return append(append([]byte(s), byte(p.b)), p.tail...)
	}
	return []byte(s)
}

// C13 – exactly the keywords are recognised (exhaustive breadth-first exploration over the 256-byte alphabet).
func C13(c *fw.Ctx) {
	c.Level = "exploration"
	c.SetExhaustive(true)
	c.Rule("breadth-first from a directive-start position in twenty-two contexts (file start, after a complete directive, after ')', inside an explicit " +
		"context, after a bare '#' line, after a trailing bare '#', after a '###' block, after a CR-terminated comment, after an annotation with CRLF, after a response / Request / Body whose quoted or bracketed type parameter says that no body follows): every live prefix (neither rejected nor completed) is extended by each of the 256 bytes and by end of file; every completed " +
		"keyword is followed by each of the 256 bytes and by end of file; oracle = independent list of the 30 keywords and the codes 100-599, " +
		"terminator set {blank, tab, CR, LF, '#', '/', EOF}; the same word list x 257 followers and ~4000 near misses x 7 terminators are also probed " +
		"at a line start inside the text of an implicit Description (three contexts), where only two things are decided: keyword + terminator starts a directive, and no other word becomes a keyword lexeme; distinct = distinct probe strings; non-trivial = every probe (each decides one transition)")
	c.Assume("the public scanner API (scanner.NewJApiScanner(...).Next()) is the observation point; depth bound 12 (the longest keywords have 11 bytes)")
	words := keywordList()
	prefixes := map[string]bool{"": true}
	for w := range words {
		for i := 1; i <= len(w); i++ {
			prefixes[w[:i]] = true
		}
	}
	contexts := []struct{ name, text string }{
		{"file-start", ""},
		{"after-directive", "JSIGHT 0.3\n"},
		{"after-close-paren", "JSIGHT 0.3\nGET /a\n(\n)\n"},
		{"inside-explicit-context", "JSIGHT 0.3\nGET /a\n(\n"},
		{"after-bare-hash-line", "JSIGHT 0.3\n#\n"},
		{"after-trailing-bare-hash", "JSIGHT 0.3\nGET /a #\n"},
		{"after-block-comment", "JSIGHT 0.3\n###\nGET /not\n###\n"},
		{"after-cr-comment", "JSIGHT 0.3\r# c\r"},
		{"after-annotation-and-crlf", "JSIGHT 0.3\r\nTYPE @t any // note\r\n"},
		// after directives whose parameter says that no body follows, in the spellings the language allows
		{"after-response-with-quoted-type-array", "JSIGHT 0.3\nGET /a\n  200 \"[@cat]\"\n  "},
		{"after-request-with-quoted-type", "JSIGHT 0.3\nPOST /a\n  Request \"@cat\"\n  "},
		{"after-body-with-quoted-notation", "JSIGHT 0.3\nGET /a\n  200\n    Body \"any\"\n"},
		{"after-response-with-type-array-and-annotation", "JSIGHT 0.3\nGET /a\n  200 [@cat] /* note */\n"},
		// after a body whose last byte is followed by blanks, a tab or a comment on the same line (round 9: the state after the
		// closing bracket of an ENUM is one of its own)
		{"after-enum-and-blank", "JSIGHT 0.3\nENUM @e\n[\"a\"] \n"},
		{"after-enum-tab-and-comment", "JSIGHT 0.3\nENUM @e\n[\n  \"a\"\n]\t# c\n"},
		{"after-enum-and-block-comment", "JSIGHT 0.3\nENUM @e\n[\"a\"] ###\n x\n###\n"},
		{"after-schema-and-blanks", "JSIGHT 0.3\nTYPE @t\n{\"k\": 1}   \n"},
		{"after-regex-and-blank-comment", "JSIGHT 0.3\nTYPE @t regex\n/ab+/ # c\n"},
		{"after-double-hash-comment-with-hash", "JSIGHT 0.3\n## section # one\n"},
		{"after-trailing-double-hash-comment", "JSIGHT 0.3\nGET /a ## list # all\n"},
		{"after-double-hash-glued", "JSIGHT 0.3\n##a#b\n"},
		{"after-parenthesised-description", "JSIGHT 0.3\nGET /a\n  Description\n  (\n    text\n  )\n"},
	}
	pool := c.Pool(false, 0)
	kindsHit := newStrSet()
	acceptedWords := map[string]*strSet{}
	for _, cx := range contexts {
		acceptedWords[cx.name] = newStrSet()
	}

	for _, cx := range contexts {
		frontier := []string{""}
		completed := map[string]bool{}
		var dead []string // words rejected at their last byte
		for depth := 0; depth <= 12 && len(frontier) > 0; depth++ {
			var cases []probeCase
			for _, p := range frontier {
				for b := -1; b < 256; b++ {
					cases = append(cases, probeCase{ctx: cx.text, prefix: p, b: b})
				}
			}
			next := map[string]bool{}
			results := runProbes(c, pool, cases, len(cx.text))
			for i, pc := range cases {
				pr := results[i]
				word := pc.prefix
				if pc.b >= 0 {
					word += string([]byte{byte(pc.b)})
				}
				c.Count(cx.name+"\x00"+word+fmt.Sprint(pc.b), true)
				off := len(cx.text)
				if pr.Panic != "" {
					c.Violate("panic:scan", fmt.Sprintf("context %s, input %q: %s", cx.name, word, pr.Panic), &fw.Replay{Observed: pr, Expected: word})
					continue
				}
				if pc.b < 0 {
					// prefix followed by end of file: a complete keyword must be produced, an incomplete one must fail at EOF
					continue // decided when the prefix was reached (below) – kept for the probe count
				}
				live := pr.ErrIndex == off+len(word) && pr.LexType == "" // error exactly at EOF, nothing produced
				complete := pr.LexType == "keyword" && pr.Begin == off && pr.End == off+len(word)-1
				rejectedHere := pr.ErrIndex == off+len(word)-1
				wantPrefix := prefixes[word]
				wantWord := words[word]
				switch {
				case depth == 0 && (pc.b == ' ' || pc.b == '\t' || pc.b == '\n' || pc.b == '\r' || pc.b == '#'):
					if pr.ErrIndex >= 0 && pr.ErrIndex <= off {
						c.Violate("start:trivia-rejected", fmt.Sprintf("context %s: byte %q at a directive start gives error at %d: %s", cx.name, word, pr.ErrIndex, pr.ErrMsg), &fw.Replay{Observed: pr})
					}
				case depth == 0 && (pc.b == '(' || pc.b == ')'):
					if pr.ErrIndex == off || !strings.HasPrefix(pr.LexType, "context-") {
						c.Violate("start:parenthesis", fmt.Sprintf("context %s: %q at a directive start: lexeme %q error %d %s", cx.name, word, pr.LexType, pr.ErrIndex, pr.ErrMsg), &fw.Replay{Observed: pr})
					}
				case wantWord:
					if !complete {
						c.Violate("keyword:not-recognised", fmt.Sprintf("context %s: %q is a keyword but the scanner gave lexeme=%q [%d:%d] error@%d %s", cx.name, word, pr.LexType, pr.Begin, pr.End, pr.ErrIndex, pr.ErrMsg), &fw.Replay{Observed: pr})
						continue
					}
					if pr.KindErr != "" || pr.Kind == "" {
						c.Violate("keyword:unknown-to-directive-table", fmt.Sprintf("%q is scanned as a keyword but the directive table rejects it: %s", word, pr.KindErr), &fw.Replay{Observed: pr})
					}
					kindsHit.add(pr.Kind)
					acceptedWords[cx.name].add(word)
					completed[word] = true
				case wantPrefix:
					if !live {
						c.Violate("keyword:prefix-not-live", fmt.Sprintf("context %s: %q is a proper prefix of a keyword but the scanner gave lexeme=%q error@%d (%s), expected an error at end of input %d", cx.name, word, pr.LexType, pr.ErrIndex, pr.ErrMsg, off+len(word)), &fw.Replay{Observed: pr})
						continue
					}
					next[word] = true
				default:
					if complete {
						c.Violate("keyword:extra-word-accepted", fmt.Sprintf("context %s: %q is not a keyword but is scanned as one", cx.name, word), &fw.Replay{Observed: pr})
						completed[word] = true
						continue
					}
					if live {
						c.Violate("keyword:extra-prefix-live", fmt.Sprintf("context %s: %q is not a prefix of any keyword but the scanner still waits for more", cx.name, word), &fw.Replay{Observed: pr})
						if len(next) < 2000 { // a scanner that waits after every byte would make the frontier grow 256-fold per level (the driver was killed for its memory)
							next[word] = true
						}
						continue
					}
					if rejectedHere && (depth == 0 || len(dead) < 320) {
						dead = append(dead, word)
					}
					if !rejectedHere {
						c.Violate("keyword:error-not-at-first-deviating-byte", fmt.Sprintf("context %s: %q deviates at byte %d but the scanner gave lexeme=%q error@%d %s", cx.name, word, off+len(word)-1, pr.LexType, pr.ErrIndex, pr.ErrMsg), &fw.Replay{Observed: pr})
					}
				}
			}
			frontier = frontier[:0]
			for w := range next {
				frontier = append(frontier, w)
			}
			sort.Strings(frontier)
			c.Inc("frontier_by_depth", fmt.Sprintf("%s/%02d", cx.name, depth+1), len(frontier))
		}
		// "any other byte sequence yields an error at the first deviating byte": whatever follows the deviating byte. Every dead
		// word of depth 0 (a single byte that can start nothing) and 60 deeper ones are followed by each of the 256 bytes, by tails that
		// are something elsewhere (the rest of a byte order mark, of other multi-byte characters, line ends, a directive), and - bytes
		// above 0x7F, in three contexts - by all pairs of UTF-8 continuation bytes
		{
			sort.Strings(dead)
			var dcases []probeCase
			tails := []string{"\xbb\xbf", "\xbb\xbfGET /a\n", "\xbb\xbf\nGET /a\n", "\xa0", "\x80\xa8", "\x80\x8b", "\xbf\xbd", "\r\n", "\n", " ", "\nGET /a\n", " GET /a\n", "GET /a\n", "\x00", "\xff\xfe", "#\n", "//\n", "(\n", ")\n", "\"", "\\"}
			afterBody := strings.HasPrefix(cx.name, "after-enum") || strings.HasPrefix(cx.name, "after-schema") || strings.HasPrefix(cx.name, "after-regex")
			for i, w := range dead {
				if len(w) > 1 && i%5 != 0 {
					continue
				}
				if w == "/" && afterBody {
					continue // the line after a body may begin the annotation of that directive: "/" is the first byte of "//" or "/*" there
				}
				pre, last := w[:len(w)-1], int(w[len(w)-1])
				for b := 0; b < 256; b++ {
					dcases = append(dcases, probeCase{ctx: cx.text, prefix: pre, b: last, tail: string([]byte{byte(b)})})
				}
				for _, t := range tails {
					dcases = append(dcases, probeCase{ctx: cx.text, prefix: pre, b: last, tail: t})
				}
				if len(w) == 1 && last >= 0x80 && (cx.name == "file-start" || cx.name == "after-directive" || cx.name == "after-block-comment") {
					for b1 := 0x80; b1 < 0xc0; b1++ {
						for b2 := 0x80; b2 < 0xc0; b2++ {
							dcases = append(dcases, probeCase{ctx: cx.text, prefix: pre, b: last, tail: string([]byte{byte(b1), byte(b2)}) + "GET /a\n"})
						}
					}
				}
			}
			dres := runProbes(c, pool, dcases, len(cx.text))
			for i, pc := range dcases {
				pr := dres[i]
				c.Count(cx.name+"\x02"+pc.prefix+fmt.Sprint(pc.b)+pc.tail, true)
				at := len(cx.text) + len(pc.prefix)
				switch {
				case pr.Panic != "":
					c.Violate("panic:scan", fmt.Sprintf("context %s, input %q: %s", cx.name, pc.prefix+string([]byte{byte(pc.b)})+pc.tail, pr.Panic), &fw.Replay{Observed: pr})
				case pr.ErrIndex != at || pr.LexType != "":
					c.Violate("keyword:dead-word-with-tail", fmt.Sprintf("context %s: %q deviates at byte %d whatever follows; followed by %q the scanner gave lexeme=%q error@%d %s", cx.name, pc.prefix+string([]byte{byte(pc.b)}), at, pc.tail, pr.LexType, pr.ErrIndex, pr.ErrMsg), &fw.Replay{Observed: pr})
				}
			}
			c.Inc("dead_word_probes", cx.name, len(dcases))
		}
		// terminator rule for every completed keyword
		var cases []probeCase
		var ws []string
		for w := range completed {
			ws = append(ws, w)
		}
		sort.Strings(ws)
		for _, w := range ws {
			for b := -1; b < 256; b++ {
				cases = append(cases, probeCase{ctx: cx.text, prefix: w, b: b})
			}
		}
		results := runProbes(c, pool, cases, len(cx.text))
		off := len(cx.text)
		for i, pc := range cases {
			pr := results[i]
			c.Count(cx.name+"\x01"+pc.prefix+fmt.Sprint(pc.b), true)
			at := off + len(pc.prefix)
			kw := pr.LexType == "keyword" && pr.Begin == off && pr.End == at-1
			if pr.Panic != "" {
				c.Violate("panic:scan", fmt.Sprintf("context %s, keyword %q + byte %d: %s", cx.name, pc.prefix, pc.b, pr.Panic), &fw.Replay{Observed: pr})
				continue
			}
			switch {
			case pc.b < 0 || isTerminator(pc.b):
				if !kw || (pc.b >= 0 && pr.ErrIndex == at) {
					c.Violate("terminator:rejected", fmt.Sprintf("context %s: keyword %q followed by %s is not accepted: lexeme=%q [%d:%d] error@%d %s", cx.name, pc.prefix, byteName(pc.b), pr.LexType, pr.Begin, pr.End, pr.ErrIndex, pr.ErrMsg), &fw.Replay{Observed: pr})
				}
			default:
				if pr.ErrIndex != at {
					c.Violate("terminator:extra-accepted", fmt.Sprintf("context %s: keyword %q followed by %s must fail at %d, got lexeme=%q error@%d %s", cx.name, pc.prefix, byteName(pc.b), at, pr.LexType, pr.ErrIndex, pr.ErrMsg), &fw.Replay{Observed: pr})
				}
			}
		}
		c.Inc("accepted_words", cx.name, acceptedWords[cx.name].len())
		if acceptedWords[cx.name].len() != len(words) {
			var missing []string
			for w := range words {
				if !acceptedWords[cx.name].has(w) {
					missing = append(missing, w)
				}
			}
			sort.Strings(missing)
			if len(missing) > 0 {
				c.Violate("keyword:unreachable", fmt.Sprintf("context %s: %d words of the list were never accepted: %v", cx.name, len(missing), missing[:minI(len(missing), 10)]), nil)
			}
		}
	}
	// A line start inside the text of an implicit Description is a position where a directive may start as well; there the decision is
	// taken by another piece of code (a look-ahead over the line), and anything that is not a keyword is text, not an error.
	for _, cx := range []struct{ name, text string }{
		{"description-text-line-start", "JSIGHT 0.3\nGET /a\n  Description\n    some text\n"},
		{"description-text-indented-line", "JSIGHT 0.3\nURL /a\n  GET\n    Description\n      some text\n  "},
		{"description-text-after-blank-line", "JSIGHT 0.3\nGET /a\n  Description\n    some text\n\n\t"},
	} {
		var ws []string
		for w := range words {
			ws = append(ws, w)
		}
		sort.Strings(ws)
		var cases []probeCase
		var want []bool
		for _, w := range ws {
			for b := -1; b < 256; b++ {
				cases = append(cases, probeCase{ctx: cx.text, prefix: w, b: b})
				want = append(want, b < 0 || isTerminator(b))
			}
		}
		// near misses followed by each terminator: proper prefixes, one byte changed, one byte appended
		near := map[string]bool{}
		for _, w := range ws {
			for i := 1; i < len(w); i++ {
				near[w[:i]] = true
			}
			for i := 0; i < len(w); i++ {
				for _, d := range []byte{w[i] ^ 0x20, w[i] + 1, w[i] - 1} {
					near[w[:i]+string([]byte{d})+w[i+1:]] = true
				}
			}
			near[w+"s"], near[w+"0"], near[w+w] = true, true, true
		}
		var ns []string
		for w := range near {
			if !words[w] && !strings.ContainsAny(w, " \t\r\n#/") {
				ns = append(ns, w)
			}
		}
		sort.Strings(ns)
		for _, w := range ns {
			for _, b := range []int{-1, ' ', '\t', '\n', '\r', '#', '/'} {
				cases = append(cases, probeCase{ctx: cx.text, prefix: w, b: b})
				want = append(want, false)
			}
		}
		results := runProbes(c, pool, cases, len(cx.text))
		off := len(cx.text)
		recognised := newStrSet()
		for i, pc := range cases {
			pr := results[i]
			c.Count(cx.name+"\x02"+pc.prefix+fmt.Sprint(pc.b), true)
			if pr.Panic != "" {
				c.Violate("panic:scan", fmt.Sprintf("context %s, word %q + %s: %s", cx.name, pc.prefix, byteName(pc.b), pr.Panic), &fw.Replay{Observed: pr})
				continue
			}
			kw := pr.LexType == "keyword" && pr.Begin == off && pr.End == off+len(pc.prefix)-1
			// a non-keyword line may be text or an error (a line of text that merely begins with a keyword is ambiguous in the language);
			// what must not happen is a keyword lexeme whose value is the non-keyword
			anyKw := kw && !words[pc.prefix]
			switch {
			case want[i] && !kw:
				c.Violate("description:keyword-not-recognised", fmt.Sprintf("context %s: the line %q (+%s) after a Description text must start a directive; scanner gave lexeme=%q [%d:%d] error@%d %s", cx.name, pc.prefix, byteName(pc.b), pr.LexType, pr.Begin, pr.End, pr.ErrIndex, pr.ErrMsg), &fw.Replay{Observed: pr, Expected: string(pc.bytes())})
			case !want[i] && anyKw:
				c.Violate("description:extra-word-accepted", fmt.Sprintf("context %s: %q followed by %s is not a keyword but is scanned as one: lexeme=%q [%d:%d]", cx.name, pc.prefix, byteName(pc.b), pr.LexType, pr.Begin, pr.End), &fw.Replay{Observed: pr, Expected: string(pc.bytes())})
			case want[i]:
				recognised.add(pc.prefix)
			}
		}
		c.Inc("accepted_words", cx.name, recognised.len())
	}
	c.Extra("directive_kinds_hit", kindsHit.len())
	if kindsHit.len() != 31 {
		c.Violate("kinds:not-all-reachable", fmt.Sprintf("%d of 31 directive kinds were reached through accepted keywords", kindsHit.len()), nil)
	}
	c.Sample(map[string]interface{}{"context": "after-directive", "probe": "JSIGHT 0.3\\nPat + 'h'", "expected": "keyword lexeme Path, kind Path"})
	c.Sample(map[string]interface{}{"context": "file-start", "probe": "Pathx", "expected": "error at index 4"})
	c.Finish()
}

func minI(a, b int) int {
	if a < b {
		return a
	}
	return b
}

func byteName(b int) string {
	if b < 0 {
		return "end of file"
	}
	return fmt.Sprintf("byte %q", rune(b))
}

// runProbes executes the probes in batches and returns results in order.
func runProbes(c *fw.Ctx, pool interface {
	Run(<-chan *proto.Job, func(*proto.Job, *proto.Result)) error
}, cases []probeCase, off int) []proto.ProbeResult {
	out := make([]proto.ProbeResult, len(cases))
	const batch = 1500
	ch := make(chan *proto.Job, 64)
	go func() {
		defer close(ch)
		for s := 0; s < len(cases); s += batch {
			e := s + batch
			if e > len(cases) {
				e = len(cases)
			}
			j := &proto.Job{ID: fmt.Sprint(s), ProbeOffset: off}
			for _, pc := range cases[s:e] {
				j.Probes = append(j.Probes, pc.bytes())
			}
			ch <- j
		}
	}()
	err := pool.Run(ch, func(j *proto.Job, res *proto.Result) {
		var s int
		fmt.Sscan(j.ID, &s)
		if res.Fatal != nil || res.WorkerErr != "" || len(res.Probes) != len(j.Probes) {
			c.Inconclusive("a probe batch did not come back complete")
			for i := range j.Probes {
				out[s+i] = proto.ProbeResult{ErrIndex: -1, Panic: "batch lost"}
			}
			return
		}
		copy(out[s:], res.Probes)
	})
	if err != nil {
		c.Inconclusive("probe pool: " + err.Error())
	}
	return out
}
