package checks

import (
	"fmt"
	"strings"

	"verifharness/internal/fw"
	"verifharness/internal/gen"
	"verifharness/internal/model"
)

// acceptedWorkload: inputs with a high acceptance rate (corpus, light mutants) plus a targeted generator for the
// places where building and serialising are decoupled: Path bodies, regex bodies, comment-only bodies, undefined
// types, rule/example mismatches, notations any/empty/regex, repeated codes, allOf/or, enums, tags.
func acceptedWorkload(c *fw.Ctx, scale int, emit emitFn) {
	corpus := Corpus(c)
	r := gen.Rng(c.Seed, c.ID, "accepted")
	n := 0
	id := func(l string) string { n++; return fmt.Sprintf("%s-%d", l, n) }
	for _, p := range corpus {
		emit("corpus", projectJob(id("corpus"), p, false))
	}
	splice := func() []byte { return corpus[r.Intn(len(corpus))].RootContent() }
	for i := 0; i < 6000*scale; i++ {
		p := corpus[r.Intn(len(corpus))]
		if p.HasInclude() && r.Intn(4) != 0 {
			continue
		}
		q := &gen.Project{Root: p.Root, Files: cloneFiles(p.Files)}
		q.Files[p.Root] = gen.Mutate(r, p.RootContent(), 1+r.Intn(2), splice)
		emit("light-mutant", projectJob(id("lm"), q, false))
	}
	// rendered abstract models in random layouts (MACRO/PASTE abstraction of sibling runs incl. whole resources at the top level,
	// INCLUDE splitting, explicit contexts): accepted by construction, rich in path parameters, tags, headers and schema rules
	mr := gen.Rng(c.Seed, c.ID, "accepted-models")
	for i := 0; i < 400*scale; i++ {
		sz := model.QuickSize
		if i%3 == 0 {
			sz = model.FullSize
		}
		m := model.Generate(mr, sz)
		l := model.RandomLayout(gen.Rng(c.Seed, c.ID, "accepted-layout", fmt.Sprint(i)))
		if i%2 == 0 {
			l.Macros = true
		}
		rd := m.Render(l)
		emit("model", renderingJob(id("model"), rd))
	}
	// the full grid type kind x reference form x place (deterministic)
	typeUsageMatrix(emit)
	// inheritance: an object with allOf, inside it an object with allOf, inside that one more - every combination of five
	// rule values on three levels, in seven places (deterministic)
	allOfGrid(emit)
	// path variables described through a user type ("Path", "@p") and, for comparison, the same properties written in the Path body
	pathVarsThroughType(emit)
	// type ladders (ladder.go): small ones are accepted and must be written; large ones whose references are optional are cheap
	// to build - the serialisers meet the exponentially large example (D71)
	for _, ln := range []int{14, 20, 40, 60} {
		for form := 0; form < ladderForms; form++ {
			for deco := 0; deco < ladderDecos; deco++ {
				if ln >= 40 && deco != 1 && deco != 2 && deco != 6 {
					continue
				}
				n := ln
				if form == 4 && n <= 20 {
					n -= 5 // copying inherited properties is costly: fifteen types take as long as twenty with any other form
				}
				emit("type-ladder", singleJob(fmt.Sprintf("ladder-n%d-%s-%s", n, ladderFormNames[form], ladderDecoNames[deco]), typeLadder(n, form, deco), false))
			}
		}
	}
	// names that differ only in letter case: path parameters, query parameters, headers, properties, types, tags, enums -
	// all of them are different names in JSight, in JSON and in OpenAPI (header names excepted, which the property does not mention)
	for i, d := range []string{
		"GET /users/{id}/items/{ID}\n  200 any\n",
		"GET /users/{id}/items/{ID}\n  Path\n    {\"id\": 1, \"ID\": \"x\"}\n  200 any\n",
		"URL /o/{orderId}/l/{orderid}\n  Path\n    {\n      \"orderId\": 1, // first\n      \"orderid\": 2 // second\n    }\n  GET\n    200 any\n  DELETE\n    204 empty\n",
		"URL /o/{a}\n  Path\n    {\"a\": 1}\n  GET /o/{a}/p/{A}\n    Path\n      {\"A\": \"s\"}\n    200 any\n",
		"GET /q\n  Query \"a=1&A=2\"\n    {\"a\": 1, \"A\": 2}\n  200 any\n",
		"POST /h\n  Request\n    Headers\n      {\"X-A\": \"1\", \"x-a\": \"2\"}\n    Body any\n  200\n    Headers\n      {\"Etag\": \"1\", \"ETag\": \"2\"}\n    Body any\n",
		"TYPE @cat\n  {\"n\": 1}\nTYPE @Cat\n  {\"N\": \"s\"}\nGET /t\n  200\n    {\"a\": @cat, \"b\": @Cat, \"B\": @cat | @Cat}\n",
		"TAG @pets\nTAG @Pets\nGET /pets\n  Tags @Pets\n  200 any\nGET /Pets\n  Tags @pets\n  200 any\nGET /PETS\n  200 any\n",
		"ENUM @e\n  [\"a\"]\nENUM @E\n  [\"A\"]\nGET /e\n  200\n    {\n      \"x\": \"a\", // {enum: @e}\n      \"X\": \"A\" // {enum: @E}\n    }\n",
		"URL /rpc\n  Protocol json-rpc-2.0\n  Method ping\n    Params\n      {\"p\": 1, \"P\": 2}\n    Result any\n  Method Ping\n    Result any\n",
		"GET /a/{id}\n  200 any\nGET /A/{id}\n  200 any\nGET /a/{ID}/x\n  200 any\n",
		"SERVER @s\n  BaseUrl \"https://{env}.{Env}.x.com\"\n    {\"env\": \"a\", \"Env\": \"b\"}\nSERVER @S\n  BaseUrl \"https://y\"\nGET /s\n  200 any\n",
	} {
		emit("case-variants", singleJob(fmt.Sprintf("case-%d", i), []byte("JSIGHT 0.3\n"+d), false))
	}
	// schemas that the converters to OpenAPI cannot represent, in every place of an interaction (and in a TYPE): the export must
	// return an error value, the catalog must be written
	for i, ap := range []string{"decimal", "mixed", "enum"} {
		obj := "{ // {additionalProperties: \"" + ap + "\"}\n    }"
		for k, d := range []string{
			"GET /x\n  200\n    " + obj + "\n",
			"POST /x\n  Request\n    {\n      \"a\": " + obj + "\n    }\n  200 any\n",
			"GET /x\n  Query \"q=1\"\n    {\n      \"a\": " + obj + "\n    }\n  200 any\n",
			"GET /fine/{id}\n  200 any\nPUT /x\n  Request\n    {\"ok\": 1}\n  200 any\n  404\n    {\n      \"details\": " + obj + "\n    }\n",
			"POST /h\n  Request\n    Headers\n      {\n      \"h\": " + obj + "\n      }\n    Body any\n  200\n    Headers\n      {\n      \"g\": " + obj + "\n      }\n    Body any\n",
			"URL /rpc\n  Protocol json-rpc-2.0\n  Method m\n    Params\n      " + obj + "\n    Result\n      " + obj + "\n",
			"TYPE @un\n  " + obj + "\nGET /t\n  200 @un\n  201 [@un]\n",
			"GET /p/{id}\n  Path\n    {\n      \"id\": 1\n    }\n  200\n    [\n      " + obj + "\n    ]\n",
			// ... together with a key given by a user type: that object is converted only while the document is written
			"TYPE @k\n  \"s\"\nGET /x\n  200\n    { // {additionalProperties: \"" + ap + "\"}\n      @k: 1\n    }\n",
			"TYPE @k\n  \"s\"\nTYPE @o\n  { // {additionalProperties: \"" + ap + "\"}\n    @k: 1\n  }\nPOST /x\n  Request @o\n  200 [@o]\n",
		} {
			emit("unconvertible-schemas", singleJob(fmt.Sprintf("unconv-%d-%d", i, k), []byte("JSIGHT 0.3\n"+d), false))
		}
	}
	// targeted generator
	schemas := []string{
		`{"id": 1}`, `{"id": "a"}`, `{"id": 1 // {min: 5}` + "\n}", `{"id": "abc" // {minLength: 10}` + "\n}", `{"id": @t}`, `{"id": @undefined}`,
		`{"id": 1 // {type: "@t"}` + "\n}", `{"id": 1 // {type: "@undefined"}` + "\n}", `{"id": "x" // {enum: @e}` + "\n}", `{"id": "x" // {enum: @undefinedEnum}` + "\n}",
		`{ // {allOf: "@base"}` + "\n}", `{ // {allOf: "@d"}` + "\n  \"more\": true\n}", `@d`, `{"w": @t|@u}`, `@t|@u`,
		`{"id": 1, "x": 2}`, `{}`, `[]`, `[1,2]`, `1`, `"s"`, `null`, `true`, `@t`, `[@t]`, `@t | @u`, `@undefined`, `{ // {allOf: "@t"}` + "\n}", `{ // {allOf: "@undefined"}` + "\n}",
		`{"a": 1 // {or: ["@t", "@u"]}` + "\n}", `{"a": 1 // {or: [{type: "integer"}, {type: "string"}]}` + "\n}", `{"a": {"b": [1, "x", {"c": null}]}}`,
		`# only a comment`, `{ # c` + "\n}", `{"id": 1 // {nullable: true}` + "\n}", `{"id": 1 // {optional: true}` + "\n}", `{"id": 1.5 // {precision: 1}` + "\n}",
		`{"id": "2021-01-02" // {type: "date"}` + "\n}", `{"id": "x@y.z" // {type: "email"}` + "\n}", `{"id": "bad" // {type: "email"}` + "\n}",
		`{"id": 1 // {const: true}` + "\n}", `{"k": 1 // {additionalProperties: "string"}` + "\n}", `{ // {additionalProperties: "@t"}` + "\n}",
		`{"id": "\xff"}`, `{"id\xc3": 1}`, `{"@t": 1}`, `{@t: 1}`, `{"id": 1 /* note */}`, `{"id": 1 // {min: 1} - the id` + "\n}", `"x" // {regex: "^x$"}`, `"x" // {regex: "("}`,
		`{"x": {} // {or: [{type: "object"}, {type: "array"}]}` + "\n}", `{"x": [] // {or: [{type: "object"}, {type: "array"}]}` + "\n}", `{"x": {} // {or: ["object", "string"]}` + "\n}", `{"x": 1 // {or: [{type: "object"}, {type: "integer"}]}` + "\n}",
		`[] // {or: [{type: "array", minItems: 0}, {type: "null"}]}`, `{} // {or: [{type: "object"}, "@t"]}`, `{"x": [1] // {or: [{type: "array"}, {type: "integer"}]}` + "\n}", `{"x": {"y": 1} // {or: [{type: "object"}, {type: "integer"}]}` + "\n}",
		`{ // {additionalProperties: "decimal"}` + "\n}", `{"k": 1 // {additionalProperties: "mixed"}` + "\n}", `{ // {additionalProperties: "enum"}` + "\n}", `{"o": { // {additionalProperties: "decimal"}` + "\n  }\n}", `{@t: 1 // {additionalProperties: "decimal"}` + "\n}",
		`{"a":1,"a":2}`, `{"q\"k": 1, "b\\s": "v\"q\\ \n \u00e9 /", "uni\u00e9": -0.5, "": 0, "ключ": [[], {}], "e": {}}`, `{"plain key": "text with \"quotes\" and \\ and é", "n": 12345678901234567890, "z": -0}`, `[1 // {min: 2}` + "\n]", `{"id": 12 // {type: "mixed", or: ["@t", {type: "integer"}]}` + "\n}",
	}
	regexes := []string{`/([A-Za-z]+|[[:^ascii:]]+)/`, `/(ab|[\x{80}-\x{10FFFF}]c)/`, `/(xx|[^\x{0}-\x{10FFFF}]q)/`, `/[^\x00-\x{10FFFF}]/`, `/[^\s\S]/`, `/a{0}/`, `/\b\B/`, `/$a/`, `/abc/`, `/[a-z]+/`, `/(/`, `/[a-z]\x95/`, `//`, `/a{2,1}/`, `/\d+/`, `/(?=a)/`, `/a/ `, `/\//`, `/[/`, "/a\nb/", `/(?P<n>a)/`}
	types := []string{"", "TYPE @t\n{\"k\": 1}\n", "TYPE @t\n{\"k\": 1}\nTYPE @u\n{\"m\": \"s\"}\n", "TYPE @t regex\n/ab+/\n", "TYPE @t any\n", "TYPE @t empty\n",
		"TYPE @t\n1\n", "TYPE @t\n{\"k\": @u}\nTYPE @u\n{\"l\": @t // {optional: true}\n}\n", "TYPE @t\n[1]\n", "TYPE @t\n\"s\" // {enum: @e}\nENUM @e\n[\"s\", \"t\"]\n",
		"TYPE @t\n{\"k\": 1}\nTYPE @u\n{\"m\": \"s\"}\nTYPE @base\n{\n  \"x\": @t|@u,\n  \"y\": @t  |  @u,\n  \"z\": @u |@t\n}\nTYPE @d\n{ // {allOf: \"@base\"}\n  \"own\": 1\n}\n",
		"TYPE @t\n{\"k\": 1}\nTYPE @u\n[1]\nTYPE @base\n{\n  \"x\": @t| @u // {optional: true}\n}\n",
		"TYPE [@t]\n1\n", "TYPE [@t]\n1\nTYPE [@u]\n2\n", "TYPE [@t] regex\n/a/\nTYPE [@u] any\n",
		// a regular expression whose first example can be generated and whose later ones cannot, used by one, two and three schemas
		"TYPE @t regex\n/(xx|[^\\x{0}-\\x{10FFFF}]q)/\n", "TYPE @t regex\n/(xx|[^\\x{0}-\\x{10FFFF}]q)/\nTYPE @u\n{\"k\": @t}\nTYPE @v\n{\"k\": @t}\n",
		"TYPE @r regex\n/(a|b|[^\\x{0}-\\x{10FFFF}])/\nTYPE @t\n{\"k\": @r}\nTYPE @u\n{\"k\": @r, \"l\": @r}\nTYPE @v\n[@r, @r]\n",
		// literal keys that look like type names (quoted "@id", "@type" - JSON-LD style) in a type that others inherit from
		"TYPE @base\n{\n  \"@id\": 1,\n  \"@type\": \"x\",\n  \"plain\": true\n}\nTYPE @d\n{ // {allOf: \"@base\"}\n  \"own\": 1\n}\nTYPE @t\n{\"k\": 1}\nTYPE @u\n{ // {allOf: [\"@d\", \"@t\"]}\n  \"@context\": \"c\"\n}\n",
		// character classes that match nothing the generator of examples can write, in spellings without "[^"
		"TYPE @t regex\n/([A-Za-z]+|[[:^ascii:]]+)/\n", "TYPE @t regex\n/([A-Za-z]+|[[:^ascii:]]+)/\nTYPE @u\n{\"k\": @t}\n", "TYPE @t regex\n/(ab|[\\x{80}-\\x{10FFFF}]c)/\nTYPE @u\n{\"k\": @t}\nTYPE @v\n[@t]\n",
		"TYPE @t regex\n/(x|\\P{Any}y)/\n", "TYPE @t regex\n/(a|b|c|[[:^ascii:]])/\nTYPE @u\n{\"k\": @t, \"l\": @t}\n", "TYPE @t regex\n/([a-c]|[\\x{100}-\\x{10FFFF}])+/\n",
		// schemas of TYPE directives for which no example can be built
		"TYPE @t\n[] // {or: [{type: \"integer\"}, {type: \"array\"}]}\n", "TYPE @t\n{\n  \"x\": {} // {or: [{type: \"object\"}, {type: \"string\"}]}\n}\n", "TYPE @u\n{\"m\": 1}\nTYPE @t\n{} // {or: [{type: \"object\"}, \"@u\"]}\n",
		"ENUM @e\n[\"x\", \"y\"]\n", "ENUM @e\n[]\n", "ENUM @e\n[ # nothing\n]\n", "ENUM @e\n[1, 2 // two\n]\n", "TYPE @t\n{\"k\": 1}\nENUM @e\n[\"x\"]\nTYPE @u\n{\"p\": @t}\n"}
	pick := func(ss []string) string { return ss[r.Intn(len(ss))] }
	sch := func() string {
		if r.Intn(5) == 0 {
			return pick(regexes)
		}
		return pick(schemas)
	}
	for i := 0; i < 5000*scale; i++ {
		var sb strings.Builder
		sb.WriteString("JSIGHT 0.3\n")
		sb.WriteString(pick(types))
		switch r.Intn(10) {
		case 9: // ids that are different but are written the same way (the text of the id is the key in the catalog)
			switch r.Intn(8) {
			case 7: // different methods on paths that differ only in bytes that are not UTF-8: one path in every JSON text
				sb.WriteString("GET /c\xff\n  200 any\nPOST /c\xfe\n  201 any\nDELETE /c\xff\xfe\n  204 empty\nPUT /c\xc3\x28\n  200 any\nPATCH /c\xa0\x28\n  200 any\n")
			case 4: // names and paths with blanks at their ends (quoted): key, id and the fields must still agree
				sb.WriteString("URL /rpc\n  Protocol json-rpc-2.0\n  Method \" ping\"\n    Result\n      1\n  Method \"get cats \"\n    Result\n      2\n  Method \"  x  \"\n    Result\n      3\nGET \"/p \"\n  200 any\nPOST \"/p  \"\n  200 any\n")
			case 5: // runs of invalid bytes: encoding/json writes one U+FFFD per byte
				sb.WriteString("GET /a\xff\xff\n  200 any\nGET /a\xef\xbf\xbd\xef\xbf\xbd\n  200 any\n")
			case 6:
				sb.WriteString("GET /b\xff\n  200 any\nGET /b\xff\xff\n  200 any\nURL /r\n  Protocol json-rpc-2.0\n  Method caf\xe9\n    Result\n      1\n  Method caf\xe8\n    Result\n      2\n")
			case 0:
				if r.Intn(2) == 0 { // the same two ids in the other order
					sb.WriteString("URL \"/x /y\"\n  Protocol json-rpc-2.0\n  Method a\n    Result\n      2\nURL /y\n  Protocol json-rpc-2.0\n  Method \"a /x\"\n    Result\n      1\n")
					break
				}
				sb.WriteString("URL /y\n  Protocol json-rpc-2.0\n  Method \"a /x\"\n    Result\n      1\nURL \"/x /y\"\n  Protocol json-rpc-2.0\n  Method a\n    Result\n      2\n")
			case 1:
				sb.WriteString("GET /a\xff\n  200 any\nGET /a\xfe\n  200 any\n")
			case 2:
				if r.Intn(2) == 0 {
					sb.WriteString("URL \"/z /z\"\n  Protocol json-rpc-2.0\n  Method m\n    Result\n      2\nURL /z\n  Protocol json-rpc-2.0\n  Method \"m /z\"\n    Result\n      1\n  Method \"m \"\n    Result\n      3\n")
					break
				}
				sb.WriteString("URL /z\n  Protocol json-rpc-2.0\n  Method \"m /z\"\n    Result\n      1\nURL \"/z /z\"\n  Protocol json-rpc-2.0\n  Method m\n    Result\n      2\n  Method \"m \"\n    Result\n      3\n")
			default:
				sb.WriteString("GET \"/p q\"\n  200 any\nPOST \"/p q\"\n  200 any\nGET \"/p  q\"\n  200 any\n")
			}
		case 0: // Path body at URL level
			sb.WriteString("URL /a/{id}\n  Path\n    " + sch() + "\n  GET\n    200 any\n")
		case 1: // Path at method level
			sb.WriteString("GET /a/{id}/b/{x}\n  Path\n    " + sch() + "\n  200 " + pick([]string{"any", "empty", "@t", "[@t]"}) + "\n")
		case 2: // Path on both levels
			sb.WriteString("URL /a/{id}/{x}\n  Path\n    " + sch() + "\n  GET\n    Path\n      " + sch() + "\n    200 any\n")
		case 3: // regex bodies
			sb.WriteString("GET /r\n  200 regex\n    " + pick(regexes) + "\n  Request regex\n    " + pick(regexes) + "\n")
		case 4: // query / headers / bodies
			sb.WriteString("POST /q\n  Query \"a=1\"\n    " + sch() + "\n  Request\n    Headers\n      " + sch() + "\n    Body\n      " + sch() + "\n  200\n    Headers\n      " + sch() + "\n    Body " + pick([]string{"any", "empty", "@t", "regex\n      /a/", "\n      " + sch()}) + "\n")
		case 5: // repeated codes and notations; responses that consist of a code and Headers only (no body anywhere)
			sb.WriteString("GET /c\n  200 any\n  200 empty\n  404 @t\n  500 [@t]\n  501 regex\n    /x/\n")
			switch r.Intn(4) {
			case 0:
				sb.WriteString("  304 // not modified\n    Headers\n      {\"ETag\": \"x\"}\n")
			case 1:
				sb.WriteString("POST /c\n  201\n    Headers\n      {\"Location\": \"/c/1\"}\n  202 any\n")
			case 2:
				sb.WriteString("POST /c\n  Request\n    Headers\n      {\"X\": \"y\"}\n  200 any\n")
			}
		case 6: // json-rpc
			sb.WriteString("URL /rpc\n  Protocol json-rpc-2.0\n  Method m1\n    Params\n      " + sch() + "\n    Result\n      " + sch() + "\n  Method m2\n    Tags @g\nTAG @g\n")
		case 7: // tags
			sb.WriteString("TAG @g // title\n  Description\n    text\nTAG @h\nGET /t/{id} // ann\n  Tags @g @h\n  200 any\nPOST /t/{id}\n  Tags @h\n  200 any\nURL /t\n  Protocol json-rpc-2.0\n  Method mm\n    Tags @g\n")
		case 8: // server with base url variables, info
			sb.WriteString("INFO\n  Title \"T\"\n  Version 1\n  Description\n    some *text*\nSERVER @s // srv\n  BaseUrl \"https://{env}.x.com\"\n    " + sch() + "\nGET /s\n  200 " + pick([]string{"any", "@t"}) + "\n")
		}
		emit("targeted", singleJob(id("tg"), []byte(sb.String()), false))
	}
}

// allOfGrid: three nested objects, each with one of five allOf values (none, a plain type, a type that inherits itself, a type
// with a shortcut key, a list of two types), written in a TYPE, a request body, a response body, Headers, Query, Params and Result.
func allOfGrid(emit emitFn) {
	types := "TYPE @base\n  {\"b\": 1}\nTYPE @mid\n  {\"m\": \"s\", \"m2\": [1]}\nTYPE @top\n  { // {allOf: \"@mid\"}\n    \"t\": true\n  }\n" +
		"TYPE @str\n  \"k\"\nTYPE @sc\n  {\n    @str: 5,\n    \"plain\": null\n  }\n"
	rules := []string{"", `"@base"`, `"@top"`, `"@sc"`, `["@base", "@mid"]`}
	obj := func(ind string, a, b, c string) string {
		r := func(v string) string {
			if v == "" {
				return ""
			}
			return " // {allOf: " + v + "}"
		}
		return "{" + r(a) + "\n" + ind + "  \"own1\": 1,\n" + ind + "  \"inner\": {" + r(b) + "\n" + ind + "    \"own2\": 2,\n" + ind + "    \"deeper\": {" + r(c) + "\n" + ind +
			"      \"own3\": 3\n" + ind + "    },\n" + ind + "    \"list\": [\n" + ind + "      {" + r(b) + "\n" + ind + "        \"own4\": 4\n" + ind + "      }\n" + ind + "    ]\n" + ind + "  }\n" + ind + "}"
	}
	n := 0
	for _, a := range rules {
		for _, b := range rules {
			for _, c := range rules {
				for place := 0; place < 7; place++ {
					var sb strings.Builder
					sb.WriteString("JSIGHT 0.3\n" + types)
					switch place {
					case 0:
						sb.WriteString("TYPE @grid\n  " + obj("  ", a, b, c) + "\nGET /g\n  200 @grid\nPOST /g\n  200\n    { // {allOf: \"@grid\"}\n      \"more\": 1\n    }\n")
					case 1:
						sb.WriteString("POST /g\n  Request\n    " + obj("    ", a, b, c) + "\n  200 any\n")
					case 2:
						sb.WriteString("GET /g\n  200\n    " + obj("    ", a, b, c) + "\n")
					case 3:
						sb.WriteString("GET /g\n  200\n    Headers\n      " + obj("      ", a, b, c) + "\n    Body any\n")
					case 4:
						sb.WriteString("GET /g\n  Query \"q=1\"\n    " + obj("    ", a, b, c) + "\n  200 any\n")
					case 5:
						sb.WriteString("URL /rpc\n  Protocol json-rpc-2.0\n  Method m\n    Params\n      " + obj("      ", a, b, c) + "\n    Result any\n")
					case 6:
						sb.WriteString("URL /rpc\n  Protocol json-rpc-2.0\n  Method m\n    Params any\n    Result\n      " + obj("      ", a, b, c) + "\n")
					}
					n++
					emit("allof-grid", singleJob(fmt.Sprintf("allof-%d", n), []byte(sb.String()), false))
				}
			}
		}
	}
}

// pathVarProps: properties a path variable schema may have (every scalar kind with a rule that shows in the catalog).
var pathVarProps = []string{
	"\"id\": 1", "\"id\": 1 // {min: 1}", "\"id\": \"x@y.z\" // {type: \"email\"}", "\"id\": \"2021-01-02\" // {type: \"date\"}", "\"id\": 5 // {type: \"any\"}",
	"\"id\": 2.5 // {type: \"decimal\", precision: 1}", "\"id\": 1 // {or: [\"integer\", \"string\"]}", "\"id\": \"a\" // {or: [{type: \"string\", maxLength: 3}, {type: \"integer\"}]}",
	"\"id\": \"x\" // {enum: @pe}", "\"id\": \"x\" // {enum: [\"x\", \"y\"]}", "\"id\": 12 // {type: \"@pt\"}", "\"id\": \"abc\" // {regex: \"^[a-c]+$\"}", "\"id\": \"abc\" // {minLength: 1, maxLength: 5}",
	"\"id\": true", "\"id\": 1 // {const: true}", "\"id\": 1 /* a note */", "\"id\": 3 // {min: 1, exclusiveMinimum: true}",
}

// pathVarsThroughType emits, for every property, the direct form ("direct-<n>") and the form through a type ("through-type-<n>"),
// at the method and at the URL.
func pathVarsThroughType(emit emitFn) {
	tail := "TYPE @pt\n  12\nENUM @pe\n  [\"x\", \"y\"]\n"
	for n, prop := range pathVarProps {
		for level := 0; level < 2; level++ {
			head, ind := "GET /pv/{id}\n", "  "
			rest := "  200 any\n"
			if level == 1 {
				head, rest = "URL /pv/{id}\n", "  GET\n    200 any\n  DELETE\n    204 empty\n"
			}
			direct := "JSIGHT 0.3\n" + head + ind + "Path\n" + ind + "  {\n" + ind + "    " + prop + "\n" + ind + "  }\n" + rest + tail
			through := "JSIGHT 0.3\n" + head + ind + "Path\n" + ind + "  @pv\n" + rest + tail + "TYPE @pv\n  {\n    " + prop + "\n  }\n"
			emit("path-vars", singleJob(fmt.Sprintf("direct-%d-%d", n, level), []byte(direct), false))
			emit("path-vars", singleJob(fmt.Sprintf("through-type-%d-%d", n, level), []byte(through), false))
		}
	}
	// two parameters: one whose rule needs something of the project (an ENUM by name, a user type), the other one typed - the type
	// of the second must not depend on whether the first can be read on its own; the declarations stand before or after the use
	firsts := []string{"\"id\": \"x\" // {enum: @pe}", "\"id\": 12 // {type: \"@pt\"}", "\"id\": \"y\" // {enum: [\"x\", \"y\"]}"}
	seconds := []string{"\"k\": \"x@y.z\" // {type: \"email\"}", "\"k\": 1 // {or: [\"integer\", \"string\"]}", "\"k\": 2.5 // {type: \"decimal\", precision: 1}", "\"k\": \"2021-01-02\" // {type: \"date\"}"}
	n := len(pathVarProps)
	for _, f := range firsts {
		for _, sd := range seconds {
			for order := 0; order < 2; order++ {
				n++
				props := "    " + strings.Replace(f, " // ", ", // ", 1) + "\n    " + sd // (the comma stands before the annotation)
				head, rest := "URL /pv2/{id}/x/{k}\n", "  GET\n    200 any\n"
				decls := tail
				direct := "JSIGHT 0.3\n" + head + "  Path\n    {\n  " + props + "\n    }\n" + rest
				through := "JSIGHT 0.3\n" + head + "  Path\n    @pv\n" + rest
				typ := "TYPE @pv\n  {\n" + props + "\n  }\n"
				if order == 0 {
					direct, through = direct+decls, through+decls+typ
				} else {
					direct, through = strings.Replace(direct, "JSIGHT 0.3\n", "JSIGHT 0.3\n"+decls, 1), strings.Replace(through, "JSIGHT 0.3\n", "JSIGHT 0.3\n"+typ+decls, 1)
				}
				emit("path-vars", singleJob(fmt.Sprintf("direct-%d-%d", n, order), []byte(direct), false))
				emit("path-vars", singleJob(fmt.Sprintf("through-type-%d-%d", n, order), []byte(through), false))
			}
		}
	}
}
