package checks

import (
	"strings"

	"verifharness/internal/fw"
	"verifharness/internal/proto"
	"verifharness/internal/ref"
)

// C17 – OpenAPI export: an error value or a structurally valid document; never a panic.
func C17(c *fw.Ctx) {
	c.Rule("corpus, 1-2 step mutants, targeted generator (all notations, repeated codes, headers, allOf/or, enums, Path schemas) and tag-rich " +
		"documents; every accepted build is exported with ToOpenAPIJson and ToOpenAPIJsonIndent; an error return is counted, a document is " +
		"validated against the catalog, and every Schema Object of the document (components, parameters, request bodies, responses, headers; " +
		"recursively) against the field table of OpenAPI 3.0.3 section 4.7.24 (known keys, value types, type names, items for arrays, non-empty " +
		"required/enum/allOf/anyOf/oneOf, a Reference Object has no siblings); distinct = distinct project bytes; non-trivial = accepted and export returned a document")
	c.Assume("the validator implements exactly the rules named in the property (harness/internal/ref/openapi.go); user type @x maps to component x")
	pool := c.Pool(false, 0)
	c.RunJobs(pool, func(emit func(*proto.Job)) {
		e := func(label string, j *proto.Job) {
			j.ID = label + "/" + j.ID
			j.Ops = []string{"json", "openapi", "openapiindent"}
			emit(j)
		}
		acceptedWorkload(c, c.Pick(2, 30), e)
		tagWorkload(c, c.Pick(2000, 40000), e)
	}, func(j *proto.Job, res *proto.Result) {
		if workerProblem(c, res) {
			return
		}
		label := j.ID[:strings.Index(j.ID, "/")]
		c.Inc("streams", label, 1)
		if res.Fatal != nil && res.Fatal.Stage == "build" {
			// the process died while the project was being built: that is C01's matter, no accessor was ever called
			c.Count(jobKey(j), false)
			c.Inc("verdicts", "died-during-the-build(judged by C01)", 1)
			return
		}
		if res.Fatal != nil {
			// the worker died or hung while building or while serialising/exporting: either way the accessor never returned
			c.Violate("fatal:"+res.Fatal.Kind+":"+res.Fatal.Func, "the worker process died or hung during the job: "+firstLines(res.Fatal.Stderr, 5), replayOf(j, res))
			return
		}
		if sig, _ := crashSig(res); sig != "" || !res.Accepted {
			c.Count(jobKey(j), false)
			c.Inc("verdicts", "not-accepted", 1)
			return
		}
		js := findOut(res, "json")
		var cat interface{}
		if sig, _ := outProblem(js); sig == "" {
			cat, _ = ref.ParseJSON(js.Bytes)
		}
		produced := false
		for _, op := range []string{"openapi", "openapiindent"} {
			o := findOut(res, op)
			switch {
			case o == nil:
				c.Inconclusive("export was not run")
			case o.Panic != nil:
				c.Violate("panic:"+op+":"+o.Panic.Func+":"+o.Panic.Kind, "OpenAPI export panicked: "+o.Panic.Value+"; stack: "+strings.Join(o.Panic.Stack, " < "), replayOf(j, res))
			case o.Err != "":
				c.Inc("verdicts", op+":error-returned", 1)
				c.Inc("export_errors", errKey(o.Err), 1)
			default:
				v, err := ref.ParseJSON(o.Bytes)
				if err != nil {
					c.Violate("output:not-json", op+" is not JSON: "+err.Error(), replayOf(j, res))
					continue
				}
				produced = true
				c.Inc("verdicts", op+":document", 1)
				rep := ref.ValidateOpenAPI(v, cat)
				for k, n := range rep.Counts {
					c.Inc("validated", k, n)
				}
				for _, e := range rep.Errors {
					rule := e[:strings.Index(e, ":")]
					if rule == "ref-unresolved" && strings.Contains(e, `"#/components/schemas/mixed"`) {
						rule += ":mixed" // a reference to the pseudo type of a union, see known finding D36
					}
					c.Violate("openapi:"+rule, e, replayOf(j, res))
				}
				if c.NeedSample() && op == "openapi" && label == "targeted" {
					c.Sample(map[string]interface{}{"document": sampleDoc(j.Files[j.Root]), "openapi_len": o.Len, "validated": rep.Counts})
				}
			}
		}
		c.Count(jobKey(j), produced)
	})
	if c.Hist("verdicts")["openapi:document"] < 300 {
		c.Inconclusive("fewer than 300 OpenAPI documents were validated")
	}
	// the cost of the export on documents that repeat one construct n and 4n times (scaling.go)
	scalingMonitor(c, c.Pool(false, 8), []string{"openapi"})
	c.Finish()
}
