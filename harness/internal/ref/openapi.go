package ref

import (
	"encoding/json"
	"fmt"
	"regexp"
	"strings"
)

// Structural validator for the OpenAPI 3.0.3 subset named by the property.

type OAReport struct {
	Errors []string
	Counts map[string]int
}

var reStatus = regexp.MustCompile(`^[1-5][0-9][0-9]$|^[1-5]XX$`)

// ValidateOpenAPI checks the export against the catalog it was made from.
func ValidateOpenAPI(oa interface{}, catalog interface{}) OAReport {
	rep := OAReport{Counts: map[string]int{}}
	errf := func(rule, f string, a ...interface{}) {
		if len(rep.Errors) < 20 {
			rep.Errors = append(rep.Errors, rule+": "+fmt.Sprintf(f, a...))
		}
	}
	top, ok := oa.(*Obj)
	if !ok {
		errf("top", "not an object")
		return rep
	}
	if v, ok := top.Str("openapi"); !ok || !strings.HasPrefix(v, "3.") {
		errf("openapi-field", "openapi = %q", v)
	}
	info := top.Obj("info")
	if info == nil {
		errf("info-field", "info missing")
	} else {
		if _, ok := info.Str("title"); !ok {
			errf("info-field", "info.title missing")
		}
		if _, ok := info.Str("version"); !ok {
			errf("info-field", "info.version missing")
		}
	}
	paths := top.Obj("paths")
	if paths == nil {
		errf("paths-field", "paths missing")
		return rep
	}
	comps := map[string]bool{}
	if c := top.Obj("components"); c != nil {
		if s := c.Obj("schemas"); s != nil {
			for _, k := range s.Keys {
				comps[k] = true
			}
		}
	}
	// every $ref resolves
	var walk func(w string, v interface{})
	walk = func(w string, v interface{}) {
		switch x := v.(type) {
		case *Obj:
			for _, k := range x.Keys {
				if k == "$ref" {
					s, ok := x.M[k].(string)
					if !ok {
						errf("ref-type", "%s.$ref is not a string", w)
						continue
					}
					const pfx = "#/components/schemas/"
					if !strings.HasPrefix(s, pfx) || !comps[unescapeRef(strings.TrimPrefix(s, pfx))] {
						errf("ref-unresolved", "%s.$ref = %q does not resolve", w, s)
					} else {
						rep.Counts["refs_resolved"]++
					}
					continue
				}
				walk(w+"."+k, x.M[k])
			}
		case []interface{}:
			for i, e := range x {
				walk(fmt.Sprintf("%s[%d]", w, i), e)
			}
		}
	}
	walk("", top)

	cat, _ := catalog.(*Obj)
	if cat != nil {
		if uo := cat.Obj("userTypes"); uo != nil {
			for _, k := range uo.Keys {
				if !comps[strings.TrimPrefix(k, "@")] {
					errf("type-not-component", "user type %q is not in components.schemas", k)
				} else {
					rep.Counts["types_as_components"]++
				}
			}
		}
		if inter := cat.Obj("interactions"); inter != nil {
			for _, k := range inter.Keys {
				io := inter.Obj(k)
				if io == nil {
					continue
				}
				if p, _ := io.Str("protocol"); p != "http" {
					continue
				}
				path, _ := io.Str("path")
				m, _ := io.Str("httpMethod")
				pi := paths.Obj(path)
				if pi == nil || pi.Obj(strings.ToLower(m)) == nil {
					errf("interaction-missing", "interaction %q is not at paths[%q][%q]", k, path, strings.ToLower(m))
				} else {
					rep.Counts["interactions_present"]++
				}
			}
		}
	}
	methods := []string{"get", "put", "post", "patch", "delete", "options", "head", "trace"}
	for _, pk := range paths.Keys {
		pi := paths.Obj(pk)
		if pi == nil {
			errf("path-item", "paths[%q] is not an object", pk)
			continue
		}
		declared := func(params []interface{}) map[string]bool {
			m := map[string]bool{}
			for _, p := range params {
				po, _ := p.(*Obj)
				if po == nil {
					continue
				}
				in, _ := po.Str("in")
				name, _ := po.Str("name")
				req, _ := po.M["required"].(bool)
				if in == "path" {
					if !req {
						errf("path-param-not-required", "paths[%q]: path parameter %q is not required", pk, name)
					}
					m[name] = true
				}
			}
			return m
		}
		itemDecl := declared(pi.Arr("parameters"))
		tmpl, ambiguous := PathParams(pk)
		if ambiguous {
			rep.Counts["ambiguous_path_templates_skipped"]++
			tmpl = nil
		}
		nops := 0
		for _, me := range methods {
			op := pi.Obj(me)
			if op == nil {
				continue
			}
			nops++
			opDecl := declared(op.Arr("parameters"))
			for _, t := range tmpl {
				if !itemDecl[t] && !opDecl[t] {
					errf("path-param-undeclared", "paths[%q].%s: {%s} is not declared as a path parameter", pk, me, t)
				} else {
					rep.Counts["path_params_declared"]++
				}
			}
			rs := op.Obj("responses")
			if rs == nil {
				errf("responses-missing", "paths[%q].%s has no responses object", pk, me)
				continue
			}
			for _, rk := range rs.Keys {
				if rk != "default" && !reStatus.MatchString(rk) {
					errf("response-key", "paths[%q].%s.responses has key %q", pk, me, rk)
				} else {
					rep.Counts["response_keys"]++
				}
			}
			for _, rk := range rs.Dup {
				errf("response-key-dup", "paths[%q].%s.responses has key %q twice", pk, me, rk)
			}
		}
		for _, k := range pi.Keys {
			switch k {
			case "parameters", "summary", "description", "servers", "$ref":
			default:
				isM := false
				for _, me := range methods {
					if k == me {
						isM = true
					}
				}
				if !isM {
					errf("path-item-key", "paths[%q] has unexpected key %q", pk, k)
				}
			}
		}
	}
	SchemaPositions(top, func(w string, v interface{}) {
		CheckSchemaObject(w, v, func(rule, text string) { errf(rule, "%s", text) }, func(k string) { rep.Counts[k]++ })
	})
	return rep
}

func unescapeRef(s string) string {
	s = strings.ReplaceAll(s, "~1", "/")
	return strings.ReplaceAll(s, "~0", "~")
}

// ---- Schema Object structure (OpenAPI 3.0.3, section 4.7.24) ----

var oaSchemaKeys = map[string]string{
	"title": "string", "multipleOf": "number", "maximum": "number", "exclusiveMaximum": "bool", "minimum": "number", "exclusiveMinimum": "bool",
	"maxLength": "uint", "minLength": "uint", "pattern": "string", "maxItems": "uint", "minItems": "uint", "uniqueItems": "bool",
	"maxProperties": "uint", "minProperties": "uint", "required": "strings", "enum": "array", "type": "type", "allOf": "schemas", "oneOf": "schemas",
	"anyOf": "schemas", "not": "schema", "items": "schema", "properties": "schemamap", "additionalProperties": "boolOrSchema", "description": "string",
	"format": "string", "default": "any", "nullable": "bool", "discriminator": "any", "readOnly": "bool", "writeOnly": "bool", "xml": "any",
	"externalDocs": "any", "example": "any", "deprecated": "bool",
}

var oaTypes = map[string]bool{"array": true, "boolean": true, "integer": true, "number": true, "object": true, "string": true}

// CheckSchemaObject validates one Schema Object (or Reference Object) recursively; report gets "rule: text" lines.
func CheckSchemaObject(w string, v interface{}, report func(rule, text string), count func(string)) {
	o, ok := v.(*Obj)
	if !ok {
		report("schema-not-object", fmt.Sprintf("%s is %T, not an object", w, v))
		return
	}
	if _, isRef := o.M["$ref"]; isRef {
		if len(o.Keys) != 1 {
			report("schema-ref-with-siblings", fmt.Sprintf("%s: a Reference Object has other keys besides $ref: %v", w, o.Keys))
		}
		return
	}
	count("schema_objects")
	for _, k := range o.Dup {
		report("schema-duplicate-key", fmt.Sprintf("%s has key %q twice", w, k))
	}
	for _, k := range o.Keys {
		kind, known := oaSchemaKeys[k]
		val := o.M[k]
		if !known {
			if strings.HasPrefix(k, "x-") {
				continue
			}
			report("schema-unknown-key", fmt.Sprintf("%s has key %q, which is not a Schema Object field", w, k))
			continue
		}
		bad := func(want string) {
			report("schema-field-type:"+k, fmt.Sprintf("%s.%s must be %s, is %v", w, k, want, Compact(val)))
		}
		switch kind {
		case "string":
			if _, ok := val.(string); !ok {
				bad("a string")
			}
		case "bool":
			if _, ok := val.(bool); !ok {
				bad("a boolean")
			}
		case "number", "uint":
			n, ok := val.(json.Number)
			if !ok {
				bad("a number")
			} else if kind == "uint" && (strings.ContainsAny(string(n), ".eE-")) {
				bad("a non-negative integer")
			}
		case "strings":
			a, ok := val.([]interface{})
			if !ok || len(a) == 0 {
				bad("a non-empty array of strings")
				break
			}
			seen := map[string]bool{}
			for _, e := range a {
				s, ok := e.(string)
				if !ok {
					bad("an array of strings")
					break
				}
				if seen[s] {
					report("schema-required-duplicate", fmt.Sprintf("%s.required names %q twice", w, s))
				}
				seen[s] = true
			}
		case "array":
			if a, ok := val.([]interface{}); !ok || len(a) == 0 {
				bad("a non-empty array")
			}
		case "type":
			s, ok := val.(string)
			if !ok || !oaTypes[s] {
				bad("one of array, boolean, integer, number, object, string")
			}
			if s == "array" {
				if _, has := o.M["items"]; !has {
					report("schema-array-without-items", fmt.Sprintf("%s has type array but no items", w))
				}
			}
		case "schemas":
			a, ok := val.([]interface{})
			if !ok || len(a) == 0 {
				bad("a non-empty array of schemas")
				break
			}
			for i, e := range a {
				CheckSchemaObject(fmt.Sprintf("%s.%s[%d]", w, k, i), e, report, count)
			}
		case "schema":
			CheckSchemaObject(w+"."+k, val, report, count)
		case "schemamap":
			po, ok := val.(*Obj)
			if !ok {
				bad("an object")
				break
			}
			for _, pk := range po.Keys {
				CheckSchemaObject(w+".properties."+pk, po.M[pk], report, count)
			}
			for _, pk := range po.Dup {
				report("schema-duplicate-property", fmt.Sprintf("%s.properties has %q twice", w, pk))
			}
		case "boolOrSchema":
			if _, ok := val.(bool); !ok {
				CheckSchemaObject(w+"."+k, val, report, count)
			}
		}
	}
	// required names should be properties when properties are listed and no composition/additional properties can supply them
	if req, ok := o.M["required"].([]interface{}); ok {
		if po, ok := o.M["properties"].(*Obj); ok {
			_, hasAllOf := o.M["allOf"]
			for _, e := range req {
				if s, ok := e.(string); ok && !hasAllOf {
					if _, ok := po.M[s]; !ok {
						count("required_without_property")
					}
				}
			}
		}
	}
}

// SchemaPositions calls f for every position of the document where a Schema Object stands.
func SchemaPositions(top *Obj, f func(w string, v interface{})) {
	if c := top.Obj("components"); c != nil {
		if s := c.Obj("schemas"); s != nil {
			for _, k := range s.Keys {
				f("components.schemas."+k, s.M[k])
			}
		}
	}
	content := func(w string, holder *Obj) {
		if holder == nil {
			return
		}
		if ct := holder.Obj("content"); ct != nil {
			for _, mt := range ct.Keys {
				if mo := ct.Obj(mt); mo != nil {
					if sv, ok := mo.M["schema"]; ok {
						f(w+".content["+mt+"].schema", sv)
					}
				}
			}
		}
	}
	params := func(w string, arr []interface{}) {
		for i, p := range arr {
			if po, ok := p.(*Obj); ok {
				if sv, ok := po.M["schema"]; ok {
					f(fmt.Sprintf("%s.parameters[%d].schema", w, i), sv)
				}
				content(fmt.Sprintf("%s.parameters[%d]", w, i), po)
			}
		}
	}
	paths := top.Obj("paths")
	if paths == nil {
		return
	}
	for _, pk := range paths.Keys {
		pi := paths.Obj(pk)
		if pi == nil {
			continue
		}
		params("paths["+pk+"]", pi.Arr("parameters"))
		for _, me := range []string{"get", "put", "post", "patch", "delete", "options", "head", "trace"} {
			op := pi.Obj(me)
			if op == nil {
				continue
			}
			w := "paths[" + pk + "]." + me
			params(w, op.Arr("parameters"))
			content(w+".requestBody", op.Obj("requestBody"))
			if rs := op.Obj("responses"); rs != nil {
				for _, rk := range rs.Keys {
					ro := rs.Obj(rk)
					content(w+".responses."+rk, ro)
					if ro != nil {
						if hs := ro.Obj("headers"); hs != nil {
							for _, hk := range hs.Keys {
								if ho := hs.Obj(hk); ho != nil {
									if sv, ok := ho.M["schema"]; ok {
										f(w+".responses."+rk+".headers."+hk+".schema", sv)
									}
								}
							}
						}
					}
				}
			}
		}
	}
}
