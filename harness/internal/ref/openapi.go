package ref

import (
	"fmt"
	"regexp"
	"strings"
)

// Structural validator for the OpenAPI 3.0.3 subset named by the property.

type OAReport struct {
	Errors []string
	Counts map[string]int
}

var reStatus = regexp.MustCompile(`^[1-5][0-9][0-9]$|^[1-5]XX$`)

// ValidateOpenAPI checks the export against the catalog it was made from.
func ValidateOpenAPI(oa interface{}, catalog interface{}) OAReport {
	rep := OAReport{Counts: map[string]int{}}
	errf := func(rule, f string, a ...interface{}) {
		if len(rep.Errors) < 20 {
			rep.Errors = append(rep.Errors, rule+": "+fmt.Sprintf(f, a...))
		}
	}
	top, ok := oa.(*Obj)
	if !ok {
		errf("top", "not an object")
		return rep
	}
	if v, ok := top.Str("openapi"); !ok || !strings.HasPrefix(v, "3.") {
		errf("openapi-field", "openapi = %q", v)
	}
	info := top.Obj("info")
	if info == nil {
		errf("info-field", "info missing")
	} else {
		if _, ok := info.Str("title"); !ok {
			errf("info-field", "info.title missing")
		}
		if _, ok := info.Str("version"); !ok {
			errf("info-field", "info.version missing")
		}
	}
	paths := top.Obj("paths")
	if paths == nil {
		errf("paths-field", "paths missing")
		return rep
	}
	comps := map[string]bool{}
	if c := top.Obj("components"); c != nil {
		if s := c.Obj("schemas"); s != nil {
			for _, k := range s.Keys {
				comps[k] = true
			}
		}
	}
	// every $ref resolves
	var walk func(w string, v interface{})
	walk = func(w string, v interface{}) {
		switch x := v.(type) {
		case *Obj:
			for _, k := range x.Keys {
				if k == "$ref" {
					s, ok := x.M[k].(string)
					if !ok {
						errf("ref-type", "%s.$ref is not a string", w)
						continue
					}
					const pfx = "#/components/schemas/"
					if !strings.HasPrefix(s, pfx) || !comps[unescapeRef(strings.TrimPrefix(s, pfx))] {
						errf("ref-unresolved", "%s.$ref = %q does not resolve", w, s)
					} else {
						rep.Counts["refs_resolved"]++
					}
					continue
				}
				walk(w+"."+k, x.M[k])
			}
		case []interface{}:
			for i, e := range x {
				walk(fmt.Sprintf("%s[%d]", w, i), e)
			}
		}
	}
	walk("", top)

	cat, _ := catalog.(*Obj)
	if cat != nil {
		if uo := cat.Obj("userTypes"); uo != nil {
			for _, k := range uo.Keys {
				if !comps[strings.TrimPrefix(k, "@")] {
					errf("type-not-component", "user type %q is not in components.schemas", k)
				} else {
					rep.Counts["types_as_components"]++
				}
			}
		}
		if inter := cat.Obj("interactions"); inter != nil {
			for _, k := range inter.Keys {
				io := inter.Obj(k)
				if io == nil {
					continue
				}
				if p, _ := io.Str("protocol"); p != "http" {
					continue
				}
				path, _ := io.Str("path")
				m, _ := io.Str("httpMethod")
				pi := paths.Obj(path)
				if pi == nil || pi.Obj(strings.ToLower(m)) == nil {
					errf("interaction-missing", "interaction %q is not at paths[%q][%q]", k, path, strings.ToLower(m))
				} else {
					rep.Counts["interactions_present"]++
				}
			}
		}
	}
	methods := []string{"get", "put", "post", "patch", "delete", "options", "head", "trace"}
	for _, pk := range paths.Keys {
		pi := paths.Obj(pk)
		if pi == nil {
			errf("path-item", "paths[%q] is not an object", pk)
			continue
		}
		declared := func(params []interface{}) map[string]bool {
			m := map[string]bool{}
			for _, p := range params {
				po, _ := p.(*Obj)
				if po == nil {
					continue
				}
				in, _ := po.Str("in")
				name, _ := po.Str("name")
				req, _ := po.M["required"].(bool)
				if in == "path" {
					if !req {
						errf("path-param-not-required", "paths[%q]: path parameter %q is not required", pk, name)
					}
					m[name] = true
				}
			}
			return m
		}
		itemDecl := declared(pi.Arr("parameters"))
		tmpl, ambiguous := PathParams(pk)
		if ambiguous {
			rep.Counts["ambiguous_path_templates_skipped"]++
			tmpl = nil
		}
		nops := 0
		for _, me := range methods {
			op := pi.Obj(me)
			if op == nil {
				continue
			}
			nops++
			opDecl := declared(op.Arr("parameters"))
			for _, t := range tmpl {
				if !itemDecl[t] && !opDecl[t] {
					errf("path-param-undeclared", "paths[%q].%s: {%s} is not declared as a path parameter", pk, me, t)
				} else {
					rep.Counts["path_params_declared"]++
				}
			}
			rs := op.Obj("responses")
			if rs == nil {
				errf("responses-missing", "paths[%q].%s has no responses object", pk, me)
				continue
			}
			for _, rk := range rs.Keys {
				if rk != "default" && !reStatus.MatchString(rk) {
					errf("response-key", "paths[%q].%s.responses has key %q", pk, me, rk)
				} else {
					rep.Counts["response_keys"]++
				}
			}
			for _, rk := range rs.Dup {
				errf("response-key-dup", "paths[%q].%s.responses has key %q twice", pk, me, rk)
			}
		}
		for _, k := range pi.Keys {
			switch k {
			case "parameters", "summary", "description", "servers", "$ref":
			default:
				isM := false
				for _, me := range methods {
					if k == me {
						isM = true
					}
				}
				if !isM {
					errf("path-item-key", "paths[%q] has unexpected key %q", pk, k)
				}
			}
		}
	}
	return rep
}

func unescapeRef(s string) string {
	s = strings.ReplaceAll(s, "~1", "/")
	return strings.ReplaceAll(s, "~0", "~")
}
