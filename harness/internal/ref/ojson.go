package ref

import (
	"bytes"
	"encoding/json"
	"fmt"
	"io"
	"unicode/utf8"
)

// Obj is a JSON object that remembers the order of its keys.
type Obj struct {
	Keys []string
	M    map[string]interface{}
	Dup  []string // keys that occurred more than once
}

func (o *Obj) Get(k string) (interface{}, bool) { v, ok := o.M[k]; return v, ok }
func (o *Obj) Str(k string) (string, bool) {
	v, ok := o.M[k].(string)
	return v, ok
}
func (o *Obj) Obj(k string) *Obj {
	v, _ := o.M[k].(*Obj)
	return v
}
func (o *Obj) Arr(k string) []interface{} {
	v, _ := o.M[k].([]interface{})
	return v
}
func (o *Obj) Has(k string) bool { _, ok := o.M[k]; return ok }

// ParseJSON parses one JSON document preserving object key order. Values: *Obj, []interface{}, string, json.Number, bool, nil.
func ParseJSON(b []byte) (interface{}, error) {
	if !utf8.Valid(b) {
		return nil, fmt.Errorf("output is not valid UTF-8")
	}
	d := json.NewDecoder(bytes.NewReader(b))
	d.UseNumber()
	v, err := parseValue(d)
	if err != nil {
		return nil, err
	}
	if _, err := d.Token(); err != io.EOF {
		return nil, fmt.Errorf("trailing data after JSON document")
	}
	return v, nil
}

func parseValue(d *json.Decoder) (interface{}, error) {
	t, err := d.Token()
	if err != nil {
		return nil, err
	}
	switch x := t.(type) {
	case json.Delim:
		switch x {
		case '{':
			o := &Obj{M: map[string]interface{}{}}
			for d.More() {
				kt, err := d.Token()
				if err != nil {
					return nil, err
				}
				k, ok := kt.(string)
				if !ok {
					return nil, fmt.Errorf("object key is not a string")
				}
				v, err := parseValue(d)
				if err != nil {
					return nil, err
				}
				if _, dup := o.M[k]; dup {
					o.Dup = append(o.Dup, k)
				} else {
					o.Keys = append(o.Keys, k)
				}
				o.M[k] = v
			}
			if _, err := d.Token(); err != nil {
				return nil, err
			}
			return o, nil
		case '[':
			arr := []interface{}{}
			for d.More() {
				v, err := parseValue(d)
				if err != nil {
					return nil, err
				}
				arr = append(arr, v)
			}
			if _, err := d.Token(); err != nil {
				return nil, err
			}
			return arr, nil
		}
		return nil, fmt.Errorf("unexpected delimiter %v", x)
	default:
		return t, nil
	}
}

// Compact re-serialises a parsed value canonically (key order preserved).
func Compact(v interface{}) string {
	var buf bytes.Buffer
	writeCompact(&buf, v)
	return buf.String()
}

func writeCompact(buf *bytes.Buffer, v interface{}) {
	switch x := v.(type) {
	case *Obj:
		buf.WriteByte('{')
		for i, k := range x.Keys {
			if i > 0 {
				buf.WriteByte(',')
			}
			kb, _ := json.Marshal(k)
			buf.Write(kb)
			buf.WriteByte(':')
			writeCompact(buf, x.M[k])
		}
		buf.WriteByte('}')
	case []interface{}:
		buf.WriteByte('[')
		for i, e := range x {
			if i > 0 {
				buf.WriteByte(',')
			}
			writeCompact(buf, e)
		}
		buf.WriteByte(']')
	default:
		b, _ := json.Marshal(x)
		buf.Write(b)
	}
}

// MaskExamples returns the canonical form of a JSON document with every string value of a key "example" blanked.
// ok is false if the input is not JSON.
func MaskExamples(b []byte) (string, bool) {
	v, err := ParseJSON(b)
	if err != nil {
		return "", false
	}
	var mask func(x interface{})
	mask = func(x interface{}) {
		switch t := x.(type) {
		case *Obj:
			for _, k := range t.Keys {
				if _, isStr := t.M[k].(string); isStr && k == "example" {
					t.M[k] = ""
					continue
				}
				mask(t.M[k])
			}
		case []interface{}:
			for _, e := range t {
				mask(e)
			}
		}
	}
	mask(v)
	return Compact(v), true
}

// OnlyExamplesDiffer: two JSON documents differ, but only inside "example" strings.
func OnlyExamplesDiffer(a, b []byte) bool {
	ma, ok1 := MaskExamples(a)
	mb, ok2 := MaskExamples(b)
	return ok1 && ok2 && ma == mb
}
