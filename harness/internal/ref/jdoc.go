package ref

import (
	"fmt"
	"sort"
	"strconv"
	"strings"
)

// Shape validator for JDoc Exchange 2.0.0, written from the format's layout.

type shapeV struct {
	errs          []string
	nodes         int
	kinds         map[string]int
	examples      int
	docEscapedKey bool // some schema of the catalog has a property key that needs escaping in a JSON text
	badExamples   map[string]int
}

func (s *shapeV) errf(rule, format string, a ...interface{}) {
	if len(s.errs) < 20 {
		s.errs = append(s.errs, rule+": "+fmt.Sprintf(format, a...))
	}
}

type ShapeReport struct {
	Errors      []string // "<rule>: detail"
	Nodes       int
	NodeKinds   map[string]int
	Examples    int            // jsight examples parsed as JSON
	BadExamples map[string]int // jsight examples that are not a JSON text, by class (observation, not a verdict)
}

var topKeys = map[string]bool{"tags": true, "info": true, "servers": true, "userTypes": true, "userEnums": true,
	"interactions": true, "jsight": true, "jdocExchangeVersion": true}

func onlyKeys(s *shapeV, where string, o *Obj, allowed ...string) {
	al := map[string]bool{}
	for _, a := range allowed {
		al[a] = true
	}
	for _, k := range o.Keys {
		if !al[k] {
			s.errf("unknown-key", "%s has unexpected key %q", where, k)
		}
	}
	for _, k := range o.Dup {
		s.errf("duplicate-key", "%s has key %q more than once", where, k)
	}
}

func reqStr(s *shapeV, where string, o *Obj, k string) string {
	v, ok := o.M[k]
	if !ok {
		s.errf("missing-field", "%s lacks %q", where, k)
		return ""
	}
	str, ok := v.(string)
	if !ok {
		s.errf("wrong-type", "%s.%s is not a string", where, k)
	}
	return str
}

func optStr(s *shapeV, where string, o *Obj, k string) {
	if v, ok := o.M[k]; ok {
		if _, ok := v.(string); !ok {
			s.errf("wrong-type", "%s.%s is not a string", where, k)
		}
	}
}

func ValidateShape(root interface{}) ShapeReport {
	s := &shapeV{kinds: map[string]int{}}
	top, ok := root.(*Obj)
	if !ok {
		s.errf("top", "document is not an object")
		return ShapeReport{Errors: s.errs}
	}
	s.docEscapedKey = anyEscapedKey(top)
	for _, k := range top.Keys {
		if !topKeys[k] {
			s.errf("unknown-key", "top level has unexpected key %q", k)
		}
	}
	for _, k := range top.Dup {
		s.errf("duplicate-key", "top level has key %q more than once", k)
	}
	if v, _ := top.Str("jdocExchangeVersion"); v != "2.0.0" {
		s.errf("top", "jdocExchangeVersion = %q", v)
	}
	if _, ok := top.Str("jsight"); !ok {
		s.errf("missing-field", "top level lacks string \"jsight\"")
	}
	tags := top.Obj("tags")
	if tags == nil {
		s.errf("missing-field", "top level lacks object \"tags\"")
	} else {
		s.tags("tags", tags)
	}
	inter := top.Obj("interactions")
	if inter == nil {
		s.errf("missing-field", "top level lacks object \"interactions\"")
	} else {
		for _, k := range inter.Dup {
			s.errf("duplicate-key", "interactions has key %q more than once", k)
		}
		for _, k := range inter.Keys {
			io, ok := inter.M[k].(*Obj)
			if !ok {
				s.errf("wrong-type", "interaction %q is not an object", k)
				continue
			}
			s.interaction("interactions["+k+"]", io)
		}
	}
	if top.Has("info") {
		if io := top.Obj("info"); io == nil {
			if top.M["info"] != nil {
				s.errf("wrong-type", "info is not an object")
			}
		} else {
			onlyKeys(s, "info", io, "title", "version", "description")
			optStr(s, "info", io, "title")
			optStr(s, "info", io, "version")
			optStr(s, "info", io, "description")
		}
	}
	if top.Has("servers") {
		so := top.Obj("servers")
		if so == nil {
			s.errf("wrong-type", "servers is not an object")
		} else {
			for _, k := range so.Dup {
				s.errf("duplicate-key", "servers has key %q more than once", k)
			}
			for _, k := range so.Keys {
				sv, ok := so.M[k].(*Obj)
				if !ok {
					s.errf("wrong-type", "server %q is not an object", k)
					continue
				}
				w := "servers[" + k + "]"
				onlyKeys(s, w, sv, "baseUrl", "annotation", "baseUrlVariables")
				reqStr(s, w, sv, "baseUrl")
				optStr(s, w, sv, "annotation")
				if sv.Has("baseUrlVariables") {
					s.schemaHolder(w+".baseUrlVariables", sv.M["baseUrlVariables"], "jsight")
				}
			}
		}
	}
	if top.Has("userTypes") {
		uo := top.Obj("userTypes")
		if uo == nil {
			s.errf("wrong-type", "userTypes is not an object")
		} else {
			for _, k := range uo.Dup {
				s.errf("duplicate-key", "userTypes has key %q more than once", k)
			}
			for _, k := range uo.Keys {
				ut, ok := uo.M[k].(*Obj)
				if !ok {
					s.errf("wrong-type", "userType %q is not an object", k)
					continue
				}
				w := "userTypes[" + k + "]"
				onlyKeys(s, w, ut, "annotation", "description", "schema")
				optStr(s, w, ut, "annotation")
				optStr(s, w, ut, "description")
				if !ut.Has("schema") {
					s.errf("missing-field", "%s lacks schema", w)
				} else {
					s.schema(w+".schema", ut.M["schema"], "")
				}
			}
		}
	}
	if top.Has("userEnums") {
		uo := top.Obj("userEnums")
		if uo == nil {
			s.errf("wrong-type", "userEnums is not an object")
		} else {
			for _, k := range uo.Dup {
				s.errf("duplicate-key", "userEnums has key %q more than once", k)
			}
			for _, k := range uo.Keys {
				ue, ok := uo.M[k].(*Obj)
				if !ok {
					s.errf("wrong-type", "userEnum %q is not an object", k)
					continue
				}
				w := "userEnums[" + k + "]"
				onlyKeys(s, w, ue, "annotation", "description", "value")
				reqStr(s, w, ue, "annotation")
				reqStr(s, w, ue, "description")
				if !ue.Has("value") {
					s.errf("missing-field", "%s lacks value", w)
				} else {
					s.rule(w+".value", ue.M["value"])
				}
			}
		}
	}
	return ShapeReport{Errors: s.errs, Nodes: s.nodes, NodeKinds: s.kinds, Examples: s.examples, BadExamples: s.badExamples}
}

func (s *shapeV) tags(where string, tags *Obj) {
	for _, k := range tags.Dup {
		s.errf("duplicate-key", "%s has key %q more than once", where, k)
	}
	for _, k := range tags.Keys {
		t, ok := tags.M[k].(*Obj)
		w := where + "[" + k + "]"
		if !ok {
			s.errf("wrong-type", "%s is not an object", w)
			continue
		}
		onlyKeys(s, w, t, "children", "name", "title", "description", "interactionGroups")
		if n := reqStr(s, w, t, "name"); n != k {
			s.errf("tag-name", "%s has name %q", w, n)
		}
		reqStr(s, w, t, "title")
		optStr(s, w, t, "description")
		gs, ok := t.M["interactionGroups"].([]interface{})
		if !ok {
			s.errf("missing-field", "%s lacks array interactionGroups", w)
		}
		seen := map[string]bool{}
		for i, g := range gs {
			gobj, ok := g.(*Obj)
			gw := fmt.Sprintf("%s.interactionGroups[%d]", w, i)
			if !ok {
				s.errf("wrong-type", "%s is not an object", gw)
				continue
			}
			onlyKeys(s, gw, gobj, "protocol", "interactions")
			p := reqStr(s, gw, gobj, "protocol")
			if p != "http" && p != "json-rpc-2.0" {
				s.errf("enum", "%s.protocol = %q", gw, p)
			}
			if seen[p] {
				s.errf("tag-group", "%s: protocol %q listed twice", w, p)
			}
			seen[p] = true
			il, ok := gobj.M["interactions"].([]interface{})
			if !ok {
				s.errf("missing-field", "%s lacks array interactions", gw)
			}
			for _, x := range il {
				if _, ok := x.(string); !ok {
					s.errf("wrong-type", "%s.interactions has a non-string", gw)
				}
			}
		}
		if t.Has("children") {
			if c := t.Obj("children"); c == nil {
				s.errf("wrong-type", "%s.children is not an object", w)
			} else {
				s.tags(w+".children", c)
			}
		}
	}
}

var httpMethods = map[string]bool{"GET": true, "POST": true, "PUT": true, "PATCH": true, "DELETE": true}

func (s *shapeV) strArr(w string, o *Obj, k string, required bool) {
	v, ok := o.M[k]
	if !ok {
		if required {
			s.errf("missing-field", "%s lacks %q", w, k)
		}
		return
	}
	arr, ok := v.([]interface{})
	if !ok {
		s.errf("wrong-type", "%s.%s is not an array", w, k)
		return
	}
	for _, x := range arr {
		if _, ok := x.(string); !ok {
			s.errf("wrong-type", "%s.%s has a non-string element", w, k)
		}
	}
}

func (s *shapeV) interaction(w string, io *Obj) {
	reqStr(s, w, io, "id")
	p := reqStr(s, w, io, "protocol")
	reqStr(s, w, io, "path")
	s.strArr(w, io, "tags", true)
	optStr(s, w, io, "annotation")
	optStr(s, w, io, "description")
	switch p {
	case "http":
		onlyKeys(s, w, io, "id", "protocol", "httpMethod", "path", "pathVariables", "tags", "annotation", "description", "query", "request", "responses")
		if m := reqStr(s, w, io, "httpMethod"); !httpMethods[m] {
			s.errf("enum", "%s.httpMethod = %q", w, m)
		}
		if io.Has("pathVariables") {
			s.schemaHolder(w+".pathVariables", io.M["pathVariables"], "jsight")
		}
		if io.Has("query") {
			q, ok := io.M["query"].(*Obj)
			if !ok {
				s.errf("wrong-type", "%s.query is not an object", w)
			} else {
				onlyKeys(s, w+".query", q, "example", "format", "schema")
				f := reqStr(s, w+".query", q, "format")
				if f != "htmlFormEncoded" && f != "noFormat" {
					s.errf("enum", "%s.query.format = %q", w, f)
				}
				optStr(s, w+".query", q, "example")
				if !q.Has("schema") {
					s.errf("missing-field", "%s.query lacks schema", w)
				} else {
					s.schema(w+".query.schema", q.M["schema"], "jsight")
				}
			}
		}
		if io.Has("request") {
			r, ok := io.M["request"].(*Obj)
			if !ok {
				s.errf("wrong-type", "%s.request is not an object", w)
			} else {
				onlyKeys(s, w+".request", r, "headers", "body")
				if r.Has("headers") {
					s.schemaHolder(w+".request.headers", r.M["headers"], "jsight")
				}
				if r.Has("body") {
					s.body(w+".request.body", r.M["body"])
				}
			}
		}
		if io.Has("responses") {
			rs, ok := io.M["responses"].([]interface{})
			if !ok {
				s.errf("wrong-type", "%s.responses is not an array", w)
			}
			for i, x := range rs {
				rw := fmt.Sprintf("%s.responses[%d]", w, i)
				r, ok := x.(*Obj)
				if !ok {
					s.errf("wrong-type", "%s is not an object", rw)
					continue
				}
				onlyKeys(s, rw, r, "code", "annotation", "headers", "body")
				reqStr(s, rw, r, "code")
				optStr(s, rw, r, "annotation")
				if r.Has("headers") {
					s.schemaHolder(rw+".headers", r.M["headers"], "jsight")
				}
				if !r.Has("body") {
					s.errf("missing-field", "%s lacks body", rw)
				} else if r.M["body"] == nil {
					s.errf("missing-field", "%s.body is null: the required field carries no value", rw)
				} else {
					s.body(rw+".body", r.M["body"])
				}
			}
		}
	case "json-rpc-2.0":
		onlyKeys(s, w, io, "id", "protocol", "path", "method", "tags", "annotation", "description", "params", "result")
		reqStr(s, w, io, "method")
		if io.Has("params") {
			s.schemaHolder(w+".params", io.M["params"], "")
		}
		if io.Has("result") {
			s.schemaHolder(w+".result", io.M["result"], "")
		}
	default:
		s.errf("enum", "%s.protocol = %q", w, p)
	}
}

func (s *shapeV) body(w string, v interface{}) {
	b, ok := v.(*Obj)
	if !ok {
		s.errf("wrong-type", "%s is not an object", w)
		return
	}
	onlyKeys(s, w, b, "format", "schema")
	f := reqStr(s, w, b, "format")
	if !b.Has("schema") {
		s.errf("missing-field", "%s lacks schema", w)
		return
	}
	n := s.schema(w+".schema", b.M["schema"], "")
	want := map[string]string{"jsight": "json", "regex": "plainString", "any": "binary", "empty": "binary"}[n]
	if n != "" && f != want {
		s.errf("format-notation", "%s: format %q with notation %q", w, f, n)
	}
}

func (s *shapeV) schemaHolder(w string, v interface{}, notation string) {
	h, ok := v.(*Obj)
	if !ok {
		s.errf("wrong-type", "%s is not an object", w)
		return
	}
	onlyKeys(s, w, h, "schema")
	if !h.Has("schema") {
		s.errf("missing-field", "%s lacks schema", w)
		return
	}
	s.schema(w+".schema", h.M["schema"], notation)
}

// schema validates an exchange schema and returns its notation.
func (s *shapeV) schema(w string, v interface{}, wantNotation string) string {
	o, ok := v.(*Obj)
	if !ok {
		s.errf("schema-null", "%s is not an object (%v)", w, v)
		return ""
	}
	onlyKeys(s, w, o, "content", "example", "notation", "usedUserTypes", "usedUserEnums")
	n := reqStr(s, w, o, "notation")
	if wantNotation != "" && n != wantNotation {
		s.errf("notation", "%s: notation %q where %q is required", w, n, wantNotation)
	}
	switch n {
	case "jsight":
		c, ok := o.M["content"]
		if !ok || c == nil {
			s.errf("content-missing", "%s: jsight schema without content", w)
		} else {
			s.content(w+".content", c, false)
		}
		optStr(s, w, o, "example")
		// the example of a jsight schema is a JSON text
		if ex, ok := o.M["example"].(string); ok && ex != "" {
			if _, err := ParseJSON([]byte(ex)); err != nil {
				// Not a rule of the shape the property names (that one speaks of the fields and of the typing of schema nodes): counted.
				class := "other"
				switch {
				case hasEscapedKey(c) || s.docEscapedKey:
					class = "key-that-needs-escaping"
				case strings.HasPrefix(ex, "@") && strings.Contains(ex, "|"):
					class = "union-text-instead-of-a-value"
				case strings.Contains(ex, ",}") || strings.Contains(ex, ",]"):
					class = "comma-before-closing-bracket-after-recursion-cut"
				}
				if s.badExamples == nil {
					s.badExamples = map[string]int{}
				}
				s.badExamples[class]++
				_ = err
			} else {
				s.examples++
			}
		}
		s.strArr(w, o, "usedUserTypes", false)
		s.strArr(w, o, "usedUserEnums", false)
	case "regex":
		if c, ok := o.M["content"]; ok {
			if _, ok := c.(string); !ok {
				s.errf("wrong-type", "%s: regex content is not a string", w)
			}
		}
		optStr(s, w, o, "example")
		if o.Has("usedUserTypes") || o.Has("usedUserEnums") {
			s.errf("unknown-key", "%s: regex schema with usedUserTypes/usedUserEnums", w)
		}
	case "any", "empty":
		if len(o.Keys) != 1 {
			s.errf("unknown-key", "%s: %s schema with extra keys %v", w, n, o.Keys)
		}
	default:
		s.errf("enum", "%s.notation = %q", w, n)
	}
	return n
}

var contentTokenTypes = map[string]bool{"object": true, "array": true, "string": true, "number": true, "boolean": true,
	"null": true, "reference": true, "annotation": true}

func (s *shapeV) content(w string, v interface{}, inObject bool) {
	o, ok := v.(*Obj)
	if !ok {
		s.errf("wrong-type", "%s is not an object", w)
		return
	}
	s.nodes++
	onlyKeys(s, w, o, "rules", "key", "tokenType", "type", "scalarValue", "inheritedFrom", "note", "children", "isKeyUserTypeRef", "optional")
	tt := reqStr(s, w, o, "tokenType")
	s.kinds[tt]++
	if !contentTokenTypes[tt] {
		s.errf("enum", "%s.tokenType = %q", w, tt)
	}
	reqStr(s, w, o, "type")
	if b, ok := o.M["optional"].(bool); !ok {
		s.errf("missing-field", "%s lacks boolean optional", w)
		_ = b
	}
	if inObject {
		reqStr(s, w, o, "key")
	} else if o.Has("key") {
		s.errf("unknown-key", "%s: key on a node that is not an object property", w)
	}
	optStr(s, w, o, "inheritedFrom")
	optStr(s, w, o, "note")
	if o.Has("rules") {
		rs, ok := o.M["rules"].([]interface{})
		if !ok {
			s.errf("wrong-type", "%s.rules is not an array", w)
		}
		for i, r := range rs {
			s.rule(fmt.Sprintf("%s.rules[%d]", w, i), r)
		}
	}
	switch tt {
	case "object", "array":
		ch, ok := o.M["children"].([]interface{})
		if !ok {
			s.errf("node-typing", "%s: %s node without children array", w, tt)
		}
		if o.Has("scalarValue") {
			s.errf("node-typing", "%s: %s node with scalarValue", w, tt)
		}
		for i, c := range ch {
			s.content(fmt.Sprintf("%s.children[%d]", w, i), c, tt == "object")
		}
	default:
		if _, ok := o.M["scalarValue"].(string); !ok {
			s.errf("node-typing", "%s: %s node without string scalarValue", w, tt)
		}
		if o.Has("children") {
			s.errf("node-typing", "%s: %s node with children", w, tt)
		}
	}
}

var ruleTokenTypes = map[string]bool{"object": true, "array": true, "string": true, "number": true, "boolean": true,
	"null": true, "annotation": true, "reference": true}

func (s *shapeV) rule(w string, v interface{}) {
	o, ok := v.(*Obj)
	if !ok {
		s.errf("wrong-type", "%s is not an object", w)
		return
	}
	onlyKeys(s, w, o, "key", "tokenType", "note", "scalarValue", "children")
	tt := reqStr(s, w, o, "tokenType")
	if !ruleTokenTypes[tt] {
		s.errf("enum", "%s.tokenType = %q", w, tt)
	}
	optStr(s, w, o, "key")
	optStr(s, w, o, "note")
	switch tt {
	case "object", "array":
		if o.Has("scalarValue") {
			s.errf("node-typing", "%s: %s rule with scalarValue", w, tt)
		}
		if !o.Has("children") {
			s.errf("node-typing", "%s: %s rule without children", w, tt)
		} else {
			ch, ok := o.M["children"].([]interface{})
			if !ok {
				s.errf("wrong-type", "%s.children is not an array", w)
			}
			for i, c := range ch {
				s.rule(fmt.Sprintf("%s.children[%d]", w, i), c)
			}
		}
	default:
		if _, ok := o.M["scalarValue"].(string); !ok {
			s.errf("node-typing", "%s: %s rule without string scalarValue", w, tt)
		}
		if o.Has("children") {
			s.errf("node-typing", "%s: %s rule with children", w, tt)
		}
	}
}

// ---- cross references (C05) ----

type XRefReport struct {
	Errors   []string
	Resolved map[string]int
}

// PathParams extracts the {parameters} of a path: the segments that are wholly "{name}". A path in which braces
// occur elsewhere (inside a name, in the middle of a segment) has no agreed reading; ambiguous is then true and the
// caller does not judge it.
func PathParams(path string) (params []string, ambiguous bool) {
	for _, seg := range strings.Split(path, "/") {
		if len(seg) >= 2 && seg[0] == '{' && seg[len(seg)-1] == '}' {
			inner := seg[1 : len(seg)-1]
			if strings.ContainsAny(inner, "{}") {
				ambiguous = true
			}
			params = append(params, inner)
		} else if strings.ContainsAny(seg, "{}") {
			ambiguous = true
		}
	}
	return params, ambiguous
}

func CrossRef(root interface{}) XRefReport {
	rep := XRefReport{Resolved: map[string]int{}}
	errf := func(rule, f string, a ...interface{}) {
		if len(rep.Errors) < 20 {
			rep.Errors = append(rep.Errors, rule+": "+fmt.Sprintf(f, a...))
		}
	}
	top, ok := root.(*Obj)
	if !ok {
		errf("top", "not an object")
		return rep
	}
	if v, _ := top.Str("jsight"); v != "0.3" {
		errf("jsight-version", "jsight = %q", v)
	}
	userTypes := map[string]bool{}
	if uo := top.Obj("userTypes"); uo != nil {
		for _, k := range uo.Keys {
			userTypes[k] = true
		}
	}
	userEnums := map[string]bool{}
	if uo := top.Obj("userEnums"); uo != nil {
		for _, k := range uo.Keys {
			userEnums[k] = true
		}
	}
	// flatten tags
	type tagInfo struct{ groups map[string][]string }
	tags := map[string]*tagInfo{}
	var walkTags func(o *Obj)
	walkTags = func(o *Obj) {
		if o == nil {
			return
		}
		for _, k := range o.Keys {
			t, _ := o.M[k].(*Obj)
			if t == nil {
				continue
			}
			if _, dup := tags[k]; dup {
				errf("tag-unique", "tag %q defined twice", k)
			}
			ti := &tagInfo{groups: map[string][]string{}}
			for _, g := range t.Arr("interactionGroups") {
				if gobj, ok := g.(*Obj); ok {
					p, _ := gobj.Str("protocol")
					for _, x := range gobj.Arr("interactions") {
						if s, ok := x.(string); ok {
							ti.groups[p] = append(ti.groups[p], s)
						}
					}
				}
			}
			tags[k] = ti
			walkTags(t.Obj("children"))
		}
	}
	walkTags(top.Obj("tags"))

	var checkSchema func(w string, v interface{})
	checkSchema = func(w string, v interface{}) {
		switch x := v.(type) {
		case *Obj:
			if n, ok := x.Str("notation"); ok && x.Has("notation") && (n == "jsight" || n == "regex") {
				for _, u := range x.Arr("usedUserTypes") {
					if s, ok := u.(string); ok {
						if !userTypes[s] {
							errf("used-type-undefined", "%s names undefined user type %q", w, s)
						} else {
							rep.Resolved["usedUserTypes"]++
						}
					}
				}
				for _, u := range x.Arr("usedUserEnums") {
					if s, ok := u.(string); ok {
						if !userEnums[s] {
							errf("used-enum-undefined", "%s names undefined user enum %q", w, s)
						} else {
							rep.Resolved["usedUserEnums"]++
						}
					}
				}
				return
			}
			for _, k := range x.Keys {
				checkSchema(w+"."+k, x.M[k])
			}
		case []interface{}:
			for i, e := range x {
				checkSchema(fmt.Sprintf("%s[%d]", w, i), e)
			}
		}
	}
	checkSchema("userTypes", top.M["userTypes"])
	checkSchema("servers", top.M["servers"])

	inter := top.Obj("interactions")
	ids := map[string]string{} // id -> protocol
	if inter != nil {
		for _, k := range inter.Keys {
			io, _ := inter.M[k].(*Obj)
			if io == nil {
				continue
			}
			w := "interactions[" + k + "]"
			id, _ := io.Str("id")
			proto, _ := io.Str("protocol")
			path, _ := io.Str("path")
			var meth string
			if proto == "http" {
				meth, _ = io.Str("httpMethod")
			} else {
				meth, _ = io.Str("method")
			}
			if id != k {
				errf("key-id", "%s has id %q", w, id)
			}
			if want := proto + " " + meth + " " + path; id != want {
				errf("id-fields", "%s: id %q but fields give %q", w, id, want)
			}
			ids[k] = proto
			rep.Resolved["interactions"]++
			// tags named by the interaction
			seenT := map[string]bool{}
			for _, t := range io.Arr("tags") {
				tn, _ := t.(string)
				if seenT[tn] {
					errf("tag-listed-twice", "%s names tag %q twice", w, tn)
				}
				seenT[tn] = true
				ti := tags[tn]
				if ti == nil {
					errf("tag-undefined", "%s names undefined tag %q", w, tn)
					continue
				}
				n := 0
				for _, x := range ti.groups[proto] {
					if x == k {
						n++
					}
				}
				if n != 1 {
					errf("tag-backref", "tag %q lists %q %d times under %s", tn, k, n, proto)
				} else {
					rep.Resolved["interaction->tag"]++
				}
				for p, l := range ti.groups {
					if p != proto {
						for _, x := range l {
							if x == k {
								errf("tag-protocol", "tag %q lists %q under protocol %s", tn, k, p)
							}
						}
					}
				}
			}
			checkSchema(w, io)
			if proto == "http" {
				params, ambiguous := PathParams(path)
				sort.Strings(params)
				var have []string
				pv := io.Obj("pathVariables")
				if pv != nil {
					if sc := pv.Obj("schema"); sc != nil {
						if c := sc.Obj("content"); c != nil {
							for _, ch := range c.Arr("children") {
								if co, ok := ch.(*Obj); ok {
									kk, _ := co.Str("key")
									have = append(have, kk)
								}
							}
						}
					}
				}
				sort.Strings(have)
				if ambiguous {
					rep.Resolved["pathVariables_ambiguous_path_skipped"]++
				} else if strings.Join(params, "\x00") != strings.Join(have, "\x00") || (len(params) == 0) != (pv == nil) {
					errf("path-variables", "%s: path %q has parameters %v but pathVariables lists %v (present=%v)", w, path, params, have, pv != nil)
				} else {
					rep.Resolved["pathVariables"] += len(params)
				}
				for i, r := range io.Arr("responses") {
					ro, _ := r.(*Obj)
					if ro == nil {
						continue
					}
					code, _ := ro.Str("code")
					n, err := strconv.Atoi(code)
					if err != nil || n < 100 || n > 599 || len(code) != 3 {
						errf("response-code", "%s.responses[%d].code = %q", w, i, code)
					}
					if b, ok := ro.M["body"]; !ok || b == nil {
						errf("response-body", "%s.responses[%d] has no body", w, i)
					} else {
						rep.Resolved["responses"]++
					}
				}
			}
		}
	}
	// tags -> interactions
	for tn, ti := range tags {
		for p, l := range ti.groups {
			seen := map[string]bool{}
			for _, id := range l {
				if seen[id] {
					errf("tag-backref", "tag %q lists %q twice under %s", tn, id, p)
				}
				seen[id] = true
				ip, ok := ids[id]
				if !ok {
					errf("tag-interaction-undefined", "tag %q lists unknown interaction %q", tn, id)
					continue
				}
				if ip != p {
					errf("tag-protocol", "tag %q lists %q under %s but it is %s", tn, id, p, ip)
				}
				io := inter.Obj(id)
				found := 0
				for _, t := range io.Arr("tags") {
					if s, _ := t.(string); s == tn {
						found++
					}
				}
				if found != 1 {
					errf("tag-forwardref", "tag %q lists %q which names the tag %d times", tn, id, found)
				} else {
					rep.Resolved["tag->interaction"]++
				}
			}
		}
	}
	return rep
}

// hasEscapedKey: some property key of the content (at any depth) holds a character that a JSON text must escape.
func hasEscapedKey(v interface{}) bool {
	o, ok := v.(*Obj)
	if !ok {
		return false
	}
	if k, ok := o.M["key"].(string); ok {
		for i := 0; i < len(k); i++ {
			if k[i] == '"' || k[i] == '\\' || k[i] < 0x20 {
				return true
			}
		}
	}
	if ch, ok := o.M["children"].([]interface{}); ok {
		for _, c := range ch {
			if hasEscapedKey(c) {
				return true
			}
		}
	}
	return false
}

func truncStr(s string, n int) string {
	if len(s) > n {
		return s[:n] + "…"
	}
	return s
}

// anyEscapedKey walks the whole catalog.
func anyEscapedKey(v interface{}) bool {
	switch x := v.(type) {
	case *Obj:
		if hasEscapedKey(x) {
			return true
		}
		for _, k := range x.Keys {
			if anyEscapedKey(x.M[k]) {
				return true
			}
		}
	case []interface{}:
		for _, e := range x {
			if anyEscapedKey(e) {
				return true
			}
		}
	}
	return false
}

// ---- allOf: an object that inherits carries what it inherits ----

// AllOfReport: what the inheritance oracle saw.
type AllOfReport struct {
	Errors  []string
	Objects int // object nodes with an allOf rule that were judged
	Nested  int // of these: below another object node (not the root of their schema)
	Keys    int // inherited keys found on them
}

// AllOfInheritance checks the "objects carry children" clause for inheriting objects: an object node with the rule allOf names
// user types of the same document; the library writes the first-level properties of those types into the node's children,
// marked inheritedFrom. It does so for the root object of a schema and for objects reached from it through object properties
// only (an object that is an array item keeps its rule unexpanded - the suite pins that). The oracle needs nothing but the
// document: for every such node and every named type whose own content is an object, every first-level key of that content
// must occur among the node's children on a child that says inheritedFrom.
func AllOfInheritance(root interface{}) AllOfReport {
	var rep AllOfReport
	top, ok := root.(*Obj)
	if !ok {
		return rep
	}
	type keyT struct {
		k   string
		ref bool
	}
	typeKeys := map[string][]keyT{}
	if uo := top.Obj("userTypes"); uo != nil {
		for _, name := range uo.Keys {
			t, _ := uo.M[name].(*Obj)
			if t == nil {
				continue
			}
			sch := t.Obj("schema")
			if sch == nil {
				continue
			}
			c := sch.Obj("content")
			if c == nil {
				continue
			}
			if tt, _ := c.Str("tokenType"); tt != "object" {
				continue
			}
			ks := []keyT{}
			for _, ch := range c.Arr("children") {
				if co, ok := ch.(*Obj); ok {
					k, _ := co.Str("key")
					r, _ := co.M["isKeyUserTypeRef"].(bool)
					ks = append(ks, keyT{k, r})
				}
			}
			typeKeys[name] = ks
		}
	}
	var node func(w string, o *Obj, depth int)
	node = func(w string, o *Obj, depth int) {
		if tt, _ := o.Str("tokenType"); tt != "object" {
			return
		}
		var named []string
		for _, r := range o.Arr("rules") {
			ro, _ := r.(*Obj)
			if ro == nil {
				continue
			}
			if k, _ := ro.Str("key"); k != "allOf" {
				continue
			}
			if sv, ok := ro.Str("scalarValue"); ok && sv != "" {
				named = append(named, sv)
			}
			for _, rc := range ro.Arr("children") {
				if rco, ok := rc.(*Obj); ok {
					if sv, ok := rco.Str("scalarValue"); ok && sv != "" {
						named = append(named, sv)
					}
				}
			}
		}
		children := o.Arr("children")
		if len(named) > 0 {
			rep.Objects++
			if depth > 0 {
				rep.Nested++
			}
			have := map[keyT]bool{}
			for _, ch := range children {
				if co, ok := ch.(*Obj); ok {
					if from, _ := co.Str("inheritedFrom"); from != "" {
						k, _ := co.Str("key")
						r, _ := co.M["isKeyUserTypeRef"].(bool)
						have[keyT{k, r}] = true
					}
				}
			}
			for _, tn := range named {
				ks, ok := typeKeys[tn]
				if !ok {
					continue
				}
				for _, k := range ks {
					if have[k] {
						rep.Keys++
					} else if len(rep.Errors) < 10 {
						rep.Errors = append(rep.Errors, fmt.Sprintf("%s: object with allOf %s does not carry the property %q of that type (inherited children: %d)", w, tn, k.k, len(have)))
					}
				}
			}
		}
		for i, ch := range children {
			if co, ok := ch.(*Obj); ok {
				k, _ := co.Str("key")
				node(fmt.Sprintf("%s.children[%d](%s)", w, i, k), co, depth+1)
			}
		}
	}
	var walk func(w string, v interface{})
	walk = func(w string, v interface{}) {
		switch x := v.(type) {
		case *Obj:
			if n, _ := x.Str("notation"); n == "jsight" && x.Has("content") {
				if c := x.Obj("content"); c != nil {
					node(w+".content", c, 0)
				}
				return
			}
			for _, k := range x.Keys {
				walk(w+"."+k, x.M[k])
			}
		case []interface{}:
			for i, e := range x {
				walk(fmt.Sprintf("%s[%d]", w, i), e)
			}
		}
	}
	walk("$", top)
	return rep
}
