package ref

import (
	"fmt"
	"strings"
)

// Lex is a scanner lexeme as observed through the public API.
type Lex struct {
	Type       string
	Begin, End int
}

// TriviaOnly reports whether gap consists only of what the language discards between lexemes: blanks, line ends,
// '#' line comments, '###' block comments and the annotation delimiters '//', '/*', '*/'.
// atLineStartOK tells whether '#' comments may start here (they may start anywhere outside lexemes).
func TriviaOnly(gap []byte) (bool, int) { return triviaOnly(gap, false) }

// afterLineAnnotation: the gap follows a '//' annotation; a '#' that ends such an annotation starts a line comment
// whatever follows it (a '###' there does not open a block).
func triviaOnly(gap []byte, afterLineAnnotation bool) (bool, int) {
	i := 0
	if afterLineAnnotation && len(gap) > 0 && gap[0] == '#' {
		for i < len(gap) && gap[i] != '\n' && gap[i] != '\r' {
			i++
		}
	}
	for i < len(gap) {
		c := gap[i]
		switch {
		case c == ' ' || c == '\t' || c == '\n' || c == '\r':
			i++
		case c == '#':
			if i+2 < len(gap) && gap[i+1] == '#' && gap[i+2] == '#' {
				j := strings.Index(string(gap[i+3:]), "###")
				if j < 0 {
					return false, i // unterminated block inside a gap between lexemes
				}
				i = i + 3 + j + 3
			} else {
				for i < len(gap) && gap[i] != '\n' && gap[i] != '\r' {
					i++
				}
			}
		case c == '/' && i+1 < len(gap) && (gap[i+1] == '/' || gap[i+1] == '*'):
			i += 2
		case c == '*' && i+1 < len(gap) && gap[i+1] == '/':
			i += 2
		default:
			return false, i
		}
	}
	return true, -1
}

var keywordSet = func() map[string]bool {
	m := map[string]bool{}
	for _, k := range []string{"JSIGHT", "INFO", "Title", "Version", "Description", "SERVER", "BaseUrl", "URL", "GET", "POST", "PUT",
		"PATCH", "DELETE", "Body", "Request", "Path", "Headers", "Query", "TYPE", "ENUM", "MACRO", "PASTE", "INCLUDE", "Protocol",
		"Method", "Params", "Result", "TAG", "Tags", "OperationId"} {
		m[k] = true
	}
	return m
}()

func IsKeywordText(s string) bool {
	if keywordSet[s] {
		return true
	}
	return len(s) == 3 && s[0] >= '1' && s[0] <= '5' && s[1] >= '0' && s[1] <= '9' && s[2] >= '0' && s[2] <= '9'
}

// CheckLexemes applies the well-formedness monitor. complete tells whether the scanner reached the end of the file.
// judgeTail: also require that everything after the last lexeme is trivia. That holds for well-formed documents only:
// a file that ends inside an unterminated regex or Description body is scanned to the end without that body and
// without an error (the missing body is reported by the builder), so the tail of arbitrary byte strings is not judged.
// It returns violations as (rule, detail).
func CheckLexemes(content []byte, lx []Lex, complete, judgeTail bool) (out [][2]string) {
	add := func(rule, f string, a ...interface{}) {
		if len(out) < 8 {
			out = append(out, [2]string{rule, fmt.Sprintf(f, a...)})
		}
	}
	n := len(content)
	prevEnd := -1
	prevBegin := 0
	state := "" // last lexeme type within the current directive
	seenAnn, seenBody := false, false
	lineAnn := false // the previous lexeme is a '//' annotation
	for i, l := range lx {
		if l.Begin < 0 || l.End < l.Begin-1 || l.End >= n || l.Begin > n {
			add("bounds", "lexeme %d %s [%d:%d] outside a file of %d bytes", i, l.Type, l.Begin, l.End, n)
			return out
		}
		if l.Begin <= prevEnd || l.Begin < prevBegin {
			add("order", "lexeme %d %s [%d:%d] starts before the previous one ended (%d)", i, l.Type, l.Begin, l.End, prevEnd)
			return out
		}
		text := ""
		if l.End >= l.Begin {
			text = string(content[l.Begin : l.End+1])
		}
		// gap before this lexeme
		if ok, at := triviaOnly(content[prevEnd+1:l.Begin], lineAnn); !ok {
			gapText := content[prevEnd+1 : l.Begin]
			// Description text may be wrapped in parentheses which belong to the directive, not to a context
			if !(l.Type == "text" && strings.TrimSpace(string(gapText)) == "(") && !(state == "text" && strings.HasPrefix(strings.TrimSpace(string(gapText)), ")")) {
				add("uncovered-bytes", "byte %d (%q) between lexemes %d and %d is neither in a lexeme nor trivia", prevEnd+1+at, content[prevEnd+1+at], i-1, i)
			}
		}
		switch l.Type {
		case "keyword":
			if !IsKeywordText(text) {
				add("keyword-text", "keyword lexeme [%d:%d] spells %q", l.Begin, l.End, text)
			}
			state, seenAnn, seenBody = "keyword", false, false
		case "property":
			if state != "keyword" && state != "property" {
				add("grammar", "parameter lexeme %d follows %q", i, state)
			}
			if strings.HasPrefix(text, "\"") {
				if len(text) < 2 || text[len(text)-1] != '"' {
					add("parameter-text", "quoted parameter [%d:%d] %q does not end with a quote", l.Begin, l.End, text)
				}
			} else if strings.ContainsAny(text, " \t\n\r#") || text == "" {
				add("parameter-text", "bare parameter [%d:%d] %q contains a blank, line end or '#'", l.Begin, l.End, text)
			}
			state = "property"
		case "annotation":
			if (state != "keyword" && state != "property") || seenAnn {
				add("grammar", "annotation lexeme %d follows %q", i, state)
			}
			seenAnn = true
			state = "annotation"
		case "schema", "text", "json", "unknown-lexeme-type":
			if state == "" || seenBody {
				add("grammar", "body lexeme %d (%s) follows %q (body already seen: %v)", i, l.Type, state, seenBody)
			}
			seenBody = true
			state = l.Type
			if l.Type == "unknown-lexeme-type" {
				state = "enum"
			}
		case "context-opening":
			if text != "(" {
				add("parenthesis-text", "context-opening lexeme [%d:%d] is %q", l.Begin, l.End, text)
			}
			if state == "" && i != 0 {
				// '(' after ')' or another '(' – the scanner does not judge that, the core does
			}
		case "context-closing":
			if text != ")" {
				add("parenthesis-text", "context-closing lexeme [%d:%d] is %q", l.Begin, l.End, text)
			}
			state = ""
		default:
			add("lexeme-type", "lexeme %d has type %q", i, l.Type)
		}
		lineAnn = l.Type == "annotation" && l.Begin >= 2 && content[l.Begin-1] == '/' && content[l.Begin-2] == '/'
		prevBegin = l.Begin
		if l.End > prevEnd {
			prevEnd = l.End
		}
	}
	if complete && judgeTail {
		if ok, at := triviaOnly(content[prevEnd+1:], lineAnn); !ok {
			rest := strings.TrimSpace(string(content[prevEnd+1:]))
			if !(state == "text" && strings.HasPrefix(rest, ")")) {
				add("uncovered-bytes", "byte %d (%q) after the last lexeme is neither in a lexeme nor trivia", prevEnd+1+at, content[prevEnd+1+at])
			}
		}
	}
	return out
}
