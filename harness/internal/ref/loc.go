// Package ref holds reference models that are written from the language description, not from the implementation.
package ref

import (
	"strings"
	"unicode/utf8"
)

// EOL conventions.
const (
	EOLNone  = "none"
	EOLLF    = "lf"
	EOLCRLF  = "crlf"
	EOLCR    = "cr"
	EOLMixed = "mixed"
)

// Convention classifies the line-ending convention of a file.
func Convention(b []byte) string {
	lf, cr, crlf := 0, 0, 0
	for i := 0; i < len(b); i++ {
		switch b[i] {
		case '\r':
			if i+1 < len(b) && b[i+1] == '\n' {
				crlf++
				i++
			} else {
				cr++
			}
		case '\n':
			lf++
		}
	}
	switch {
	case lf == 0 && cr == 0 && crlf == 0:
		return EOLNone
	case cr == 0 && crlf == 0:
		return EOLLF
	case lf == 0 && cr == 0:
		return EOLCRLF
	case lf == 0 && crlf == 0:
		return EOLCR
	}
	return EOLMixed
}

// Loc is the reference position of a byte index: 1-based line and column (in bytes) and the text of the line.
type Loc struct {
	Line, Column int
	LineText     string // without terminator
}

// Locate computes the reference location for index < len(b) in a file with a uniform convention.
// A terminator byte belongs to the line it ends. With CRLF the terminator is the LF; the CR counts as a column
// of the line but is not part of its text.
func Locate(b []byte, index int, conv string) Loc {
	term := byte('\n')
	if conv == EOLCR {
		term = '\r'
	}
	line, start := 1, 0
	for i := 0; i < index; i++ {
		if b[i] == term {
			line++
			start = i + 1
		}
	}
	end := index
	for end < len(b) && b[end] != term {
		end++
	}
	if conv == EOLCRLF && end > start && b[end-1] == '\r' {
		end--
	}
	if end < start {
		end = start
	}
	return Loc{Line: line, Column: index - start + 1, LineText: string(b[start:end])}
}

// QuoteOK: the quote must be the left-trimmed text of the line; a line longer than 200 bytes may be cut after 197
// bytes and marked with "...". A line consisting of blanks only may be reported trimmed or untouched.
func QuoteOK(quote, lineText string) bool {
	if quoteOK(quote, lineText) {
		return true
	}
	// the observation travelled through JSON, which replaces every byte that is not valid UTF-8 by U+FFFD
	return quoteOKCoerced(quote, lineText)
}

func quoteOKCoerced(quote, lineText string) bool {
	trim := strings.TrimLeft(lineText, " \t\r\n")
	if quote == JSONCoerce(trim) || quote == JSONCoerce(lineText) {
		return true
	}
	if len(lineText) > 200 && strings.HasSuffix(quote, "...") {
		for back := 0; back <= 3; back++ {
			cut := strings.TrimLeft(lineText[:197-back], " \t\r\n")
			if quote == JSONCoerce(cut)+"..." && (utf8.RuneStart(lineText[197-back]) || !utf8.ValidString(lineText)) {
				return true
			}
		}
	}
	return false
}

// JSONCoerce mimics what encoding/json does to a string that is not valid UTF-8.
func JSONCoerce(s string) string {
	if utf8.ValidString(s) {
		return s
	}
	var sb strings.Builder
	for i := 0; i < len(s); {
		r, n := utf8.DecodeRuneInString(s[i:])
		if r == utf8.RuneError && n == 1 {
			sb.WriteRune(utf8.RuneError)
		} else {
			sb.WriteString(s[i : i+n])
		}
		i += n
	}
	return sb.String()
}

func quoteOK(quote, lineText string) bool {
	trim := strings.TrimLeft(lineText, " \t\r\n")
	if quote == trim || quote == lineText {
		return true
	}
	if len(lineText) > 200 && strings.HasSuffix(quote, "...") {
		// cut after 197 bytes, or up to three bytes earlier so that no multibyte character is cut in two
		for back := 0; back <= 3; back++ {
			end := 197 - back
			cut := strings.TrimLeft(lineText[:end], " \t\r\n")
			if quote == cut+"..." && (utf8.RuneStart(lineText[end]) || !utf8.ValidString(lineText)) {
				return true // a line of valid UTF-8 is never cut inside a character
			}
			if cut == "" && quote == lineText[:end]+"..." {
				return true // blanks only: trimmed or untouched, as for short lines
			}
		}
	}
	return false
}
