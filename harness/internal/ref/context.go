package ref

// Reference model of directive nesting in JSight API 0.3, transcribed from the language's context table.

type CtxKind string

var rootAllowed = set("JSIGHT", "INFO", "SERVER", "URL", "GET", "POST", "PUT", "PATCH", "DELETE", "TYPE", "ENUM", "MACRO", "PASTE", "TAG")

var methodChildren = set("Description", "Request", "HTTP-response-code", "Path", "Query", "PASTE", "Tags", "OperationId")

var childAllowed = map[string]map[string]bool{
	"URL":                set("GET", "POST", "PUT", "PATCH", "DELETE", "Path", "PASTE", "Protocol", "Method", "Tags"),
	"GET":                methodChildren,
	"POST":               methodChildren,
	"PUT":                methodChildren,
	"PATCH":              methodChildren,
	"DELETE":             methodChildren,
	"HTTP-response-code": set("Body", "Headers", "PASTE"),
	"Request":            set("Body", "Headers", "PASTE"),
	"INFO":               set("Title", "Version", "Description", "PASTE"),
	"SERVER":             set("BaseUrl", "PASTE"),
	"Method":             set("Description", "Params", "Result", "Tags"),
	"TAG":                set("Description"),
	"MACRO": set("INFO", "Title", "Version", "Description", "SERVER", "BaseUrl", "URL", "GET", "POST", "PUT", "PATCH", "DELETE",
		"Body", "Request", "HTTP-response-code", "Path", "Headers", "Query", "TYPE", "ENUM", "PASTE"),
}

func set(ss ...string) map[string]bool {
	m := map[string]bool{}
	for _, s := range ss {
		m[s] = true
	}
	return m
}

func IsMethodKind(k string) bool {
	return k == "GET" || k == "POST" || k == "PUT" || k == "PATCH" || k == "DELETE"
}

// CtxToken is one element of a directive sequence.
type CtxToken struct {
	Close    bool   // ")"
	Kind     string // directive kind (for response codes "HTTP-response-code")
	HasPath  bool   // HTTP method written with its own path
	Explicit bool   // followed by "("
	Include  bool   // INCLUDE: not a node of the tree
	Open     bool   // a "(" on a line of its own that is not the one written right after a directive by Explicit
}

type CtxVerdict struct {
	OK      bool
	ErrAt   int    // index of the offending token; len(tokens) for "not closed at end of file"
	Class   string // incorrect-context | nothing-to-close | not-closed | include-with-parenthesis
	Parents []int  // for every token that is a directive node: index (among nodes) of its parent, -1 for a root
	Nodes   []int  // token index of every node
}

type ctxEntry struct {
	kind     string
	explicit bool
	node     int
}

// RunContext interprets a token sequence.
func RunContext(tokens []CtxToken) CtxVerdict {
	var v CtxVerdict
	var stack []ctxEntry
	for i, t := range tokens {
		switch {
		case t.Open:
			// A parenthesis belongs to the directive written right before it, if that one has none yet; any other opening
			// parenthesis (at the beginning, after ")", after INCLUDE, a second one) has nothing to open.
			prevIsDirective := i > 0 && !tokens[i-1].Close && !tokens[i-1].Include && !tokens[i-1].Open
			if !prevIsDirective || tokens[i-1].Explicit || len(stack) == 0 {
				v.ErrAt, v.Class = i, "incorrect-context"
				return v
			}
			stack[len(stack)-1].explicit = true
		case t.Close:
			closed := false
			for len(stack) > 0 {
				top := stack[len(stack)-1]
				stack = stack[:len(stack)-1]
				if top.explicit {
					closed = true
					break
				}
			}
			if !closed {
				v.ErrAt, v.Class = i, "nothing-to-close"
				return v
			}
		case t.Include:
			if t.Explicit {
				v.ErrAt, v.Class = i, "include-with-parenthesis"
				return v
			}
		default:
			node := len(v.Nodes)
			for {
				if len(stack) == 0 {
					if !rootAllowed[t.Kind] {
						v.ErrAt, v.Class = i, "incorrect-context"
						return v
					}
					v.Nodes = append(v.Nodes, i)
					v.Parents = append(v.Parents, -1)
					stack = append(stack, ctxEntry{t.Kind, t.Explicit, node})
					break
				}
				top := stack[len(stack)-1]
				if childAllowed[top.kind][t.Kind] {
					if IsMethodKind(t.Kind) && t.HasPath && top.kind == "URL" {
						if top.explicit {
							v.ErrAt, v.Class = i, "incorrect-context"
							return v
						}
						// a method with its own path leaves an implicit URL and stands where the URL stands (the root, or the body
						// of the macro that holds the URL): the URL's context is closed and the method is resolved again
						stack = stack[:len(stack)-1]
						continue
					}
					v.Nodes = append(v.Nodes, i)
					v.Parents = append(v.Parents, top.node)
					stack = append(stack, ctxEntry{t.Kind, t.Explicit, node})
					break
				}
				if top.explicit {
					v.ErrAt, v.Class = i, "incorrect-context"
					return v
				}
				stack = stack[:len(stack)-1]
			}
		}
	}
	for _, e := range stack {
		if e.explicit {
			v.ErrAt, v.Class = len(tokens), "not-closed"
			return v
		}
	}
	v.OK = true
	return v
}

// ---- sequences spread over INCLUDEd files ----

// CtxEvent: a token written in file File, or the end of an included file.
type CtxEvent struct {
	Tok     CtxToken
	File    int  // file in which the token is written
	EndFile bool // the included file File ends here (the root file ends with the sequence)
}

type ctxEntryF struct {
	ctxEntry
	file int
}

// RunContextFiles interprets a token sequence that is spread over files: an explicit context must be closed in the
// file that opened it (at the end of an included file only the parentheses opened in that file count; at the end
// of the root file all of them), while a ')' closes the innermost explicit context wherever that was opened.
// ErrAt is the index of the offending event.
func RunContextFiles(events []CtxEvent) CtxVerdict {
	var v CtxVerdict
	var stack []ctxEntryF
	for i, ev := range events {
		t := ev.Tok
		switch {
		case ev.EndFile:
			for _, e := range stack {
				if e.explicit && e.file == ev.File {
					v.ErrAt, v.Class = i, "not-closed"
					return v
				}
			}
		case t.Close:
			closed := false
			for len(stack) > 0 {
				top := stack[len(stack)-1]
				stack = stack[:len(stack)-1]
				if top.explicit {
					closed = true
					break
				}
			}
			if !closed {
				v.ErrAt, v.Class = i, "nothing-to-close"
				return v
			}
		default:
			node := len(v.Nodes)
			for {
				if len(stack) == 0 {
					if !rootAllowed[t.Kind] {
						v.ErrAt, v.Class = i, "incorrect-context"
						return v
					}
					v.Nodes = append(v.Nodes, i)
					v.Parents = append(v.Parents, -1)
					stack = append(stack, ctxEntryF{ctxEntry{t.Kind, t.Explicit, node}, ev.File})
					break
				}
				top := stack[len(stack)-1]
				if childAllowed[top.kind][t.Kind] {
					if IsMethodKind(t.Kind) && t.HasPath && top.kind == "URL" {
						if top.explicit {
							v.ErrAt, v.Class = i, "incorrect-context"
							return v
						}
						stack = stack[:len(stack)-1]
						continue
					}
					v.Nodes = append(v.Nodes, i)
					v.Parents = append(v.Parents, top.node)
					stack = append(stack, ctxEntryF{ctxEntry{t.Kind, t.Explicit, node}, ev.File})
					break
				}
				if top.explicit {
					v.ErrAt, v.Class = i, "incorrect-context"
					return v
				}
				stack = stack[:len(stack)-1]
			}
		}
	}
	for _, e := range stack {
		if e.explicit {
			v.ErrAt, v.Class = len(events), "not-closed"
			return v
		}
	}
	v.OK = true
	return v
}
