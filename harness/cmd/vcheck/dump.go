package main

import (
	"fmt"
	"os"
	"strconv"

	"verifharness/internal/gen"
	"verifharness/internal/model"
)

// dumpC10 regenerates pair i of the C10 workload (thorough numbering = quick numbering) and writes both forms under dir.
func dumpC10(seed int64, i int, dir string) {
	r := gen.Rng(seed, "C10", "models")
	var m *model.Model
	for k := 0; k <= i; k++ {
		m = model.Generate(r, model.QuickSize)
	}
	lr := gen.Rng(seed, "C10", "layout", fmt.Sprint(i))
	l1 := model.RandomLayout(lr)
	l1.Macros, l1.Includes = false, false
	l2 := *l1
	l1.R = gen.Rng(seed, "C10", "structure", fmt.Sprint(i))
	l2.R = gen.Rng(seed, "C10", "structure", fmt.Sprint(i))
	l2.Macros = true
	l2.Includes = i%4 == 0
	l1.EOL, l2.EOL = "\n", "\n"
	rd1, rd2 := m.Render(l1), m.Render(&l2)
	for name, rd := range map[string]*model.Rendered{"plain": rd1, "macro": rd2} {
		for f, b := range rd.Files {
			p := dir + "/" + name + "/" + f
			_ = os.MkdirAll(p[:len(p)-len(lastSeg(p))], 0o755)
			_ = os.WriteFile(p, b, 0o644)
		}
	}
}

func lastSeg(p string) string {
	for i := len(p) - 1; i >= 0; i-- {
		if p[i] == '/' {
			return p[i+1:]
		}
	}
	return p
}

func init() {
	if len(os.Args) >= 5 && os.Args[1] == "dump-c10" {
		seed, _ := strconv.ParseInt(os.Args[2], 10, 64)
		i, _ := strconv.Atoi(os.Args[3])
		dumpC10(seed, i, os.Args[4])
		os.Exit(0)
	}
}
