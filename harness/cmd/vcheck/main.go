// vcheck <property-id> quick|thorough   – runs one check against /repo's working tree.
// vcheck <property-id> --replay <path>  – re-executes the jobs of a replay file and prints the observations.
package main

import (
	"encoding/json"
	"fmt"
	"os"

	"verifharness/internal/checks"
	"verifharness/internal/fw"
	"verifharness/internal/proto"
)

var table = map[string]func(*fw.Ctx){
	"C01": checks.C01,
	"C02": checks.C02,
	"C03": checks.C03,
	"C04": checks.C04,
	"C05": checks.C05,
	"C06": checks.C06,
	"C07": checks.C07,
	"C08": checks.C08,
	"C09": checks.C09,
	"C10": checks.C10,
	"C11": checks.C11,
	"C12": checks.C12,
	"C13": checks.C13,
	"C14": checks.C14,
	"C15": checks.C15,
	"C16": checks.C16,
	"C17": checks.C17,
	"C18": checks.C18,
	"C19": checks.C19,
}

func main() {
	if len(os.Args) < 3 {
		fmt.Println("usage: vcheck <id> quick|thorough | vcheck <id> --replay <path>")
		os.Exit(2)
	}
	id := os.Args[1]
	if os.Args[2] == "--replay" {
		replay(id, os.Args[3])
		return
	}
	tier := os.Args[2]
	if t := os.Getenv("VERIF_TIER"); t != "" && tier == "" {
		tier = t
	}
	f, ok := table[id]
	if !ok {
		fmt.Println("unknown property", id)
		os.Exit(2)
	}
	c := fw.New(id, tier)
	f(c)
}

func replay(id, path string) {
	b, err := os.ReadFile(path)
	if err != nil {
		fmt.Println(err)
		os.Exit(2)
	}
	var rp fw.Replay
	if err := json.Unmarshal(b, &rp); err != nil {
		fmt.Println(err)
		os.Exit(2)
	}
	c := fw.New(id, "replay")
	defer c.Cleanup()
	fmt.Printf("replaying %s: sig=%s\n%s\n", path, rp.Sig, rp.What)
	race := id == "C18"
	pool := c.Pool(race, 1)
	ch := make(chan *proto.Job, len(rp.Jobs))
	for _, j := range rp.Jobs {
		ch <- j
	}
	close(ch)
	_ = pool.Run(ch, func(j *proto.Job, r *proto.Result) {
		out, _ := json.MarshalIndent(r, "", " ")
		fmt.Printf("job %s ->\n%s\n", j.ID, out)
	})
}
