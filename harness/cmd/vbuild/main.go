// vbuild: debugging aid – builds one project from disk and prints the catalog (indented) or the located error.
// Not used by any registered check.
package main

import (
	"fmt"
	"os"

	"github.com/jsightapi/jsight-api-core/kit"
)

func main() {
	if len(os.Args) < 2 {
		fmt.Fprintln(os.Stderr, "usage: vbuild <root.jst> [openapi]")
		os.Exit(2)
	}
	j, je := kit.NewJapi(os.Args[1])
	if je != nil {
		fmt.Printf("ERROR %s\n  file=%s line=%d col=%d index=%d\n  quote=%q\n", je.Error(), je.File.Name(), je.Line, je.Column, je.Index, je.Quote)
		os.Exit(1)
	}
	b, err := j.ToJsonIndent()
	if err != nil {
		fmt.Println("SERIALISE ERROR", err)
		os.Exit(1)
	}
	os.Stdout.Write(b)
	fmt.Println()
}
