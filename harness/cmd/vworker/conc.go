package main

import (
	"fmt"
	"math/rand"
	"os"
	"path/filepath"
	"runtime"
	"strings"
	"sync"
	"sync/atomic"
	"time"

	"github.com/jsightapi/jsight-schema-core/fs"

	"github.com/jsightapi/jsight-api-core/jerr"
	"github.com/jsightapi/jsight-api-core/kit"
	"github.com/jsightapi/jsight-api-core/verifhook"

	"verifharness/internal/proto"
	"verifharness/internal/ref"
)

var serOps = []string{"json", "jsonindent", "openapi", "openapiindent", "title"}

// buildProj builds one project of a concurrency job: from memory, or - when it has files - from the directory they were written to.
func buildProj(p proto.ConcProject, idx int) *built {
	if len(p.Files) == 0 {
		return buildMem(p.Name, p.Content, "", p.SharedBan...)
	}
	return buildMem(p.Name, nil, filepath.Join(baseDir, "conc", fmt.Sprint(idx), p.Root), p.SharedBan...)
}

func materialiseConc(c *proto.ConcJob) error {
	_ = os.RemoveAll(filepath.Join(baseDir, "conc"))
	for i, p := range c.Projects {
		for name, content := range p.Files {
			f := filepath.Join(baseDir, "conc", fmt.Sprint(i), name)
			if err := os.MkdirAll(filepath.Dir(f), 0o755); err != nil {
				return err
			}
			if err := os.WriteFile(f, content, 0o644); err != nil {
				return err
			}
		}
	}
	return nil
}

func buildMem(name string, content []byte, path string, ban ...[]string) (b *built) {
	b = &built{}
	defer func() {
		if r := recover(); r != nil {
			b.accepted = false
			b.panic = panicInfo("build", r)
		}
	}()
	opts, oerr := sharedBanOpts(ban)
	if oerr != nil {
		panic("harness: " + oerr.Error())
	}
	var j kit.JApi
	var je *jerr.JApiError
	if path != "" {
		j, je = kit.NewJapi(path, opts...)
	} else {
		j, je = kit.NewJApiFromFile(fs.NewFile(name, content), opts...)
	}
	b.j = j
	if je != nil {
		b.err = errInfo(je)
		return b
	}
	b.accepted = true
	return b
}

func buildSig(b *built) string {
	switch {
	case b.panic != nil:
		return "PANIC:" + b.panic.Func + ":" + b.panic.Kind
	case b.err != nil:
		e := b.err
		return fmt.Sprintf("ERR %q %s %d %d %d %q", e.Msg, e.File, e.Index, e.Line, e.Column, e.ErrorStr)
	default:
		return "OK"
	}
}

// runConc: sequential baseline, then concurrent builds of different projects, then concurrent serialisation of
// shared catalogs. All observers that keep state are removed for the duration (they would add happens-before edges).
func runConc(c *proto.ConcJob) *proto.ConcResult {
	res := &proto.ConcResult{}
	if err := materialiseConc(c); err != nil {
		res.Mismatches = append(res.Mismatches, "harness: cannot write the projects: "+err.Error())
		return res
	}
	saveFA, saveSS, savePh := verifhook.OnFileAccess, verifhook.OnScanStep, verifhook.OnPhase
	verifhook.OnFileAccess, verifhook.OnScanStep, verifhook.OnPhase = nil, nil, nil
	var yields int64
	if c.Jitter {
		verifhook.OnYield = func(string) {
			n := atomic.AddInt64(&yields, 1)
			// value-determined jitter without shared PRNG state: yield, sometimes sleep a little
			switch n % 4 {
			case 0:
				runtime.Gosched()
			case 1:
				time.Sleep(time.Duration(n%200) * time.Microsecond)
			}
		}
	}
	defer func() {
		verifhook.OnYield = nil
		verifhook.OnFileAccess, verifhook.OnScanStep, verifhook.OnPhase = saveFA, saveSS, savePh
	}()

	// phase 1: baseline (after the concurrent phase in a cold start)
	type base struct {
		build string
		outs  map[string]string
	}
	baseline := make([]base, len(c.Projects))
	computeBaseline := func() {
		for i, p := range c.Projects {
			b := buildProj(p, i)
			baseline[i] = base{build: buildSig(b), outs: map[string]string{}}
			if b.accepted {
				for _, op := range serOps {
					baseline[i].outs[op] = outKey(b.call(op, false))
				}
			}
		}
	}
	if !c.ColdStart {
		computeBaseline()
	}

	var mu sync.Mutex
	addMismatch := func(s string) {
		mu.Lock()
		if len(res.Mismatches) < 20 {
			res.Mismatches = append(res.Mismatches, trunc(s, 900))
		}
		mu.Unlock()
	}
	var builds, sers, comps int64

	type obs struct {
		idx   int
		build string
		outs  map[string]string
	}
	var coldObs []obs
	// phase 2: concurrent builds of different projects
	rng := rand.New(rand.NewSource(c.Seed))
	for r := 0; r < c.Rounds; r++ {
		perm := rng.Perm(len(c.Projects))
		var wg sync.WaitGroup
		start := make(chan struct{})
		for g := 0; g < c.Goroutines; g++ {
			idx := perm[g%len(perm)]
			rot := rng.Intn(len(serOps))
			wg.Add(1)
			go func(idx, rot int) {
				defer wg.Done()
				<-start
				p := c.Projects[idx]
				b := buildProj(p, idx)
				atomic.AddInt64(&builds, 1)
				if c.ColdStart {
					o := obs{idx: idx, build: buildSig(b), outs: map[string]string{}}
					if b.accepted {
						for k := range serOps {
							op := serOps[(k+rot)%len(serOps)]
							o.outs[op] = outKey(b.call(op, false))
							atomic.AddInt64(&sers, 1)
						}
					}
					mu.Lock()
					coldObs = append(coldObs, o)
					mu.Unlock()
					return
				}
				atomic.AddInt64(&comps, 1)
				if s := buildSig(b); s != baseline[idx].build {
					addMismatch(fmt.Sprintf("build of %s: alone=%s concurrent=%s", p.Name, baseline[idx].build, s))
					return
				}
				if !b.accepted {
					return
				}
				for k := range serOps {
					op := serOps[(k+rot)%len(serOps)]
					got := outKey(b.call(op, false))
					atomic.AddInt64(&sers, 1)
					atomic.AddInt64(&comps, 1)
					if got != baseline[idx].outs[op] {
						addMismatch(fmt.Sprintf("%s%s of %s: alone=%s concurrent=%s", onlyEx(baseline[idx].outs[op], got), op, p.Name, trunc(baseline[idx].outs[op], 400), trunc(got, 400)))
					}
				}
			}(idx, rot)
		}
		close(start)
		wg.Wait()
	}

	if c.ColdStart {
		computeBaseline()
		for _, o := range coldObs {
			p := c.Projects[o.idx]
			atomic.AddInt64(&comps, 1)
			if o.build != baseline[o.idx].build {
				addMismatch(fmt.Sprintf("cold-start build of %s: alone=%s concurrent=%s", p.Name, baseline[o.idx].build, o.build))
				continue
			}
			for op, got := range o.outs {
				atomic.AddInt64(&comps, 1)
				if got != baseline[o.idx].outs[op] {
					addMismatch(fmt.Sprintf("%scold-start %s of %s: alone=%s concurrent=%s", onlyEx(baseline[o.idx].outs[op], got), op, p.Name, trunc(baseline[o.idx].outs[op], 400), trunc(got, 400)))
				}
			}
		}
	}
	// phase 3: one built catalog serialised by several goroutines at once (first call of every lazy state is concurrent)
	if c.SharedSer > 0 {
		for i, p := range c.Projects {
			if baseline[i].build != "OK" {
				continue
			}
			b := buildProj(p, i)
			if !b.accepted {
				addMismatch("shared build of " + p.Name + " rejected: " + buildSig(b))
				continue
			}
			var wg sync.WaitGroup
			start := make(chan struct{})
			for g := 0; g < c.SharedSer; g++ {
				wg.Add(1)
				go func(g int) {
					defer wg.Done()
					<-start
					for k := range serOps {
						op := serOps[(k+g)%len(serOps)]
						got := outKey(b.call(op, false))
						atomic.AddInt64(&sers, 1)
						atomic.AddInt64(&comps, 1)
						if got != baseline[i].outs[op] {
							addMismatch(fmt.Sprintf("%sshared %s of %s: alone=%s concurrent=%s", onlyEx(baseline[i].outs[op], got), op, p.Name, trunc(baseline[i].outs[op], 400), trunc(got, 400)))
						}
					}
				}(g)
			}
			close(start)
			wg.Wait()
		}
	}
	res.Builds, res.Sers, res.Comparisons, res.Yields = int(builds), int(sers), int(comps), int(yields)
	return res
}

func onlyEx(a, b string) string {
	if strings.HasPrefix(a, "B:") && strings.HasPrefix(b, "B:") && ref.OnlyExamplesDiffer([]byte(a[2:]), []byte(b[2:])) {
		return "only-examples:"
	}
	return ""
}
