// vworker executes cases against jsight-api-core (built from /repo with -tags verif) and reports raw observations.
// One job at a time: a JSON line on stdin, a JSON line on stdout. The driver attributes a dead worker to the job in flight.
package main

import (
	"bufio"
	"bytes"
	"crypto/sha256"
	"encoding/hex"
	"encoding/json"
	"flag"
	"fmt"
	"os"
	"path/filepath"
	"runtime"
	"runtime/debug"
	"sort"
	"strings"
	"sync"
	"sync/atomic"
	"syscall"
	"time"

	"github.com/jsightapi/jsight-schema-core/fs"

	"github.com/jsightapi/jsight-api-core/core"
	"github.com/jsightapi/jsight-api-core/directive"
	"github.com/jsightapi/jsight-api-core/jerr"
	"github.com/jsightapi/jsight-api-core/kit"
	"github.com/jsightapi/jsight-api-core/scanner"
	"github.com/jsightapi/jsight-api-core/verifhook"

	"verifharness/internal/proto"
	"verifharness/internal/ref"
)

var (
	baseDir string
	projDir string
	// straceMarks: bracket every build with two recognisable system calls (C14, thorough tier, worker under strace)
	straceMarks = os.Getenv("VERIF_STRACE_MARK") == "1"
)

// ---- hook state (single-threaded worker; in conc jobs the observers are nil except yield) ----

type hookState struct {
	files     []proto.FileEvent
	wantFiles bool
	wantSteps bool
	perFile   map[string]*[2]int
	states    map[uintptr]struct{}
	pairs     map[uint64]struct{}
	wantPh    bool
	scanDone  bool
	scan      []*verifhook.Node
	expand    []*verifhook.Node
}

var hs hookState
var pcNames = map[uintptr]string{}

func byteClass(c byte) uint64 {
	switch {
	case c == 0:
		return 0
	case c >= 'A' && c <= 'Z':
		return 1
	case c >= 'a' && c <= 'z':
		return 2
	case c >= '0' && c <= '9':
		return 3
	case c == ' ' || c == '\t':
		return 4
	case c == '\n':
		return 5
	case c == '\r':
		return 6
	case c == '#':
		return 7
	case c == '/':
		return 8
	case c == '*':
		return 9
	case c == '"':
		return 10
	case c == '(' || c == ')':
		return 11
	case c == '{' || c == '}' || c == '[' || c == ']':
		return 12
	case c == '\\':
		return 13
	case c == '@':
		return 14
	case c >= 0x80:
		return 15
	case c < 0x20:
		return 16
	default:
		return 17
	}
}

func installHooks() {
	verifhook.OnFileAccess = func(op, path string) {
		if hs.wantFiles {
			hs.files = append(hs.files, proto.FileEvent{Op: op, Path: path})
		}
	}
	verifhook.OnScanStep = func(pc uintptr, c byte, index int, file string) {
		if !hs.wantSteps {
			return
		}
		p := hs.perFile[file]
		if p == nil {
			p = &[2]int{}
			hs.perFile[file] = p
		}
		p[0]++
		if index+1 > p[1] {
			p[1] = index + 1
		}
		hs.states[pc] = struct{}{}
		hs.pairs[uint64(pc)<<8|byteClass(c)] = struct{}{}
	}
	verifhook.OnPhase = func(phase string, roots []*verifhook.Node) {
		if !hs.wantPh {
			return
		}
		if phase == "scan" {
			hs.scanDone = true
			hs.scan = roots
		} else {
			hs.expand = roots
		}
	}
}

func resetHooks(j *proto.Job) {
	hs = hookState{wantFiles: j.WantFiles, wantSteps: j.WantSteps, wantPh: j.WantPhases}
	if j.WantSteps {
		hs.perFile = map[string]*[2]int{}
		hs.states = map[uintptr]struct{}{}
		hs.pairs = map[uint64]struct{}{}
	}
}

func pcName(pc uintptr) string {
	if n, ok := pcNames[pc]; ok {
		return n
	}
	n := "?"
	if f := runtime.FuncForPC(pc); f != nil {
		n = f.Name()
		if i := strings.LastIndex(n, "."); i >= 0 {
			n = n[i+1:]
		}
	}
	pcNames[pc] = n
	return n
}

// ---- panic capture ----

func panicInfo(stage string, r interface{}) *proto.PanicInfo {
	pi := &proto.PanicInfo{Stage: stage, Value: trunc(fmt.Sprint(r), 300)}
	switch e := r.(type) {
	case runtime.Error:
		s := e.Error()
		switch {
		case strings.Contains(s, "nil pointer"):
			pi.Kind = "nil-deref"
		case strings.Contains(s, "index out of range"):
			pi.Kind = "index-out-of-range"
		case strings.Contains(s, "slice bounds"):
			pi.Kind = "slice-bounds"
		case strings.Contains(s, "interface conversion"):
			pi.Kind = "interface-conversion"
		default:
			pi.Kind = "runtime-error"
		}
	default:
		pi.Kind = "explicit-panic"
	}
	pcs := make([]uintptr, 64)
	n := runtime.Callers(3, pcs)
	frames := runtime.CallersFrames(pcs[:n])
	for {
		fr, more := frames.Next()
		fn := fr.Function
		if fn != "" && !strings.HasPrefix(fn, "runtime.") && !strings.HasPrefix(fn, "main.") {
			short := shortFunc(fn)
			if len(pi.Stack) < 12 {
				pi.Stack = append(pi.Stack, short)
			}
			if pi.Func == "" && strings.Contains(fn, "jsightapi/jsight-api-core") && !strings.Contains(fn, "verifhook") {
				pi.Func = short
			}
		}
		if !more {
			break
		}
	}
	if pi.Func == "" && len(pi.Stack) > 0 {
		pi.Func = pi.Stack[0]
	}
	return pi
}

func shortFunc(fn string) string {
	fn = strings.TrimPrefix(fn, "github.com/jsightapi/")
	fn = strings.TrimPrefix(fn, "jsight-api-core/")
	// strip generic/closure noise
	fn = strings.ReplaceAll(fn, "[...]", "")
	return fn
}

func trunc(s string, n int) string {
	if len(s) > n {
		return s[:n] + "…"
	}
	return s
}

// ---- building ----

type built struct {
	j        kit.JApi
	core     *core.JApiCore
	viaCore  bool
	accepted bool
	err      *proto.ErrInfo
	panic    *proto.PanicInfo
}

func errInfo(je *jerr.JApiError) (ei *proto.ErrInfo) {
	ei = &proto.ErrInfo{Msg: je.Msg, Index: int(je.Index), Line: int(je.Line), Column: int(je.Column), Quote: je.Quote}
	if je.File == nil {
		ei.FileNil = true
	} else {
		ei.File = je.File.Name()
	}
	func() {
		defer func() {
			if r := recover(); r != nil {
				ei.ErrorPanic = trunc(fmt.Sprint(r), 200)
			}
		}()
		ei.ErrorStr = je.Error()
	}()
	return ei
}

// sharedOpts: Option values that live as long as the process and are handed to every build that asks for the same kinds.
var (
	sharedOptsMu sync.Mutex
	sharedOpts   = map[string]core.Option{}
)

func sharedOpt(kinds []string) (core.Option, error) {
	key := strings.Join(kinds, ",")
	sharedOptsMu.Lock()
	defer sharedOptsMu.Unlock()
	if o, ok := sharedOpts[key]; ok {
		return o, nil
	}
	var dd []directive.Enumeration
	for _, b := range kinds {
		if b == "HTTP-response-code" {
			dd = append(dd, directive.HTTPResponseCode)
			continue
		}
		e, err := directive.NewDirectiveType(b)
		if err != nil {
			return nil, fmt.Errorf("unknown banned directive %q", b)
		}
		dd = append(dd, e)
	}
	o := core.WithBannedDirectives(dd...)
	sharedOpts[key] = o
	return o, nil
}

func sharedBanOpts(lists [][]string) ([]core.Option, error) {
	var oo []core.Option
	for _, l := range lists {
		o, err := sharedOpt(l)
		if err != nil {
			return nil, err
		}
		oo = append(oo, o)
	}
	return oo, nil
}

func bannedOpts(j *proto.Job) ([]core.Option, error) {
	if len(j.SharedBan) > 0 {
		return sharedBanOpts(j.SharedBan)
	}
	if len(j.Banned) == 0 {
		return nil, nil
	}
	var dd []directive.Enumeration
	for _, b := range j.Banned {
		if b == "HTTP-response-code" {
			dd = append(dd, directive.HTTPResponseCode)
			continue
		}
		e, err := directive.NewDirectiveType(b)
		if err != nil {
			return nil, fmt.Errorf("unknown banned directive %q", b)
		}
		dd = append(dd, e)
	}
	if j.BannedSplit {
		var oo []core.Option
		for _, d := range dd {
			oo = append(oo, core.WithBannedDirectives(d))
		}
		return oo, nil
	}
	return []core.Option{core.WithBannedDirectives(dd...)}, nil
}

func rootPath(j *proto.Job) string {
	if j.AbsRoot {
		return j.Root
	}
	if j.RootSpelling != "" {
		return projDir + "/" + j.RootSpelling
	}
	return filepath.Join(projDir, j.Root)
}

func build(j *proto.Job, stage string) (b *built) {
	b = &built{viaCore: j.ViaCore}
	defer func() {
		if r := recover(); r != nil {
			b.accepted = false
			b.panic = panicInfo(stage, r)
		}
	}()
	opts, err := bannedOpts(j)
	if err != nil {
		panic("harness: " + err.Error())
	}
	var je *jerr.JApiError
	switch {
	case j.ViaCore:
		var f *fs.File
		if j.InMemory {
			f = fs.NewFile(j.Root, j.Files[j.Root])
		} else {
			c, rerr := os.ReadFile(rootPath(j))
			if rerr != nil {
				panic("harness: viaCore root unreadable: " + rerr.Error())
			}
			f = fs.NewFile(rootPath(j), c)
		}
		b.core = core.NewJApiCore(f, opts...)
		je = b.core.BuildCatalog()
	case j.InMemory:
		b.j, je = kit.NewJApiFromFile(fs.NewFile(j.Root, j.Files[j.Root]), opts...)
	default:
		b.j, je = kit.NewJapi(rootPath(j), opts...)
	}
	if je != nil {
		b.err = errInfo(je)
		return b
	}
	b.accepted = true
	return b
}

func (b *built) call(op string, hashOnly bool) (o proto.Output) {
	o.Op = op
	defer func() {
		if r := recover(); r != nil {
			o.Panic = panicInfo(op, r)
		}
	}()
	var data []byte
	var err error
	if b.viaCore {
		switch op {
		case "json":
			data, err = b.core.Catalog().ToJson()
		case "jsonindent":
			data, err = b.core.Catalog().ToJsonIndent()
		default:
			panic("harness: op " + op + " not available via core")
		}
	} else {
		switch op {
		case "json":
			data, err = b.j.ToJson()
		case "jsonindent":
			data, err = b.j.ToJsonIndent()
		case "openapi":
			data, err = b.j.ToOpenAPIJson()
		case "openapiindent":
			data, err = b.j.ToOpenAPIJsonIndent()
		case "title":
			data = []byte(b.j.Title())
		default:
			panic("harness: unknown op " + op)
		}
	}
	if err != nil {
		o.Err = err.Error()
		if o.Err == "" {
			o.Err = "(empty error text)"
		}
		return o
	}
	o.Len = len(data)
	if hashOnly {
		h := sha256.Sum256(data)
		o.Hash = hex.EncodeToString(h[:8])
	} else {
		o.Bytes = append([]byte(nil), data...)
	}
	return o
}

func outKey(o proto.Output) string {
	switch {
	case o.Panic != nil:
		return "PANIC:" + o.Panic.Func + ":" + o.Panic.Kind
	case o.Err != "":
		return "ERR:" + o.Err
	case o.Hash != "":
		return "H:" + o.Hash
	default:
		return "B:" + string(o.Bytes)
	}
}

// ---- project materialisation ----

func materialise(j *proto.Job) error {
	if j.InMemory || j.AbsRoot {
		return nil
	}
	box := filepath.Dir(projDir)
	if err := os.RemoveAll(box); err != nil {
		return err
	}
	if err := os.MkdirAll(projDir, 0o755); err != nil {
		return err
	}
	for _, d := range j.Dirs {
		if err := os.MkdirAll(filepath.Join(projDir, d), 0o755); err != nil {
			return err
		}
	}
	for name, content := range j.Files {
		p := filepath.Join(projDir, name)
		if !strings.HasPrefix(filepath.Clean(p), box) {
			return fmt.Errorf("file %q escapes the sandbox", name)
		}
		if err := os.MkdirAll(filepath.Dir(p), 0o755); err != nil {
			return err
		}
		if bytes.Contains(content, []byte("@@PROJ@@")) {
			content = bytes.ReplaceAll(content, []byte("@@PROJ@@"), []byte(projDir))
		}
		if bytes.Contains(content, []byte("@@BOX@@")) {
			content = bytes.ReplaceAll(content, []byte("@@BOX@@"), []byte(box))
		}
		// special files: a named pipe, a symbolic link
		if string(content) == "@@FIFO@@" {
			if err := syscall.Mkfifo(p, 0o644); err != nil {
				return err
			}
			continue
		}
		if strings.HasPrefix(string(content), "@@SYMLINK:") && strings.HasSuffix(string(content), "@@") {
			if err := os.Symlink(strings.TrimSuffix(strings.TrimPrefix(string(content), "@@SYMLINK:"), "@@"), p); err != nil {
				return err
			}
			continue
		}
		if err := os.WriteFile(p, content, 0o644); err != nil {
			return err
		}
	}
	return nil
}

// ---- job execution ----

func convNodes(in []*verifhook.Node) []*proto.Node {
	if in == nil {
		return nil
	}
	out := make([]*proto.Node, 0, len(in))
	for _, n := range in {
		out = append(out, &proto.Node{
			Kind: n.Kind, Keyword: n.Keyword, File: n.File, Begin: n.Begin, Named: n.Named, Unnamed: n.Unnamed,
			Annotation: n.Annotation, Explicit: n.Explicit, HasBody: n.HasBody, BodyFile: n.BodyFile,
			BodyBegin: n.BodyBegin, BodyEnd: n.BodyEnd, ParentIsNil: n.ParentIsNil, ParentBegin: n.ParentBegin,
			ParentFile: n.ParentFile, Children: convNodes(n.Children),
		})
	}
	return out
}

// processCPU: user + system time of this process so far, in microseconds.
func processCPU() int64 {
	var ru syscall.Rusage
	if err := syscall.Getrusage(syscall.RUSAGE_SELF, &ru); err != nil {
		return 0
	}
	return (ru.Utime.Sec+ru.Stime.Sec)*1e6 + int64(ru.Utime.Usec) + int64(ru.Stime.Usec)
}

func runJob(j *proto.Job) (res *proto.Result) {
	res = &proto.Result{ID: j.ID, Dir: projDir}
	defer func() {
		// a panic of the harness itself (not of the code under test, which is recovered closer to the call)
		if r := recover(); r != nil {
			res.WorkerErr = fmt.Sprintf("worker panic: %v\n%s", r, trunc(string(debug.Stack()), 2000))
		}
	}()
	if err := materialise(j); err != nil {
		res.WorkerErr = "materialise: " + err.Error()
		return res
	}
	resetHooks(j)
	switch {
	case j.Conc != nil:
		res.Conc = runConc(j.Conc)
		return res
	case j.Scan:
		runScan(j, res)
		return res
	case len(j.Probes) > 0:
		for _, p := range j.Probes {
			res.Probes = append(res.Probes, runProbe(p, j.ProbeOffset))
		}
		return res
	case len(j.Seqs) > 0:
		runSeqs(j, res)
		return res
	}
	if straceMarks {
		_, _ = os.Stat("/__verif_mark_begin")
	}
	cpu0 := processCPU()
	b := build(j, "build")
	res.BuildCPU = processCPU() - cpu0
	if straceMarks {
		_, _ = os.Stat("/__verif_mark_end")
	}
	res.Accepted, res.Err, res.Panic = b.accepted, b.err, b.panic
	if j.WantFiles {
		res.Files = hs.files
	}
	if j.WantSteps {
		st := &proto.StepStats{PerFile: map[string][2]int{}, Pairs: len(hs.pairs)}
		for f, p := range hs.perFile {
			st.PerFile[f] = *p
		}
		for pc := range hs.states {
			st.States = append(st.States, pcName(pc))
		}
		sort.Strings(st.States)
		res.Steps = st
	}
	if j.WantPhases {
		res.ScanDone = hs.scanDone
		res.Scan, res.Expand = convNodes(hs.scan), convNodes(hs.expand)
	}
	// hooks off for the serialisation part (they only matter for the build)
	hs.wantFiles, hs.wantSteps, hs.wantPh = false, false, false
	cpu0 = processCPU()
	if b.accepted && j.ParallelOps {
		res.Outputs = parallelOps(b, j)
	} else if b.accepted {
		for _, op := range j.Ops {
			res.Outputs = append(res.Outputs, b.call(op, j.HashOnly))
		}
	}
	res.OpsCPU = processCPU() - cpu0
	for _, lists := range j.OptSeq {
		jj := *j
		jj.SharedBan, jj.Banned = lists, nil
		if len(lists) == 0 {
			jj.SharedBan = nil
		}
		bb := build(&jj, "build")
		var outs []proto.Output
		if bb.accepted {
			for _, op := range j.Ops {
				outs = append(outs, bb.call(op, true))
			}
		}
		m := sig(bb, outs)
		keys := make([]string, 0, len(m))
		for k := range m {
			keys = append(keys, k)
		}
		sort.Strings(keys)
		var sb strings.Builder
		for _, k := range keys {
			sb.WriteString(k + "=" + m[k] + ";")
		}
		res.OptSigs = append(res.OptSigs, sb.String())
	}
	if j.Repeat > 1 {
		first := sig(b, res.Outputs)
		for i := 1; i < j.Repeat; i++ {
			bb := build(j, "build")
			var outs []proto.Output
			if bb.accepted {
				for _, op := range j.Ops {
					outs = append(outs, bb.call(op, j.HashOnly))
				}
			}
			other := sig(bb, outs)
			for k := range first {
				if first[k] != other[k] {
					d := proto.RepeatDiff{Iter: i, What: k, First: trunc(first[k], 600), Other: trunc(other[k], 600)}
					if strings.HasPrefix(first[k], "B:") && strings.HasPrefix(other[k], "B:") {
						d.OnlyExamples = ref.OnlyExamplesDiffer([]byte(first[k][2:]), []byte(other[k][2:]))
					}
					res.Diffs = append(res.Diffs, d)
				}
			}
		}
	}
	return res
}

func sig(b *built, outs []proto.Output) map[string]string {
	m := map[string]string{"accepted": fmt.Sprint(b.accepted)}
	if b.err != nil {
		e := b.err
		m["err"] = fmt.Sprintf("%q file=%s idx=%d line=%d col=%d quote=%q error=%q", e.Msg, e.File, e.Index, e.Line, e.Column, e.Quote, e.ErrorStr)
	} else {
		m["err"] = ""
	}
	if b.panic != nil {
		m["panic"] = b.panic.Func + ":" + b.panic.Kind
	} else {
		m["panic"] = ""
	}
	for _, o := range outs {
		m["out:"+o.Op] = outKey(o)
	}
	return m
}

func runScan(j *proto.Job, res *proto.Result) {
	defer func() {
		if r := recover(); r != nil {
			res.Panic = panicInfo("scan", r)
		}
	}()
	f := fs.NewFile(j.Root, j.Files[j.Root])
	s := scanner.NewJApiScanner(f)
	n := 0
	for {
		lex, je := s.Next()
		if je != nil {
			res.ScanErr = errInfo(je)
			return
		}
		if lex == nil {
			res.Accepted = true
			return
		}
		l := proto.Lexeme{Type: lex.Type().String(), Begin: int(lex.Begin()), End: int(lex.End())}
		func() {
			defer func() {
				if r := recover(); r != nil {
					l.ValuePanic = trunc(fmt.Sprint(r), 120)
				}
			}()
			_ = lex.Value()
		}()
		res.Lexemes = append(res.Lexemes, l)
		n++
		if j.ScanFirst > 0 && n >= j.ScanFirst {
			return
		}
		if n > 4*len(j.Files[j.Root])+16 {
			res.WorkerErr = "" // not a harness problem: the scanner produces lexemes without consuming input
			res.Panic = &proto.PanicInfo{Stage: "scan", Kind: "no-progress", Func: "scanner.Next", Value: "more lexemes than 4*len+16"}
			return
		}
	}
}

// parallelOps calls every accessor of j.Ops at the same time on the one catalog; the yield points of the library delay every other
// passage a little, so that one goroutine is inside a lazily built part while the next one arrives.
func parallelOps(b *built, j *proto.Job) []proto.Output {
	outs := make([]proto.Output, len(j.Ops))
	var n int64
	verifhook.OnYield = func(string) {
		switch k := atomic.AddInt64(&n, 1); k % 3 {
		case 0:
			time.Sleep(time.Duration(100+(k%5)*100) * time.Microsecond)
		case 1:
			runtime.Gosched()
		}
	}
	defer func() { verifhook.OnYield = nil }()
	var wg sync.WaitGroup
	start := make(chan struct{})
	for i, op := range j.Ops {
		wg.Add(1)
		go func(i int, op string) {
			defer wg.Done()
			<-start
			outs[i] = b.call(op, j.HashOnly)
		}(i, op)
	}
	close(start)
	wg.Wait()
	return outs
}

func runProbe(content []byte, off int) (pr proto.ProbeResult) {
	pr.ErrIndex = -1
	defer func() {
		if r := recover(); r != nil {
			pr.Panic = trunc(fmt.Sprint(r), 200)
		}
	}()
	f := fs.NewFile("probe.jst", content)
	s := scanner.NewJApiScanner(f)
	for n := 0; n < 4*len(content)+16; n++ {
		lex, je := s.Next()
		if je != nil {
			pr.ErrIndex, pr.ErrMsg = int(je.Index), je.Msg
			return pr
		}
		if lex == nil {
			return pr
		}
		pr.Lexemes++
		if pr.LexType == "" && int(lex.Begin()) >= off {
			pr.LexType, pr.Begin, pr.End = lex.Type().String(), int(lex.Begin()), int(lex.End())
			if lex.Type() == scanner.Keyword {
				de, err := directive.NewDirectiveType(lex.Value().String())
				if err != nil {
					pr.KindErr = err.Error()
				} else {
					pr.Kind = de.String()
				}
			}
		}
	}
	pr.Panic = "no progress"
	return pr
}

var allOps = []string{"json", "jsonindent", "openapi", "openapiindent", "title"}

func runSeqs(j *proto.Job, res *proto.Result) {
	canon := map[string]string{}
	for _, op := range allOps {
		b := build(j, "build")
		if !b.accepted {
			res.Accepted, res.Err, res.Panic = false, b.err, b.panic
			return
		}
		canon[op] = outKey(b.call(op, false))
	}
	res.Accepted = true
	for _, seq := range j.Seqs {
		b := build(j, "build")
		if !b.accepted {
			res.SeqDiffs = append(res.SeqDiffs, proto.SeqResult{Seq: seq, Call: -1, Op: "build", Canon: "accepted", Got: "rejected"})
			continue
		}
		for i, op := range seq {
			res.SeqCalls++
			got := outKey(b.call(op, false))
			if got != canon[op] {
				sr := proto.SeqResult{Seq: seq, Call: i, Op: op, Canon: trunc(canon[op], 400), Got: trunc(got, 400)}
				if strings.HasPrefix(got, "B:") && strings.HasPrefix(canon[op], "B:") {
					sr.ExamplesOnly = ref.OnlyExamplesDiffer([]byte(canon[op][2:]), []byte(got[2:]))
				}
				res.SeqDiffs = append(res.SeqDiffs, sr)
				break
			}
		}
	}
}

func main() {
	flag.StringVar(&baseDir, "dir", "", "private scratch directory")
	flag.Parse()
	if baseDir == "" {
		fmt.Fprintln(os.Stderr, "vworker: -dir required")
		os.Exit(2)
	}
	projDir = filepath.Join(baseDir, "box", "proj")
	debug.SetMaxStack(256 << 20) // a runaway recursion dies at 256 MiB of stack instead of 1 GiB
	installHooks()
	in := bufio.NewReaderSize(os.Stdin, 1<<20)
	out := bufio.NewWriterSize(os.Stdout, 1<<20)
	enc := json.NewEncoder(out)
	for {
		line, err := in.ReadBytes('\n')
		if len(line) > 0 {
			var j proto.Job
			if uerr := json.Unmarshal(line, &j); uerr != nil {
				_ = enc.Encode(&proto.Result{WorkerErr: "bad job: " + uerr.Error()})
			} else {
				_ = enc.Encode(runJob(&j))
			}
			_ = out.Flush()
		}
		if err != nil {
			return
		}
	}
}
