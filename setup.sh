#!/bin/bash
# Builds the framework from files on disk only (offline).
set -e
export GOFLAGS=-mod=mod GOPROXY=off GOSUMDB=off GOTOOLCHAIN=local
cd "$(dirname "$0")/harness"
cp /repo/go.sum ./go.sum 2>/dev/null || true
mkdir -p ../bin ../evidence
go build -o ../bin/vcheck ./cmd/vcheck
go build -tags verif -o /dev/null ./cmd/vworker
go build -tags verif -race -o /dev/null ./cmd/vworker
echo "setup ok"
